/-
  Concrete execution is the symbolic semantics under the oracle that the store defines.

  For every machine-independent tree `t`, running it on a store (`RtCtx.runTree`: the data model
  of the emitted C) performs exactly the events that `Tree.run` performs under the oracle
  "evaluate the question in the store obtained by applying the events so far", and ends in the
  store obtained by applying those events.  This is what lets the equivalence theorems (stated
  for all history-indexed oracles) speak about concrete runs.
-/
import NmfuModel.Rt
import NmfuProps.EquivSound
namespace Nmfu

/-- The store after the events `h` have been performed from `σ0`. -/
def RtCtx.after (c : RtCtx) (isStart : Bool) (σ0 : CState) (h : List MEv) : CState :=
  h.foldl (c.applyEv isStart) σ0

/-- The oracle a store defines. -/
def RtCtx.oracle (c : RtCtx) (isStart : Bool) (σ0 : CState) : Oracle AEv Quest :=
  fun h q => c.answer (c.after isStart σ0 h) q == some true

theorem after_append (c : RtCtx) (isStart : Bool) (σ0 : CState) (h es : List MEv) :
    c.after isStart σ0 (h ++ es) = es.foldl (c.applyEv isStart) (c.after isStart σ0 h) := by
  simp [RtCtx.after, List.foldl_append]

theorem runTree_eq_run (c : RtCtx) (isStart : Bool) (σ0 : CState) (t : CTree) :
    ∀ h : List MEv,
      c.runTree isStart t (c.after isStart σ0 h) =
        (c.after isStart σ0 (h ++ (t.run (c.oracle isStart σ0) h).1),
         (t.run (c.oracle isStart σ0) h).2) := by
  induction t with
  | emit a k ih =>
    intro h
    simp only [RtCtx.runTree, Tree.run]
    have := ih (h ++ [.act a])
    rw [after_append] at this
    simp only [List.foldl_cons, List.foldl_nil] at this
    rw [this]
    simp [List.append_assoc]
  | ask q kt kf iht ihf =>
    intro h
    simp only [RtCtx.runTree, Tree.run]
    by_cases hq : c.answer (c.after isStart σ0 h) q = some true
    · have hω : c.oracle isStart σ0 h q = true := by simp [RtCtx.oracle, hq]
      simp only [hq, hω, beq_self_eq_true, if_true]
      have := iht (h ++ [.asked q true])
      rw [after_append] at this
      simp only [List.foldl_cons, List.foldl_nil] at this
      rw [this]
      simp [List.append_assoc]
    · have hω : c.oracle isStart σ0 h q = false := by simp [RtCtx.oracle, hq]
      have hb : (c.answer (c.after isStart σ0 h) q == some true) = false := by simp [hq]
      simp only [hb, hω, Bool.false_eq_true, if_false]
      have := ihf (h ++ [.asked q false])
      rw [after_append] at this
      simp only [List.foldl_cons, List.foldl_nil] at this
      rw [this]
      simp [List.append_assoc]
  | leaf l =>
    intro h
    simp [RtCtx.runTree, Tree.run]

/-- Corollary at the empty history: the concrete run of a tree from `σ` performs the symbolic
    run under `σ`'s own oracle. -/
theorem runTree_eq_run_nil (c : RtCtx) (isStart : Bool) (σ : CState) (t : CTree) :
    c.runTree isStart t σ =
      (c.after isStart σ (t.run (c.oracle isStart σ) []).1, (t.run (c.oracle isStart σ) []).2) := by
  have := runTree_eq_run c isStart σ t []
  simpa [RtCtx.after] using this

end Nmfu
