/-
  C01 / C07 / C08 / C16 — the compiled machine behaves as the reference semantics prescribes.

  `Src.sm p o` is the reference semantics of program `p` (NmfuModel/Src.lean): statements in order,
  matches as Brzozowski derivatives of their patterns (whose correctness against the denotational
  language is proved in RxSound.lean), case / optional / loop / break / try / foreach / if / wait /
  finish / yield as documented, errors to the innermost handler at the offending symbol.
  `M.smS o` is the compiled machine with its start actions in front.  The theorem is the soundness
  of the equivalence certificate at this pair: if `certOK` holds, then on every input (bytes and
  end-of-input) and under every outcome of every data test the machine performs exactly the
  events of the reference — hook calls, appends, assignments, yields, result codes — in the same
  order, at most one input step apart, and the same sequence once both have returned a terminal
  code.  (Certificates that need the error-slack relaxation of NmfuModel/EquivF.lean are reported
  separately and are not covered by this theorem.)
-/
import NmfuModel.Src
import NmfuProps.EquivSound
import NmfuProps.RxSound
namespace Nmfu

theorem C01_machine_refines_reference (p : Prog) (M : Machine) (o : SemOpts)
    (V : List (PS Kont Nat AEv Quest))
    (h : certOK (Src.sm p o) (M.smS o) nSym V = true) (ω : Oracle AEv Quest) (w : List Nat)
    (hw : ∀ x ∈ w, x < nSym) :
    Comparable ((Src.sm p o).events ω w) ((M.smS o).events ω w) ∧
    ((Src.sm p o).finalCfg ω w = none → (M.smS o).finalCfg ω w = none →
      (Src.sm p o).events ω w = (M.smS o).events ω w) ∧
    (∀ x, x < nSym → (Src.sm p o).events ω w <+: (M.smS o).events ω (w ++ [x]) ∧
                     (M.smS o).events ω w <+: (Src.sm p o).events ω (w ++ [x])) :=
  ⟨(certOK_sound h (by decide) ω w hw).1, (certOK_sound h (by decide) ω w hw).2,
   fun x hx => certOK_lag_one h ω w x hw hx⟩

/-- C07: the matcher state of the reference is the derivative of the pattern, and derivative
    acceptance is membership in the pattern's language (`Rx.accepts_iff`), a dead derivative means
    no member of the language extends the input (`Rx.dead_iff_no_extension`): so the reference —
    and with the certificate the compiled machine — accepts exactly the language and reports the
    mismatch at exactly the first byte after which no member is reachable. -/
theorem C07_language_exact (r : Rx) (w : List Nat) :
    (r.accepts w = true ↔ Rx.Lang r w) ∧ ((r.derivs w).alive = false ↔ ¬ ∃ v, Rx.Lang r (w ++ v)) :=
  ⟨Rx.accepts_iff r w, Rx.dead_iff_no_extension r w⟩

/-! ### Per-byte actions (`foreach … do { … }`), conditionals included

  The reading the reference gives them, stated outright: in order; an append first asks whether its
  output is full and, if so, hands the byte over to the out-of-space continuation — nothing of the
  append and nothing after it is performed, the byte is not consumed; a conditional asks its
  conditions in order, runs the block of the first that holds and then goes on with what follows it,
  whichever branch was taken (or none). -/

theorem C01_perbyte_nil (c : Src.Ctx) (oos k : STree) (d : Nat) : Src.pcActs c oos d [] k = k := by
  unfold Src.pcActs; rfl

theorem C01_perbyte_append (c : Src.Ctx) (oos k : STree) (d i : Nat) (e : IExpr) (rest : List SAct) :
    Src.pcActs c oos d (.appendC i e :: rest) k
      = .ask (.full i) oos (.emit (.appendC i (subst c.o c.x e)) (Src.pcActs c oos d rest k)) := by
  rw [Src.pcActs]

theorem C01_perbyte_if (c : Src.Ctx) (oos k : STree) (d b : Nat) (e : IExpr) (rest : List SAct) :
    Src.pcActs c oos (d + 1) (.cond [(.expr e, b)] :: rest) k
      = .ask (.cond (subst c.o c.x e))
          (Src.pcActs c oos d (Src.blockActs c.p b) (Src.pcActs c oos (d + 1) rest k))
          (Src.pcActs c oos (d + 1) rest k) := by
  rw [Src.pcActs]
  simp

theorem C01_perbyte_if_else (c : Src.Ctx) (oos k : STree) (d b b' : Nat) (e : IExpr) (rest : List SAct) :
    Src.pcActs c oos (d + 1) (.cond [(.expr e, b), (.else_, b')] :: rest) k
      = .ask (.cond (subst c.o c.x e))
          (Src.pcActs c oos d (Src.blockActs c.p b) (Src.pcActs c oos (d + 1) rest k))
          (Src.pcActs c oos d (Src.blockActs c.p b') (Src.pcActs c oos (d + 1) rest k)) := by
  rw [Src.pcActs]
  simp

end Nmfu
