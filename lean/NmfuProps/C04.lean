/-
  C04 — feed and end always return: no input makes a generated parser spin.

  In the model every dispatch is a finite tree; the only way a `feed`/`end` call of the emitted
  code can fail to return is a cycle of non-consuming moves (fall-through arms, condition
  branches, out-of-space redirects, breaks), which the tree represents by a `SPIN` leaf where the
  move budget (`stepFuel`, more than twice the number of states) ran out.  `prune` removes the
  branches that contradict what the path has established about each buffer being full;
  `prune_runTree` shows that no concrete run is affected.  Hence, for a machine passing
  `noSpinCheck`, *no store and no byte* can drive a dispatch to `SPIN` (`C04_dispatch_returns`),
  and `feed` on a chunk makes at most `stepFuel` non-consuming moves per byte.
  `noSpinCheck` and `yieldProgressCheck` are evaluated on every machine the real compiler
  accepts (harness/check_C04.py); a candidate is confirmed by running the binary.
-/
import NmfuModel.NoSpin
import NmfuProps.C03
namespace Nmfu

/-- The store agrees with what the path has established. -/
def Sat (c : RtCtx) (σ : CState) (α : Full) : Prop :=
  ∀ i v, α i = some v → (v = true ↔ (σ.str i).counter = (c.ty i).cap)

theorem sat_top (c : RtCtx) (σ : CState) : Sat c σ Full.top := by
  intro i v h; simp [Full.top] at h

theorem sat_of_counters (c : RtCtx) (σ σ' : CState) (α : Full) (h : Sat c σ α)
    (hc : ∀ i, (σ'.str i).counter = (σ.str i).counter) : Sat c σ' α := by
  intro i v hv; rw [hc i]; exact h i v hv

theorem addMemFault_str (σ : CState) (m : String) (j : Nat) : (σ.addMemFault m).str j = σ.str j := by
  simp only [CState.addMemFault]
  show (σ.addFault m).str j = σ.str j
  exact addFault_str σ m j

theorem writeByte_counter (c : RtCtx) (σ : CState) (i k v j : Nat) :
    ((c.writeByte σ i k v).str j).counter = (σ.str j).counter := by
  simp only [RtCtx.writeByte]
  split
  · rw [addMemFault_str]
  · split
    · rw [addMemFault_str]
    · rw [str_setStr]; split
      · next h => rw [h.1]
      · rfl

theorem onDemandAlloc_counter (c : RtCtx) (σ : CState) (i j : Nat) :
    ((c.onDemandAlloc σ i).str j).counter = (σ.str j).counter := by
  simp only [RtCtx.onDemandAlloc]
  split
  · split
    · rw [str_setStr]; split
      · next h => rw [h.1]
      · rfl
    · rfl
  · rfl

theorem setCounter_other (σ : CState) (i j n : Nat) (b : StrBuf) (h : j ≠ i) :
    ((σ.setStr i { b with counter := n }).str j).counter = (σ.str j).counter := by
  rw [str_setStr]; simp [h]

theorem foldl_write_counter (c : RtCtx) (i : Nat) (val : Nat → Nat) (j : Nat) :
    ∀ (ks : List Nat) (σ : CState),
      ((ks.foldl (fun σ k => c.writeByte σ i k (val k)) σ).str j).counter = (σ.str j).counter := by
  intro ks
  induction ks with
  | nil => intro σ; rfl
  | cons k rest ih => intro σ; simp only [List.foldl_cons]; rw [ih, writeByte_counter]

theorem setStrAlloc_counter (c : RtCtx) (σ : CState) (isStart : Bool) (i j : Nat) :
    ((c.setStrAlloc σ isStart i).str j).counter = (σ.str j).counter := by
  exact onDemandAlloc_counter c σ i j

/-- An event on buffer `i` does not change the counter of another buffer. -/
theorem apply_counter_other (c : RtCtx) (σ : CState) (isStart : Bool) (a : AEv) (j : Nat)
    (hj : match a with
      | .append i _ => j ≠ i | .appendC i _ => j ≠ i | .setStr i _ => j ≠ i | .delete i => j ≠ i
      | _ => True) :
    ((c.apply σ isStart a).str j).counter = (σ.str j).counter := by
  cases a with
  | hook n arg => rfl
  | brk => rfl
  | ret _ => rfl
  | yield _ => rfl
  | opt _ => rfl
  | raised => rfl
  | set i e => simp only [RtCtx.apply]; split <;> first | rw [addFault_str] | rfl
  | append i byte =>
    simp only [RtCtx.apply]
    split
    · rw [writeByte_counter, setCounter_other _ _ _ _ _ hj, writeByte_counter, onDemandAlloc_counter]
    · rw [setCounter_other _ _ _ _ _ hj, writeByte_counter, onDemandAlloc_counter]
  | appendC i e =>
    simp only [RtCtx.apply]
    split
    · rw [addFault_str, onDemandAlloc_counter]
    · split
      · rw [writeByte_counter, setCounter_other _ _ _ _ _ hj, writeByte_counter, onDemandAlloc_counter]
      · rw [setCounter_other _ _ _ _ _ hj, writeByte_counter, onDemandAlloc_counter]
  | setStr i bs =>
    simp only [RtCtx.apply]
    split
    · rw [setCounter_other _ _ _ _ _ hj, writeByte_counter, foldl_write_counter, setStrAlloc_counter]
    · rw [setCounter_other _ _ _ _ _ hj, foldl_write_counter, setStrAlloc_counter]
  | delete i =>
    simp only [RtCtx.apply]
    split
    · split
      · rw [str_setStr]; simp [hj]; rw [addMemFault_str]
      · rw [str_setStr]; simp [hj]
    · split
      · rw [setCounter_other _ _ _ _ _ hj, writeByte_counter]
      · rw [setCounter_other _ _ _ _ _ hj]

theorem setCounter_self (σ : CState) (i n : Nat) :
    ((σ.setStr i { σ.str i with counter := n }).str i).counter = n ∨
    ((σ.setStr i { σ.str i with counter := n }).str i).counter = 0 := by
  rw [str_setStr]
  split
  · left; rfl
  · next h =>
    right
    have hge : ¬ i < σ.strs.size := fun hlt => h ⟨rfl, hlt⟩
    rw [str_default_of_ge σ i hge]; rfl

theorem setStr_counter_zero (τ : CState) (i : Nat) (b' : StrBuf) (hb : b'.counter = 0) :
    ((τ.setStr i b').str i).counter = 0 := by
  rw [str_setStr]
  split
  · exact hb
  · next h =>
    have hge : ¬ i < τ.strs.size := fun hlt => h ⟨rfl, hlt⟩
    rw [str_default_of_ge τ i hge]; rfl

theorem delete_counter_self (c : RtCtx) (σ : CState) (isStart : Bool) (i : Nat) :
    ((c.apply σ isStart (.delete i)).str i).counter = 0 := by
  simp only [RtCtx.apply]
  split
  · exact setStr_counter_zero _ i _ rfl
  · split <;> exact setStr_counter_zero _ i _ rfl

theorem setStr_counter_self (c : RtCtx) (σ : CState) (isStart : Bool) (i : Nat) (bs : List Nat) :
    ((c.apply σ isStart (.setStr i bs)).str i).counter = bs.length ∨
    ((c.apply σ isStart (.setStr i bs)).str i).counter = 0 := by
  simp only [RtCtx.apply]
  split <;> exact setCounter_self _ i bs.length

/-- What an event establishes is true of the store after the event. -/
theorem sat_after (c : RtCtx) (σ : CState) (isStart : Bool) (α : Full) (a : AEv)
    (h : Sat c σ α) : Sat c (c.apply σ isStart a) (α.after c a) := by
  intro j v hv
  cases a with
  | hook n arg => exact h j v hv
  | brk => exact h j v hv
  | ret _ => exact h j v hv
  | yield _ => exact h j v hv
  | opt _ => exact h j v hv
  | raised => exact h j v hv
  | set i e =>
    rw [apply_counter_other c σ isStart _ j trivial]; exact h j v hv
  | append i byte =>
    simp only [Full.after, Full.set] at hv
    split at hv
    · exact absurd hv (by simp)
    · next hne => rw [apply_counter_other c σ isStart _ j hne]; exact h j v hv
  | appendC i e =>
    simp only [Full.after, Full.set] at hv
    split at hv
    · exact absurd hv (by simp)
    · next hne => rw [apply_counter_other c σ isStart _ j hne]; exact h j v hv
  | delete i =>
    simp only [Full.after, Full.set] at hv
    split at hv
    · next heq =>
      subst heq
      split at hv
      · next hcap =>
        simp only [Option.some.injEq] at hv
        subst hv
        rw [delete_counter_self]
        constructor
        · intro hf; exact absurd hf (by simp)
        · intro h0; omega
      · exact absurd hv (by simp)
    · next hne => rw [apply_counter_other c σ isStart _ j hne]; exact h j v hv
  | setStr i bs =>
    simp only [Full.after, Full.set] at hv
    split at hv
    · next heq =>
      subst heq
      split at hv
      · next hlen =>
        simp only [Option.some.injEq] at hv
        subst hv
        constructor
        · intro hf; exact absurd hf (by simp)
        · intro h0
          rcases setStr_counter_self c σ isStart j bs with h1 | h1 <;> omega
      · exact absurd hv (by simp)
    · next hne => rw [apply_counter_other c σ isStart _ j hne]; exact h j v hv

theorem sat_asked (c : RtCtx) (σ : CState) (isStart : Bool) (α : Full) (q : Quest) (v : Bool)
    (h : Sat c σ α) : Sat c (c.applyEv isStart σ (.asked q v)) α := by
  apply sat_of_counters c σ _ α h
  intro i
  cases q with
  | full j => rfl
  | cond e =>
    simp only [RtCtx.applyEv]
    split
    · rw [addFault_str]
    · rfl

/-- **Pruning does not change any concrete run.** -/
theorem prune_runTree (c : RtCtx) (isStart : Bool) (t : CTree) :
    ∀ (α : Full) (σ : CState), Sat c σ α →
      c.runTree isStart (prune c α t) σ = c.runTree isStart t σ := by
  induction t with
  | leaf l => intro α σ _; rfl
  | emit a k ih =>
    intro α σ h
    simp only [prune, RtCtx.runTree]
    exact ih _ _ (sat_after c σ isStart α a h)
  | ask q kt kf iht ihf =>
    intro α σ h
    cases q with
    | cond e =>
      simp only [prune, RtCtx.runTree]
      split
      · exact iht _ _ (sat_asked c σ isStart α _ true h)
      · exact ihf _ _ (sat_asked c σ isStart α _ false h)
    | full i =>
      simp only [prune]
      cases hα : α i with
      | none =>
        simp only [RtCtx.runTree]
        split
        · next hq =>
          apply iht
          intro j v hv
          simp only [Full.set] at hv
          split at hv
          · next heq =>
            subst heq
            simp only [Option.some.injEq] at hv
            subst hv
            have : (σ.str j).counter = (c.ty j).cap := by
              simpa [RtCtx.answer] using hq
            show (true = true ↔ (σ.str j).counter = _)
            simp [this]
          · exact sat_asked c σ isStart α _ true h j v hv
        · next hq =>
          apply ihf
          intro j v hv
          simp only [Full.set] at hv
          split at hv
          · next heq =>
            subst heq
            simp only [Option.some.injEq] at hv
            subst hv
            have : (σ.str j).counter ≠ (c.ty j).cap := by
              intro heq; apply hq; simp [RtCtx.answer, heq]
            show (false = true ↔ (σ.str j).counter = _)
            simp [this]
          · exact sat_asked c σ isStart α _ false h j v hv
      | some b =>
        have hb := h i b hα
        cases b with
        | true =>
          have hfull : (σ.str i).counter = (c.ty i).cap := hb.1 rfl
          have hq : (c.answer σ (.full i) == some true) = true := by simp [RtCtx.answer, hfull]
          simp only [RtCtx.runTree, hq, if_true]
          exact iht _ _ (sat_asked c σ isStart α _ true h)
        | false =>
          have hnf : (σ.str i).counter ≠ (c.ty i).cap := fun he => by simpa using hb.2 he
          have hq : (c.answer σ (.full i) == some true) = false := by simp [RtCtx.answer, hnf]
          simp only [RtCtx.runTree, hq, Bool.false_eq_true, if_false]
          exact ihf _ _ (sat_asked c σ isStart α _ false h)

/-- **Every dispatch returns.**  For a machine passing `noSpinCheck`, no store and no symbol can
    drive the emitted code's dispatch (`feed` on a byte, `end()` on end-of-input) into its move
    budget: it reaches a consuming transition or a return within `stepFuel` non-consuming moves. -/
theorem C04_dispatch_returns (c : RtCtx) (h : c.noSpinCheck = true) (σ : CState) (x : Nat)
    (hx : x < nSym) (st : Int) (adv : Nat) :
    (c.runTree false (c.M.call c.semOpts σ.state x) σ).2 ≠ .ret "SPIN" st adv := by
  rw [← prune_runTree c false _ Full.top σ (sat_top c σ), runTree_eq_run_nil]
  simp only
  by_cases hs : σ.state < 0 ∨ σ.state.toNat ≥ c.M.states.size
  · have : c.M.call c.semOpts σ.state x = .leaf (.ret "FAIL" σ.state 0) := by
      simp only [Machine.call, Machine.stepFuel, Machine.dispatch]
      rcases hs with hs | hs <;> simp [hs]
    rw [this]
    simp [prune, Tree.run]
  · have hs' : 0 ≤ σ.state ∧ σ.state.toNat < c.M.states.size := by omega
    have hmem := run_mem_paths (c.oracle false σ) (prune c Full.top (c.M.call c.semOpts σ.state x)) []
    simp only [RtCtx.noSpinCheck, List.all_eq_true, List.mem_range] at h
    have hcall := h σ.state.toNat hs'.2 x hx
    rw [Int.toNat_of_nonneg hs'.1] at hcall
    have hl := hcall _ hmem
    intro heq
    rw [heq] at hl
    simp at hl

/-- The list-level feed never reports the spin code either. -/
theorem C04_feed_returns (c : RtCtx) (h : c.noSpinCheck = true) :
    ∀ (inp : List Nat) (σ σ' : CState) (pos p : Nat),
      (∀ b ∈ inp, b < nSym) → c.feedL σ inp pos ≠ .returned σ' "SPIN" p := by
  intro inp
  induction inp with
  | nil => intro σ σ' pos p _ hc; simp [RtCtx.feedL] at hc
  | cons b rest ih =>
    intro σ σ' pos p hb hc
    simp only [RtCtx.feedL] at hc
    have hns := C04_dispatch_returns c h σ b (hb b (by simp))
    split at hc
    · exact ih _ _ _ _ (fun y hy => hb y (List.mem_cons_of_mem _ hy)) hc
    · next code st adv hl =>
      simp only [FeedRes.returned.injEq] at hc
      exact hns st adv (by rw [hl, hc.2.1])
    · next code st adv hl =>
      simp only [FeedRes.returned.injEq] at hc
      have h1 := congrArg String.length hc.2.1
      rw [String.length_append] at h1
      have h6 : "YIELD_".length = 6 := by decide
      have h4 : "SPIN".length = 4 := by decide
      omega

end Nmfu
