/-
  Soundness of the lag-tolerant equivalence certificate, for every pair of symbolic machines,
  every input word and every history-indexed oracle.
-/
import NmfuModel.Equiv
namespace Nmfu

set_option linter.unusedSectionVars false
set_option linter.unusedSimpArgs false

variable {S T A Q L : Type} [DecidableEq A] [DecidableEq Q] [DecidableEq S] [DecidableEq T]

/-- The answers recorded in `es` are the ones `ω` gives when `es` is performed from `h`. -/
def Consistent (ω : Oracle A Q) : List (Ev A Q) → List (Ev A Q) → Prop
  | _, [] => True
  | h, .act a :: es => Consistent ω (h ++ [.act a]) es
  | h, .asked q v :: es => ω h q = v ∧ Consistent ω (h ++ [.asked q v]) es

@[simp] theorem run_emit (ω : Oracle A Q) (a : A) (k : Tree A Q L) (h : List (Ev A Q)) :
    (Tree.emit a k).run ω h =
      (.act a :: (k.run ω (h ++ [.act a])).1, (k.run ω (h ++ [.act a])).2) := by
  simp [Tree.run]

theorem run_ask (ω : Oracle A Q) (q : Q) (kt kf : Tree A Q L) (h : List (Ev A Q)) (v : Bool)
    (hv : ω h q = v) :
    (Tree.ask q kt kf).run ω h =
      (.asked q v :: ((if v then kt else kf).run ω (h ++ [.asked q v])).1,
        ((if v then kt else kf).run ω (h ++ [.asked q v])).2) := by
  cases v <;> simp [Tree.run, hv]

@[simp] theorem run_leaf (ω : Oracle A Q) (l : L) (h : List (Ev A Q)) :
    (Tree.leaf l : Tree A Q L).run ω h = ([], l) := by
  simp [Tree.run]

theorem run_mem_paths (ω : Oracle A Q) (t : Tree A Q L) (h : List (Ev A Q)) :
    t.run ω h ∈ t.paths := by
  induction t generalizing h with
  | emit a k ih =>
    simp only [run_emit, Tree.paths, List.mem_map]
    exact ⟨_, ih _, rfl⟩
  | ask q kt kf iht ihf =>
    rw [run_ask ω q kt kf h _ rfl]
    simp only [Tree.paths, List.mem_append, List.mem_map]
    cases ω h q with
    | true => left; exact ⟨_, iht _, rfl⟩
    | false => right; exact ⟨_, ihf _, rfl⟩
  | leaf l => simp [Tree.paths]

theorem run_consistent (ω : Oracle A Q) (t : Tree A Q L) (h : List (Ev A Q)) :
    Consistent ω h (t.run ω h).1 := by
  induction t generalizing h with
  | emit a k ih => simp only [run_emit, Consistent]; exact ih _
  | ask q kt kf iht ihf =>
    rw [run_ask ω q kt kf h _ rfl]
    simp only [Consistent, true_and]
    cases ω h q with
    | true => exact iht _
    | false => exact ihf _
  | leaf l => simp [Consistent]

theorem sync_run (ω : Oracle A Q) :
    ∀ (lag : List (Ev A Q)) (t t' : Tree A Q L) (h : List (Ev A Q)),
      sync lag t = some t' → Consistent ω h lag →
      t.run ω h = (lag ++ (t'.run ω (h ++ lag)).1, (t'.run ω (h ++ lag)).2) := by
  intro lag
  induction lag with
  | nil =>
    intro t t' h hs _
    simp [sync] at hs
    subst hs
    simp
  | cons e es ih =>
    intro t t' h hs hc
    cases e with
    | act a' =>
      cases t with
      | emit a k =>
        simp only [sync] at hs
        split at hs
        · next heq =>
          subst heq
          simp only [Consistent] at hc
          have := ih k t' (h ++ [.act a']) hs hc
          rw [run_emit, this]
          simp [List.append_assoc]
        · exact absurd hs (by simp)
      | ask q kt kf => simp [sync] at hs
      | leaf l => simp [sync] at hs
    | asked q' v =>
      cases t with
      | emit a k => simp [sync] at hs
      | ask q kt kf =>
        simp only [sync] at hs
        split at hs
        · next heq =>
          subst heq
          simp only [Consistent] at hc
          obtain ⟨hv, hc⟩ := hc
          have := ih _ t' (h ++ [.asked q' v]) hs hc
          rw [run_ask ω q' kt kf h v hv, this]
          simp [List.append_assoc]
        · exact absurd hs (by simp)
      | leaf l => simp [sync] at hs

/-- What `joint` promises about the two actual runs from a common history. -/
def JointPost (ω : Oracle A Q) (h : List (Ev A Q)) (tA : Tree A Q (Leaf S)) (tB : Tree A Q (Leaf T)) (p : PS S T A Q) : Prop :=
  p.a = (tA.run ω h).2.cfg ∧ p.b = (tB.run ω h).2.cfg ∧
  (if p.aLeads then
      (tA.run ω h).1 = (tB.run ω h).1 ++ p.lag ∧ Consistent ω (h ++ (tB.run ω h).1) p.lag
    else
      (tB.run ω h).1 = (tA.run ω h).1 ++ p.lag ∧ Consistent ω (h ++ (tA.run ω h).1) p.lag)

theorem joint_leaf_left (ω : Oracle A Q) (l : Leaf S) (t : Tree A Q (Leaf T)) (h : List (Ev A Q)) :
    ∃ p ∈ (t.paths.map fun p => (⟨l.cfg, p.2.cfg, p.1, false⟩ : PS S T A Q)),
      JointPost ω h (.leaf l) t p := by
  refine ⟨⟨l.cfg, (t.run ω h).2.cfg, (t.run ω h).1, false⟩, ?_, ?_⟩
  · exact List.mem_map.2 ⟨_, run_mem_paths ω t h, rfl⟩
  · simp only [JointPost, Tree.run, List.nil_append, List.append_nil, Bool.false_eq_true,
      if_false, true_and]
    exact run_consistent ω t h

theorem joint_leaf_right (ω : Oracle A Q) (l : Leaf T) (t : Tree A Q (Leaf S)) (h : List (Ev A Q)) :
    ∃ p ∈ (t.paths.map fun p => (⟨p.2.cfg, l.cfg, p.1, true⟩ : PS S T A Q)),
      JointPost ω h t (.leaf l) p := by
  refine ⟨⟨(t.run ω h).2.cfg, l.cfg, (t.run ω h).1, true⟩, ?_, ?_⟩
  · exact List.mem_map.2 ⟨_, run_mem_paths ω t h, rfl⟩
  · simp only [JointPost, Tree.run, List.nil_append, List.append_nil, if_true, true_and]
    exact run_consistent ω t h

theorem joint_run (ω : Oracle A Q) :
    ∀ (tA : Tree A Q (Leaf S)) (tB : Tree A Q (Leaf T)) (succs : List (PS S T A Q)) (h : List (Ev A Q)),
      joint tA tB = some succs → ∃ p ∈ succs, JointPost ω h tA tB p := by
  intro tA
  induction tA with
  | leaf l =>
    intro tB succs h hj
    simp only [joint, Option.some.injEq] at hj
    subst hj
    exact joint_leaf_left ω l tB h
  | emit a k ih =>
    intro tB succs h hj
    cases tB with
    | leaf l =>
      simp only [joint, Option.some.injEq] at hj
      subst hj
      exact joint_leaf_right ω l (.emit a k) h
    | ask q kt kf => simp [joint] at hj
    | emit a' k' =>
      simp only [joint] at hj
      split at hj
      · next heq =>
        subst heq
        obtain ⟨p, hp, hpa, hpb, hpl⟩ := ih k' succs (h ++ [.act a]) hj
        refine ⟨p, hp, ?_⟩
        simp only [JointPost, Tree.run]
        refine ⟨hpa, hpb, ?_⟩
        split
        · next hl =>
          simp only [hl, if_true] at hpl
          simpa [List.append_assoc] using hpl
        · next hl =>
          simp only [hl, if_false] at hpl
          simpa [List.append_assoc] using hpl
      · exact absurd hj (by simp)
  | ask q kt kf iht ihf =>
    intro tB succs h hj
    cases tB with
    | leaf l =>
      simp only [joint, Option.some.injEq] at hj
      subst hj
      exact joint_leaf_right ω l (.ask q kt kf) h
    | emit a' k' => simp [joint] at hj
    | ask q' kt' kf' =>
      simp only [joint] at hj
      split at hj
      · next heq =>
        subst heq
        split at hj
        · next l1 l2 h1 h2 =>
          simp only [Option.some.injEq] at hj
          subst hj
          cases hv : ω h q with
          | true =>
            obtain ⟨p, hp, hpa, hpb, hpl⟩ := iht kt' l1 (h ++ [.asked q true]) h1
            refine ⟨p, List.mem_append_left _ hp, ?_⟩
            simp only [JointPost, Tree.run, hv, if_true]
            refine ⟨hpa, hpb, ?_⟩
            split
            · next hl =>
              simp only [hl, if_true] at hpl
              simpa [List.append_assoc] using hpl
            · next hl =>
              simp only [hl, if_false] at hpl
              simpa [List.append_assoc] using hpl
          | false =>
            obtain ⟨p, hp, hpa, hpb, hpl⟩ := ihf kf' l2 (h ++ [.asked q false]) h2
            refine ⟨p, List.mem_append_right _ hp, ?_⟩
            simp only [JointPost, Tree.run, hv, Bool.false_eq_true, if_false]
            refine ⟨hpa, hpb, ?_⟩
            split
            · next hl =>
              simp only [hl, if_true] at hpl
              simpa [List.append_assoc] using hpl
            · next hl =>
              simp only [hl, if_false] at hpl
              simpa [List.append_assoc] using hpl
        · exact absurd hj (by simp)
      · exact absurd hj (by simp)

/-- Product state `p` describes the two concrete runs so far. -/
def Rel (ω : Oracle A Q) (p : PS S T A Q) (hA hB : List (Ev A Q)) (cA : Option S) (cB : Option T) : Prop :=
  p.a = cA ∧ p.b = cB ∧
  (if p.aLeads then hA = hB ++ p.lag ∧ Consistent ω hB p.lag
   else hB = hA ++ p.lag ∧ Consistent ω hA p.lag)

theorem step_rel (ω : Oracle A Q) (M : SM S A Q) (N : SM T A Q) (p : PS S T A Q) (x : Nat)
    (hA hB : List (Ev A Q)) (cA : Option S) (cB : Option T) (succs : List (PS S T A Q))
    (hr : Rel ω p hA hB cA cB) (hs : stepCheck M N p x = some succs) :
    ∃ p' ∈ succs,
      Rel ω p' (hA ++ ((M.tree cA x).run ω hA).1) (hB ++ ((N.tree cB x).run ω hB).1)
        ((M.tree cA x).run ω hA).2.cfg ((N.tree cB x).run ω hB).2.cfg ∧
      hA <+: hB ++ ((N.tree cB x).run ω hB).1 ∧
      hB <+: hA ++ ((M.tree cA x).run ω hA).1 := by
  obtain ⟨ha, hb, hl⟩ := hr
  subst ha hb
  unfold stepCheck at hs
  by_cases hlead : p.aLeads = true
  · simp only [hlead, if_true] at hs hl
    obtain ⟨hAeq, hcons⟩ := hl
    split at hs
    · exact absurd hs (by simp)
    · next tB' hsync =>
      have hrunB := sync_run ω p.lag _ tB' hB hsync hcons
      obtain ⟨p', hp', hpa, hpb, hpl⟩ := joint_run ω _ _ succs hA hs
      refine ⟨p', hp', ⟨hpa, ?_, ?_⟩, ?_, ?_⟩
      · rw [hrunB]; simpa [hAeq] using hpb
      · rw [hrunB]
        subst hAeq
        split
        · next h1 =>
          simp only [h1, if_true] at hpl
          refine ⟨?_, ?_⟩
          · rw [hpl.1]; simp [List.append_assoc]
          · simpa [List.append_assoc] using hpl.2
        · next h1 =>
          simp only [h1, if_false] at hpl
          refine ⟨?_, hpl.2⟩
          simp only [hpl.1, List.append_assoc]
      · rw [hrunB, hAeq]
        simp only [← List.append_assoc]
        exact List.prefix_append _ _
      · rw [hAeq]; simp only [List.append_assoc]; exact List.prefix_append _ _
  · have hlead' : p.aLeads = false := by simpa using hlead
    simp only [hlead', Bool.false_eq_true, if_false] at hs hl
    obtain ⟨hBeq, hcons⟩ := hl
    split at hs
    · exact absurd hs (by simp)
    · next tA' hsync =>
      have hrunA := sync_run ω p.lag _ tA' hA hsync hcons
      obtain ⟨p', hp', hpa, hpb, hpl⟩ := joint_run ω _ _ succs hB hs
      refine ⟨p', hp', ⟨?_, hpb, ?_⟩, ?_, ?_⟩
      · rw [hrunA]; simpa [hBeq] using hpa
      · rw [hrunA]
        subst hBeq
        split
        · next h1 =>
          simp only [h1, if_true] at hpl
          refine ⟨?_, hpl.2⟩
          simp only [hpl.1, List.append_assoc]
        · next h1 =>
          simp only [h1, if_false] at hpl
          refine ⟨?_, ?_⟩
          · rw [hpl.1]; simp [List.append_assoc]
          · simpa [List.append_assoc] using hpl.2
      · rw [hBeq]; simp only [List.append_assoc]; exact List.prefix_append _ _
      · rw [hrunA, hBeq]
        simp only [← List.append_assoc]
        exact List.prefix_append _ _

theorem certOK_step {M : SM S A Q} {N : SM T A Q} {nsym : Nat} {V : List (PS S T A Q)}
    (hc : certOK M N nsym V = true) {p : PS S T A Q} (hp : p ∈ V) {x : Nat} (hx : x < nsym) :
    ∃ succs, stepCheck M N p x = some succs ∧ ∀ p' ∈ succs, p' ∈ V := by
  simp only [certOK, Bool.and_eq_true, List.all_eq_true, List.mem_range] at hc
  have h := hc.2 p hp x hx
  split at h
  · exact absurd h (by simp)
  · next succs hs =>
    refine ⟨succs, hs, ?_⟩
    intro p' hp'
    have := (List.all_eq_true.1 h) p' hp'
    simpa using this

theorem certOK_init {M : SM S A Q} {N : SM T A Q} {nsym : Nat} {V : List (PS S T A Q)}
    (hc : certOK M N nsym V = true) : initPS M N ∈ V := by
  simp only [certOK, Bool.and_eq_true] at hc
  simpa using hc.1

/-- The invariant is preserved along any word: after `w` the two runs are described by some
    product state of the certificate. -/
theorem cert_runs {M : SM S A Q} {N : SM T A Q} {nsym : Nat} {V : List (PS S T A Q)}
    (hc : certOK M N nsym V = true) (ω : Oracle A Q) :
    ∀ (w : List Nat) (p : PS S T A Q) (hA hB : List (Ev A Q)) (cA : Option S) (cB : Option T),
      p ∈ V → Rel ω p hA hB cA cB → (∀ x ∈ w, x < nsym) →
      ∃ p' ∈ V, Rel ω p' (hA ++ (M.runFrom ω hA cA w).1) (hB ++ (N.runFrom ω hB cB w).1)
        (M.runFrom ω hA cA w).2 (N.runFrom ω hB cB w).2 := by
  intro w
  induction w with
  | nil =>
    intro p hA hB cA cB hp hr _
    exact ⟨p, hp, by simpa [SM.runFrom] using hr⟩
  | cons x w ih =>
    intro p hA hB cA cB hp hr hw
    obtain ⟨succs, hs, hsub⟩ := certOK_step hc hp (hw x (by simp))
    obtain ⟨p', hp', hr', _, _⟩ := step_rel ω M N p x hA hB cA cB succs hr hs
    obtain ⟨p'', hp'', hr''⟩ := ih p' _ _ _ _ (hsub p' hp') hr'
      (fun y hy => hw y (List.mem_cons_of_mem _ hy))
    refine ⟨p'', hp'', ?_⟩
    simpa [SM.runFrom, List.append_assoc] using hr''

theorem runFrom_append (M : SM S A Q) (ω : Oracle A Q) :
    ∀ (w v : List Nat) (h : List (Ev A Q)) (c : Option S),
      M.runFrom ω h c (w ++ v) =
        ((M.runFrom ω h c w).1 ++ (M.runFrom ω (h ++ (M.runFrom ω h c w).1) (M.runFrom ω h c w).2 v).1,
         (M.runFrom ω (h ++ (M.runFrom ω h c w).1) (M.runFrom ω h c w).2 v).2) := by
  intro w
  induction w with
  | nil => intro v h c; simp [SM.runFrom]
  | cons x w ih =>
    intro v h c
    simp only [List.cons_append, SM.runFrom]
    rw [ih]
    simp [List.append_assoc]

def Comparable {α : Type} (l1 l2 : List α) : Prop := l1 <+: l2 ∨ l2 <+: l1

theorem rel_init (ω : Oracle A Q) (M : SM S A Q) (N : SM T A Q) :
    Rel ω (initPS M N) [] [] (some M.start) (some N.start) := by
  simp [Rel, initPS, Consistent]

theorem sync_leaf_some {lag : List (Ev A Q)} {l : L} {t : Tree A Q L}
    (h : sync lag (.leaf l) = some t) : lag = [] := by
  cases lag with
  | nil => rfl
  | cons e es => cases e <;> simp [sync] at h

/-- **Soundness of the certificate.**  If `certOK M N nsym V` holds then for every oracle and every
    word over symbols below `nsym`, the event sequences of the two machines are prefix-comparable,
    and equal once both machines have halted. -/
theorem certOK_sound {M : SM S A Q} {N : SM T A Q} {nsym : Nat} {V : List (PS S T A Q)}
    (hc : certOK M N nsym V = true) (hn : 0 < nsym) (ω : Oracle A Q) (w : List Nat)
    (hw : ∀ x ∈ w, x < nsym) :
    Comparable (M.events ω w) (N.events ω w) ∧
    (M.finalCfg ω w = none → N.finalCfg ω w = none → M.events ω w = N.events ω w) := by
  obtain ⟨p, hp, hr⟩ := cert_runs hc ω w _ _ _ _ _ (certOK_init hc) (rel_init ω M N) hw
  simp only [List.nil_append] at hr
  obtain ⟨ha, hb, hl⟩ := hr
  constructor
  · unfold Comparable SM.events
    by_cases hlead : p.aLeads = true
    · simp only [hlead, if_true] at hl
      right; rw [hl.1]; exact List.prefix_append _ _
    · simp only [hlead, if_false] at hl
      left; rw [hl.1]; exact List.prefix_append _ _
  · intro hA hB
    unfold SM.finalCfg at hA hB
    rw [hA] at ha; rw [hB] at hb
    obtain ⟨succs, hs, _⟩ := certOK_step hc hp hn
    have hlag : p.lag = [] := by
      unfold stepCheck at hs
      simp only [ha, hb, SM.tree] at hs
      split at hs
      · split at hs
        · exact absurd hs (by simp)
        · next t hsync => exact sync_leaf_some hsync
      · split at hs
        · exact absurd hs (by simp)
        · next t hsync => exact sync_leaf_some hsync
    unfold SM.events
    rw [hlag] at hl
    by_cases hlead : p.aLeads = true
    · simp only [hlead, if_true, List.append_nil] at hl; exact hl.1
    · simp only [hlead, if_false, List.append_nil] at hl; exact hl.1.symm

/-- The lag is never older than one input step: everything one machine has done after `w` the
    other has done after `w ++ [x]`, whatever `x` is. -/
theorem certOK_lag_one {M : SM S A Q} {N : SM T A Q} {nsym : Nat} {V : List (PS S T A Q)}
    (hc : certOK M N nsym V = true) (ω : Oracle A Q) (w : List Nat) (x : Nat)
    (hw : ∀ y ∈ w, y < nsym) (hx : x < nsym) :
    M.events ω w <+: N.events ω (w ++ [x]) ∧ N.events ω w <+: M.events ω (w ++ [x]) := by
  obtain ⟨p, hp, hr⟩ := cert_runs hc ω w _ _ _ _ _ (certOK_init hc) (rel_init ω M N) hw
  obtain ⟨succs, hs, _⟩ := certOK_step hc hp hx
  obtain ⟨_, _, _, h1, h2⟩ := step_rel ω M N p x _ _ _ _ succs hr hs
  simp only [List.nil_append] at h1 h2
  unfold SM.events
  rw [runFrom_append, runFrom_append]
  simp only [SM.runFrom, List.nil_append, List.append_nil]
  exact ⟨h1, h2⟩

end Nmfu
