/-
  C09 — acceptance implies one-byte-lookahead unambiguity.

  The decision is made on the reference semantics (NmfuModel/Ambig.lean) for each program the real
  compiler accepts.  This file shows that the decision means what the property says:

  * `C09_case_rule_exact`: for every list of clause patterns and every word `w`, "after `w` one
    pattern's derivative is nullable while another's is alive" is exactly "`w` is a member of one
    pattern's language and a prefix (proper or not) of a member of another's" — so a case whose
    running frames never show the first has pairwise disjoint, mutually prefix-free clause
    languages, and conversely.
  * `C09_caseConflict_iff`, `C09_case_frame_rule`: the executable rule on a case frame is that
    statement about the live derivatives.
  * `C09_lookahead_rule_exact`: "the derivative after `w` is nullable and the symbol keeps it alive"
    is exactly "`w` is a member and `w` followed by the symbol is a prefix of another member";
    `C09_match_frame_rule`: an unflagged match frame never has that together with a symbol that
    starts what follows.
  * `C09_no_ambiguity_on_any_input`: when the certificate check passes for a set of
    configurations, every configuration reached on ANY input word (any length, any outcome of the
    data tests) has no ambiguous decision point on any next symbol.
-/
import NmfuModel.Ambig
import NmfuProps.RxSound
namespace Nmfu
open Rx

theorem derivs_lang : ∀ (w : List Nat) (r : Rx) (v : List Nat), Lang (r.derivs w) v ↔ Lang r (w ++ v) := by
  intro w
  induction w with
  | nil => intro r v; simp [derivs]
  | cons x w ih =>
    intro r v
    have := ih (r.deriv x) v
    simp only [derivs, List.foldl_cons, List.cons_append] at this ⊢
    rw [this, deriv_iff]

theorem derivs_nullable_iff (r : Rx) (w : List Nat) : (r.derivs w).nullable = true ↔ Lang r w := by
  rw [nullable_iff, derivs_lang]; simp

theorem derivs_alive_iff (r : Rx) (w : List Nat) : (r.derivs w).alive = true ↔ ∃ v, Lang r (w ++ v) := by
  rw [alive_iff]
  constructor
  · rintro ⟨v, h⟩; exact ⟨v, (derivs_lang w r v).1 h⟩
  · rintro ⟨v, h⟩; exact ⟨v, (derivs_lang w r v).2 h⟩

/-- **The case rule is exact**: a complete pattern next to another live pattern, after `w`, is a
    word of one clause pattern that is also a prefix of a word of another. -/
theorem C09_case_rule_exact (rs : List Rx) (w : List Nat) :
    (∃ (i j : Nat) (a b : Rx), i ≠ j ∧ rs[i]? = some a ∧ rs[j]? = some b ∧
        (a.derivs w).nullable = true ∧ (b.derivs w).alive = true) ↔
    (∃ (i j : Nat) (a b : Rx), i ≠ j ∧ rs[i]? = some a ∧ rs[j]? = some b ∧ Lang a w ∧ ∃ v, Lang b (w ++ v)) := by
  constructor
  · rintro ⟨i, j, a, b, hij, ha, hb, hn, hal⟩
    exact ⟨i, j, a, b, hij, ha, hb, (derivs_nullable_iff a w).1 hn, (derivs_alive_iff b w).1 hal⟩
  · rintro ⟨i, j, a, b, hij, ha, hb, hn, hal⟩
    exact ⟨i, j, a, b, hij, ha, hb, (derivs_nullable_iff a w).2 hn, (derivs_alive_iff b w).2 hal⟩

/-- The executable rule on the list of live derivatives. -/
theorem C09_caseConflict_iff (l : List (Rx × Nat × Nat)) :
    Src.caseConflict l = true ↔
      ∃ (i j : Nat) (a b : Rx × Nat × Nat), i ≠ j ∧ l[i]? = some a ∧ l[j]? = some b ∧ a.1.nullable = true := by
  simp only [Src.caseConflict, Bool.and_eq_true, decide_eq_true_eq, List.any_eq_true]
  constructor
  · rintro ⟨hlen, a, ha, hn⟩
    obtain ⟨i, hi, hia⟩ := List.mem_iff_getElem.1 ha
    have hia' : l[i]? = some a := by rw [List.getElem?_eq_getElem hi, hia]
    by_cases h0 : i = 0
    · have h1 : 1 < l.length := by omega
      exact ⟨i, 1, a, l[1], by omega, hia', List.getElem?_eq_getElem h1, hn⟩
    · have h1 : 0 < l.length := by omega
      exact ⟨i, 0, a, l[0], h0, hia', List.getElem?_eq_getElem h1, hn⟩
  · rintro ⟨i, j, a, b, hij, ha, hb, hn⟩
    have hi := (List.getElem?_eq_some_iff.1 ha).1
    have hj := (List.getElem?_eq_some_iff.1 hb).1
    refine ⟨by omega, a, ?_, hn⟩
    exact List.mem_of_getElem? ha

/-- A non-greedy case frame that is not flagged on a symbol has, after the symbol, no complete
    pattern next to another live one. -/
theorem C09_case_frame_rule (c : Src.Ctx) (fuel : Nat) (pc : PerChar) (alts : List (Rx × Nat × Nat))
    (els : Option Nat) (rest : Kont)
    (h : Src.ambig c (fuel + 1) (.c false pc alts els :: rest) = none) :
    Src.caseConflict ((alts.map fun a => (a.1.deriv c.x, a.2.1, a.2.2)).filter fun a => a.1.alive) = false := by
  simp only [Src.ambig] at h
  split at h
  · next hne =>
    simp only [Bool.false_eq_true, if_false] at h
    split at h
    · exact absurd h (by simp)
    · next hc => simpa using hc
  · next he =>
    have : ((alts.map fun a => (a.1.deriv c.x, a.2.1, a.2.2)).filter fun a => a.1.alive) = [] := by
      simpa using he
    rw [this]; rfl

/-- **The look-ahead rule is exact**: complete after `w` and continued by `x` means `w` is a member
    and `w` followed by `x` is a prefix of another member. -/
theorem C09_lookahead_rule_exact (r : Rx) (w : List Nat) (x : Nat) :
    ((r.derivs w).nullable = true ∧ ((r.derivs w).deriv x).alive = true) ↔
    (Lang r w ∧ ∃ v, Lang r (w ++ x :: v)) := by
  have hstep : (r.derivs w).deriv x = r.derivs (w ++ [x]) := by
    simp [derivs, List.foldl_append]
  rw [hstep, derivs_nullable_iff, derivs_alive_iff]
  simp

/-- A match frame that is not flagged never has: pattern complete, the symbol continues it, and
    the symbol starts what follows. -/
theorem C09_match_frame_rule (c : Src.Ctx) (fuel : Nat) (r : Rx) (pc : PerChar) (rest : Kont)
    (h : Src.ambig c (fuel + 1) (.m r pc :: rest) = none) :
    ¬ (r.nullable = true ∧ (r.deriv c.x).alive = true ∧ Src.starts c fuel rest = true) := by
  rintro ⟨hn, ha, hs⟩
  simp [Src.ambig, ha, hn, hs] at h

/-! ### Every input -/

/-- configurations reachable on a word (any outcome of the data tests at every step) -/
inductive SrcReach (p : Prog) (o : SemOpts) : List Nat → Kont → Prop where
  | start : SrcReach p o [] [.run p.main 0]
  | step {w K x K'} : SrcReach p o w K → K' ∈ Src.succs p o K x → SrcReach p o (w ++ [x]) K'

/-- **When the certificate check passes, no input reaches an ambiguous decision point**: for every
    word over bytes and end-of-input, every configuration reached, and every next symbol. -/
theorem C09_no_ambiguity_on_any_input (p : Prog) (o : SemOpts) (V : List Kont)
    (h : Src.ambigCertOK p o V = true) (w : List Nat) (hw : ∀ x ∈ w, x < nSym) (K : Kont)
    (hr : SrcReach p o w K) (x : Nat) (hx : x < nSym) :
    Src.ambig { p := p, o := o, x := x, lp := false } (Src.stepFuel p) K = none := by
  simp only [Src.ambigCertOK, Bool.and_eq_true, List.all_eq_true, List.mem_range,
    List.contains_iff_mem] at h
  have hmem : K ∈ V := by
    induction hr with
    | start => exact h.1
    | @step w K x K' _ hk ih =>
      have hwx : ∀ y ∈ w, y < nSym := fun y hy => hw y (by simp [hy])
      have hxs : x < nSym := hw x (by simp)
      exact ((h.2 K (ih hwx)) x hxs).2 K' hk
  have := ((h.2 K hmem) x hx).1
  simpa [Option.isNone_iff_eq_none] using this

/-- Non-vacuity: a two-statement program whose first statement is ended by look-ahead with a
    disjoint follower passes, an overlapping follower is flagged. -/
def exClean : Prog := { blocks := #[[.mtch (.seq (.cls [97]) (.star (.cls [98]))) {}, .mtch (.cls [99]) {}]], main := 0 }
def exAmbig : Prog := { blocks := #[[.mtch (.seq (.cls [97]) (.star (.cls [98]))) {}, .mtch (.cls [98]) {}]], main := 0 }

example : (Src.ambig { p := exClean, o := {}, x := 98, lp := false } (Src.stepFuel exClean)
    [.m (.star (.cls [98])) {}, .run 0 1]).isNone = true := by decide +kernel
example : (Src.ambig { p := exAmbig, o := {}, x := 98, lp := false } (Src.stepFuel exAmbig)
    [.m (.star (.cls [98])) {}, .run 0 1]).isSome = true := by decide +kernel

end Nmfu
