/-
  C11 — (the part a model can carry) the emitted feed and end functions never jump to a label
  they do not define.

  `Machine.feedLabels/endLabels` and `Machine.feedGotos/endGotos` are the labels and gotos the
  code generator's templates emit, as functions of the machine (NmfuModel/Labels.lean; compared
  with the labels and gotos scraped from the real generated text on every run).  For every
  machine whose transition targets are state indices of its own table, and for every option set:
  every goto has its label.  (Before the repair recorded in known_findings.json this was false of
  the implementation: labels were computed from the transitions reachable from the start state
  only.)  The verdict of gcc / g++ on the whole text is not modelled; it is explored.
-/
import NmfuModel.Labels
namespace Nmfu

/-- Transition targets are `-1` (no state) or indices into the table (what the exporter and
    `dfa.states.index` guarantee). -/
def Machine.TargetsInRange (M : Machine) : Prop :=
  ∀ a ∈ M.allArms, a.target ≥ 0 → a.target.toNat < M.states.size

theorem mem_allArms_of_state (M : Machine) (s : St) (a : Arm)
    (hs : s ∈ M.states.toList) (ha : a ∈ s.arms) : a ∈ M.allArms := by
  simp only [Machine.allArms, List.mem_flatMap]
  exact ⟨s, hs, ha⟩

theorem feedEmitted_sub (s : St) (a : Arm) (h : a ∈ s.feedEmitted) : a ∈ s.arms := by
  simp only [St.feedEmitted] at h
  split at h
  · simp at h
  · exact h
  · simp only [List.mem_append, List.mem_filter] at h
    rcases h with ⟨h1, _⟩ | h2
    · split at h1
      · exact (List.mem_filter.1 h1).1
      · exact h1
    · split at h2
      · next a' he =>
        simp only [List.mem_singleton] at h2
        subst h2
        split at he
        · next a'' he' =>
          split at he
          · exact absurd he (by simp)
          · simp only [Option.some.injEq] at he; subst he
            simp only [St.elseArm] at he'
            exact List.mem_of_find?_eq_some he'
        · exact absurd he (by simp)
      · simp at h2

theorem endEmitted_sub (s : St) (a : Arm) (h : a ∈ s.endEmitted) : a ∈ s.arms := by
  simp only [St.endEmitted] at h
  split at h
  · simp at h
  · exact h
  · split at h
    · next a' he =>
      split at h
      · simp at h
      · simp only [List.mem_singleton] at h
        subst h
        simp only [St.endArm] at he
        split at he
        · next a3 hf => simp only [Option.some.injEq] at he; subst he; exact List.mem_of_find?_eq_some hf
        · simp only [St.elseArm] at he; exact List.mem_of_find?_eq_some he
    · simp at h

theorem fall_label_mem (M : Machine) (strict : Bool) (a : Arm) (ha : a ∈ M.allArms)
    (hr : M.TargetsInRange) (ht : a.target ≥ 0) (hf : a.fall = true)
    (hd : M.directJump strict a true = true) :
    fallLabel a.target.toNat ∈ M.feedLabels strict := by
  simp only [Machine.feedLabels, List.mem_cons, List.mem_flatMap, List.mem_range, List.mem_append]
  right
  refine ⟨a.target.toNat, hr a ha ht, Or.inl ?_⟩
  have hany : M.allArms.any (fun a' => a'.target == ((a.target.toNat : Nat) : Int) && a'.fall && M.directJump strict a' true) = true := by
    rw [List.any_eq_true]
    exact ⟨a, ha, by simp [Int.toNat_of_nonneg ht, hf, hd]⟩
  rw [if_pos hany]; simp

theorem jpto_label_mem (M : Machine) (strict : Bool) (a : Arm) (ha : a ∈ M.allArms)
    (hr : M.TargetsInRange) (ht : a.target ≥ 0)
    (hd : M.directJump strict a false = true) :
    jptoLabel a.target.toNat ∈ M.feedLabels strict := by
  simp only [Machine.feedLabels, List.mem_cons, List.mem_flatMap, List.mem_range, List.mem_append]
  right
  refine ⟨a.target.toNat, hr a ha ht, Or.inr ?_⟩
  have hany : M.allArms.any (fun a' => a'.target == ((a.target.toNat : Nat) : Int) && M.directJump strict a' false) = true := by
    rw [List.any_eq_true]
    exact ⟨a, ha, by simp [Int.toNat_of_nonneg ht, hd]⟩
  rw [if_pos hany]; simp

theorem armGotos_feed_closed (M : Machine) (o : SemOpts) (a : Arm) (ha : a ∈ M.allArms)
    (hr : M.TargetsInRange) (g : String) (hg : g ∈ M.armGotos o a false) :
    g ∈ M.feedLabels o.strictDone := by
  have hrep : "repeatswitch" ∈ M.feedLabels o.strictDone := by simp [Machine.feedLabels]
  simp only [Machine.armGotos, List.mem_append] at hg
  rcases hg with hg | hg
  · split at hg
    · simp only [List.mem_singleton] at hg; subst hg; exact hrep
    · simp at hg
  · split at hg
    · next hf =>
      split at hg
      · next ht =>
        simp only [List.mem_singleton] at hg
        subst hg
        split
        · next hd => exact fall_label_mem M o.strictDone a ha hr ht hf hd
        · exact hrep
      · simp at hg
    · split at hg
      · simp at hg
      · simp only [Bool.false_eq_true, if_false] at hg
        split at hg
        · next ht =>
          simp only [List.mem_singleton] at hg
          subst hg
          split
          · next hd => exact jpto_label_mem M o.strictDone a ha hr ht hd
          · exact hrep
        · simp at hg

/-- **Every goto of `feed` has its label**, for every machine and option set. -/
theorem C11_feed_labels_closed (M : Machine) (o : SemOpts) (hr : M.TargetsInRange)
    (g : String) (hg : g ∈ M.feedGotos o) : g ∈ M.feedLabels o.strictDone := by
  simp only [Machine.feedGotos, List.mem_flatMap] at hg
  obtain ⟨s, hs, a, ha, hga⟩ := hg
  exact armGotos_feed_closed M o a (mem_allArms_of_state M s a hs (feedEmitted_sub s a ha)) hr g hga

theorem fall_label_mem_end (M : Machine) (a : Arm) (ha : a ∈ M.allArms)
    (hr : M.TargetsInRange) (ht : a.target ≥ 0) (hf : a.fall = true) :
    fallLabel a.target.toNat ∈ M.endLabels := by
  simp only [Machine.endLabels, List.mem_cons, List.mem_flatMap, List.mem_range]
  right
  refine ⟨a.target.toNat, hr a ha ht, ?_⟩
  have hany : M.allArms.any (fun a' => a'.target == ((a.target.toNat : Nat) : Int) && a'.fall) = true := by
    rw [List.any_eq_true]
    exact ⟨a, ha, by simp [Int.toNat_of_nonneg ht, hf]⟩
  rw [if_pos hany]; simp

/-- **Every goto of `end` has its label.** -/
theorem C11_end_labels_closed (M : Machine) (o : SemOpts) (hr : M.TargetsInRange)
    (g : String) (hg : g ∈ M.endGotos o) : g ∈ M.endLabels := by
  have hrep : "repeatswitch" ∈ M.endLabels := by simp [Machine.endLabels]
  simp only [Machine.endGotos, List.mem_flatMap] at hg
  obtain ⟨s, hs, a, ha, hga⟩ := hg
  have haa := mem_allArms_of_state M s a hs (endEmitted_sub s a ha)
  simp only [Machine.armGotos, List.mem_append] at hga
  rcases hga with hga | hga
  · split at hga
    · simp only [List.mem_singleton] at hga; subst hga; exact hrep
    · simp at hga
  · split at hga
    · next hf =>
      split at hga
      · next ht =>
        simp only [List.mem_singleton] at hga
        subst hga
        split
        · exact fall_label_mem_end M a haa hr ht hf
        · exact hrep
      · simp at hga
    · split at hga
      · simp at hga
      · simp at hga

end Nmfu
