/-
  C19 — the order of different flags never matters, for every command line.

  `C19.lean` decides order independence by the kernel for each cluster of related flags on its
  own.  This file lifts it to the whole generated table and to all option sequences:

  * a generic projection theorem: for a set `C` of flags closed under the implies / exclusive
    lists of a table (no row inside mentions a flag outside and vice versa), resolving on the whole
    table and resolving on the rows of `C` alone (with the options of `C` alone) agree on every flag
    of `C` and fail together — phase by phase (defaults, levels, explicit settings, the implies
    fix-point, the exclusivity pass), with the same recursion budgets on both sides;
  * flags outside every cluster are decided by `resolveN_get_unrelated`;
  * for the generated table the kernel decides, per cluster and with the whole table's budgets,
    that every sequence mentioning each flag at most once resolves like the same settings in table
    order (`C19_cluster_order_free`).
  Together: two command lines that give every flag the same last value resolve alike
  (`C19_order_independent_all`).
-/
import NmfuProps.C19
namespace Nmfu

/-! ### Agreement on a set of flags -/

def AgreeOn (C : List Nat) (m m' : FlagMap) : Prop :=
  ∀ f, f ∈ C → m.get f = m'.get f ∧ m.has f = m'.has f

theorem AgreeOn.refl (C : List Nat) (m : FlagMap) : AgreeOn C m m := fun _ _ => ⟨rfl, rfl⟩

theorem AgreeOn.symm {C : List Nat} {m m' : FlagMap} (h : AgreeOn C m m') : AgreeOn C m' m :=
  fun f hf => ⟨(h f hf).1.symm, (h f hf).2.symm⟩

theorem AgreeOn.trans {C : List Nat} {a b c : FlagMap} (h1 : AgreeOn C a b) (h2 : AgreeOn C b c) :
    AgreeOn C a c :=
  fun f hf => ⟨(h1 f hf).1.trans (h2 f hf).1, (h1 f hf).2.trans (h2 f hf).2⟩

theorem set_of_not_has (m : FlagMap) (k : Nat) (v : Bool) (h : m.has k = false) : m.set k v = m := by
  induction m with
  | nil => rfl
  | cons p rest ih =>
    simp only [FlagMap.has] at h
    by_cases hp : p.1 = k
    · simp [hp] at h
    · simp only [hp, if_false] at h
      simp only [FlagMap.set, hp, if_false, ih h]

theorem get_set (m : FlagMap) (k f : Nat) (v : Bool) :
    (m.set k v).get f = if f = k ∧ m.has k = true then v else m.get f := by
  by_cases hk : f = k
  · subst hk
    by_cases hh : m.has f = true
    · simp [hh, get_set_eq m f v hh]
    · have : m.has f = false := by simpa using hh
      simp [this, set_of_not_has m f v this]
  · simp [hk, get_set_ne m f k v hk]

/-- setting a flag of `C` on both sides keeps agreement -/
theorem AgreeOn.set_both {C : List Nat} {m m' : FlagMap} (h : AgreeOn C m m') (k : Nat) (v : Bool)
    (hk : k ∈ C) : AgreeOn C (m.set k v) (m'.set k v) := by
  intro f hf
  refine ⟨?_, by rw [has_set, has_set]; exact (h f hf).2⟩
  rw [get_set, get_set, (h f hf).1, (h k hk).2]

/-- setting a flag outside `C` on one side keeps agreement -/
theorem AgreeOn.set_left {C : List Nat} {m m' : FlagMap} (h : AgreeOn C m m') (k : Nat) (v : Bool)
    (hk : k ∉ C) : AgreeOn C (m.set k v) m' := by
  intro f hf
  refine ⟨?_, by rw [has_set]; exact (h f hf).2⟩
  have : f ≠ k := fun e => hk (e ▸ hf)
  rw [get_set_ne m f k v this]; exact (h f hf).1

/-! ### Restriction of a table and of an option list to a set of flags -/

structure Closed (T : List FlagInfo) (C : List Nat) : Prop where
  inside : ∀ g ∈ T, g.id ∈ C → (∀ x ∈ g.implies, x ∈ C) ∧ (∀ x ∈ g.excl, x ∈ C)
  outside : ∀ g ∈ T, g.id ∉ C → (∀ x ∈ g.implies, x ∉ C) ∧ (∀ x ∈ g.excl, x ∉ C)

def restrictT (T : List FlagInfo) (C : List Nat) : List FlagInfo := T.filter fun g => C.contains g.id
def restrictOv (C : List Nat) (ovn : FlagMap) : FlagMap := ovn.filter fun p => C.contains p.1

theorem infoOf_restrict (T : List FlagInfo) (C : List Nat) (f : Nat) (hf : f ∈ C) :
    infoOf (restrictT T C) f = infoOf T f := by
  unfold infoOf restrictT
  have : (T.filter fun g => C.contains g.id).find? (fun g => g.id == f) = T.find? (fun g => g.id == f) := by
    induction T with
    | nil => rfl
    | cons g rest ih =>
      by_cases hc : C.contains g.id = true
      · simp only [List.filter_cons, hc, if_true, List.find?_cons]
        split
        · rfl
        · exact ih
      · have hne : (g.id == f) = false := by
          cases hq : g.id == f with
          | false => rfl
          | true =>
            have : g.id = f := by simpa using hq
            rw [this] at hc
            exact absurd (by simpa using hf) hc
        simp only [List.filter_cons, hc, List.find?_cons, hne]
        exact ih
  rw [this]

theorem agree_initFlags (T : List FlagInfo) (C : List Nat) :
    AgreeOn C (initFlags T) (initFlags (restrictT T C)) := by
  intro f hf
  unfold initFlags restrictT
  induction T with
  | nil => exact ⟨rfl, rfl⟩
  | cons g rest ih =>
    by_cases hc : C.contains g.id = true
    · simp only [List.filter_cons, hc, if_true, List.map_cons, FlagMap.get, FlagMap.has]
      by_cases hg : g.id = f
      · simp [hg]
      · simp only [hg, if_false]; exact ih
    · have hg : ¬ g.id = f := fun e => hc (by rw [e]; simpa using hf)
      simp only [List.filter_cons, hc, List.map_cons, FlagMap.get, FlagMap.has, hg, if_false]
      exact ih

theorem agree_setAll (C : List Nat) (l : List Nat) (hl : ∀ g ∈ l, g ∉ C) :
    ∀ m m' : FlagMap, AgreeOn C m m' → AgreeOn C (l.foldl (fun m g => m.set g true) m) m' := by
  induction l with
  | nil => intro m m' h; exact h
  | cons g rest ih =>
    intro m m' h
    simp only [List.foldl_cons]
    exact ih (fun x hx => hl x (List.mem_cons_of_mem _ hx)) _ _ (h.set_left g true (hl g (by simp)))

theorem agree_applyLevels (C : List Nat) (levels : List (List Nat)) (level : Nat)
    (hl : ∀ g ∈ levels.flatten, g ∉ C) (m m' : FlagMap) (h : AgreeOn C m m') :
    AgreeOn C (applyLevels levels level m) (applyLevels [] 0 m') := by
  have : applyLevels [] 0 m' = m' := rfl
  rw [this]
  unfold applyLevels
  refine agree_setAll C _ (fun g hg => hl g ?_) m m' h
  simp only [List.mem_flatten] at hg ⊢
  obtain ⟨lst, h1, h2⟩ := hg
  exact ⟨lst, List.mem_of_mem_take h1, h2⟩

theorem agree_applyOverrides (C : List Nat) (ovn : FlagMap) :
    ∀ m m' : FlagMap, AgreeOn C m m' →
      AgreeOn C (applyOverrides ovn m) (applyOverrides (restrictOv C ovn) m') := by
  unfold applyOverrides restrictOv
  induction ovn with
  | nil => intro m m' h; exact h
  | cons p rest ih =>
    intro m m' h
    by_cases hc : C.contains p.1 = true
    · simp only [List.filter_cons, hc, if_true, List.foldl_cons]
      exact ih _ _ (h.set_both p.1 p.2 (by simpa using hc))
    · simp only [List.filter_cons, hc, List.foldl_cons]
      exact ih _ _ (h.set_left p.1 p.2 (by simpa using hc))

/-! ### The implies fix-point -/

def sweepImp (acc : FlagMap × Bool) (x : Nat) : FlagMap × Bool :=
  if acc.1.get x then acc else (acc.1.set x true, true)

def sweepRow (acc : FlagMap × Bool) (g : FlagInfo) : FlagMap × Bool :=
  if acc.1.get g.id then g.implies.foldl sweepImp acc else acc

theorem impliesSweep_eq (T : List FlagInfo) (m : FlagMap) :
    impliesSweep T m = T.foldl sweepRow (m, false) := rfl

def RelAcc (C : List Nat) (acc accC : FlagMap × Bool) : Prop :=
  AgreeOn C acc.1 accC.1 ∧ (accC.2 = true → acc.2 = true)

theorem sweepImp_flag_mono (acc : FlagMap × Bool) (x : Nat) (h : acc.2 = true) : (sweepImp acc x).2 = true := by
  unfold sweepImp; split
  · exact h
  · rfl

theorem foldImp_flag_mono (l : List Nat) : ∀ acc : FlagMap × Bool, acc.2 = true → (l.foldl sweepImp acc).2 = true := by
  induction l with
  | nil => intro acc h; exact h
  | cons x rest ih => intro acc h; exact ih _ (sweepImp_flag_mono acc x h)

theorem sweepRow_flag_mono (acc : FlagMap × Bool) (g : FlagInfo) (h : acc.2 = true) : (sweepRow acc g).2 = true := by
  unfold sweepRow; split
  · exact foldImp_flag_mono _ _ h
  · exact h

theorem foldRow_flag_mono (l : List FlagInfo) : ∀ acc : FlagMap × Bool, acc.2 = true → (l.foldl sweepRow acc).2 = true := by
  induction l with
  | nil => intro acc h; exact h
  | cons x rest ih => intro acc h; exact ih _ (sweepRow_flag_mono acc x h)

theorem sweepImp_both (C : List Nat) (acc accC : FlagMap × Bool) (x : Nat) (hx : x ∈ C)
    (h : RelAcc C acc accC) : RelAcc C (sweepImp acc x) (sweepImp accC x) := by
  unfold sweepImp
  have hg := (h.1 x hx).1
  by_cases hgx : accC.1.get x = true
  · rw [if_pos hgx, if_pos (by rw [hg]; exact hgx)]; exact h
  · rw [if_neg hgx, if_neg (by rw [hg]; exact hgx)]
    exact ⟨h.1.set_both x true hx, fun _ => rfl⟩

theorem sweepImp_left (C : List Nat) (acc accC : FlagMap × Bool) (x : Nat) (hx : x ∉ C)
    (h : RelAcc C acc accC) : RelAcc C (sweepImp acc x) accC := by
  refine ⟨?_, fun hc => sweepImp_flag_mono acc x (h.2 hc)⟩
  unfold sweepImp
  split
  · exact h.1
  · exact h.1.set_left x true hx

theorem foldImp_both (C : List Nat) (l : List Nat) (hl : ∀ x ∈ l, x ∈ C) :
    ∀ acc accC, RelAcc C acc accC → RelAcc C (l.foldl sweepImp acc) (l.foldl sweepImp accC) := by
  induction l with
  | nil => intro acc accC h; exact h
  | cons x rest ih =>
    intro acc accC h
    exact ih (fun y hy => hl y (List.mem_cons_of_mem _ hy)) _ _ (sweepImp_both C acc accC x (hl x (by simp)) h)

theorem foldImp_left (C : List Nat) (l : List Nat) (hl : ∀ x ∈ l, x ∉ C) :
    ∀ acc accC, RelAcc C acc accC → RelAcc C (l.foldl sweepImp acc) accC := by
  induction l with
  | nil => intro acc accC h; exact h
  | cons x rest ih =>
    intro acc accC h
    exact ih (fun y hy => hl y (List.mem_cons_of_mem _ hy)) _ _ (sweepImp_left C acc accC x (hl x (by simp)) h)

theorem sweepRow_both (C : List Nat) (acc accC : FlagMap × Bool) (g : FlagInfo) (hg : g.id ∈ C)
    (hi : ∀ x ∈ g.implies, x ∈ C) (h : RelAcc C acc accC) : RelAcc C (sweepRow acc g) (sweepRow accC g) := by
  unfold sweepRow
  have hgid := (h.1 g.id hg).1
  by_cases hq : accC.1.get g.id = true
  · rw [if_pos hq, if_pos (by rw [hgid]; exact hq)]; exact foldImp_both C _ hi _ _ h
  · rw [if_neg hq, if_neg (by rw [hgid]; exact hq)]; exact h

theorem sweepRow_left (C : List Nat) (acc accC : FlagMap × Bool) (g : FlagInfo)
    (hi : ∀ x ∈ g.implies, x ∉ C) (h : RelAcc C acc accC) : RelAcc C (sweepRow acc g) accC := by
  unfold sweepRow
  split
  · exact foldImp_left C _ hi _ _ h
  · exact h

theorem foldRow_rel (C : List Nat) (T : List FlagInfo)
    (hin : ∀ g ∈ T, g.id ∈ C → ∀ x ∈ g.implies, x ∈ C) (hout : ∀ g ∈ T, g.id ∉ C → ∀ x ∈ g.implies, x ∉ C) :
    ∀ acc accC, RelAcc C acc accC →
      RelAcc C (T.foldl sweepRow acc) ((restrictT T C).foldl sweepRow accC) := by
  unfold restrictT
  induction T with
  | nil => intro acc accC h; exact h
  | cons g rest ih =>
    intro acc accC h
    have ih' := ih (fun g' hg' => hin g' (List.mem_cons_of_mem _ hg')) (fun g' hg' => hout g' (List.mem_cons_of_mem _ hg'))
    by_cases hc : C.contains g.id = true
    · have hgC : g.id ∈ C := by simpa using hc
      simp only [List.filter_cons, hc, if_true, List.foldl_cons]
      exact ih' _ _ (sweepRow_both C acc accC g hgC (hin g (by simp) hgC) h)
    · have hgC : g.id ∉ C := by simpa using hc
      simp only [List.filter_cons, hc, List.foldl_cons]
      exact ih' _ _ (sweepRow_left C acc accC g (hout g (by simp) hgC) h)

theorem sweep_rel (T : List FlagInfo) (C : List Nat) (hc : Closed T C) (m mC : FlagMap) (h : AgreeOn C m mC) :
    RelAcc C (impliesSweep T m) (impliesSweep (restrictT T C) mC) := by
  rw [impliesSweep_eq, impliesSweep_eq]
  exact foldRow_rel C T (fun g hg hgc => (hc.inside g hg hgc).1) (fun g hg hgc => (hc.outside g hg hgc).1)
    _ _ ⟨h, fun hh => absurd hh (by simp)⟩

/-- every row of `l` that is on in `r` has all it implies on in `r` -/
def StableOn (l : List FlagInfo) (r : FlagMap) : Prop :=
  ∀ g ∈ l, r.get g.id = true → ∀ x ∈ g.implies, r.get x = true

theorem foldImp_unchanged (l : List Nat) :
    ∀ acc : FlagMap × Bool, (l.foldl sweepImp acc).2 = false →
      l.foldl sweepImp acc = acc ∧ ∀ x ∈ l, acc.1.get x = true := by
  induction l with
  | nil => intro acc _; exact ⟨rfl, fun _ h => absurd h (by simp)⟩
  | cons x rest ih =>
    intro acc h
    simp only [List.foldl_cons] at h ⊢
    by_cases hx : acc.1.get x = true
    · have e : sweepImp acc x = acc := by unfold sweepImp; rw [if_pos hx]
      rw [e] at h ⊢
      obtain ⟨h1, h2⟩ := ih acc h
      refine ⟨h1, fun y hy => ?_⟩
      rcases List.mem_cons.1 hy with rfl | hy
      · exact hx
      · exact h2 y hy
    · have e : (sweepImp acc x).2 = true := by unfold sweepImp; rw [if_neg hx]
      have := foldImp_flag_mono rest _ e
      rw [this] at h; exact absurd h (by simp)

theorem foldRow_unchanged (l : List FlagInfo) :
    ∀ acc : FlagMap × Bool, (l.foldl sweepRow acc).2 = false →
      l.foldl sweepRow acc = acc ∧ StableOn l acc.1 := by
  induction l with
  | nil => intro acc _; exact ⟨rfl, fun _ h => absurd h (by simp)⟩
  | cons g rest ih =>
    intro acc h
    simp only [List.foldl_cons] at h ⊢
    have hrow : (sweepRow acc g).2 = false := by
      cases hq : (sweepRow acc g).2 with
      | false => rfl
      | true => rw [foldRow_flag_mono rest _ hq] at h; exact absurd h (by simp)
    have hrow_eq : sweepRow acc g = acc ∧ (acc.1.get g.id = true → ∀ x ∈ g.implies, acc.1.get x = true) := by
      unfold sweepRow at hrow ⊢
      by_cases hq : acc.1.get g.id = true
      · rw [if_pos hq] at hrow ⊢
        obtain ⟨h1, h2⟩ := foldImp_unchanged _ acc hrow
        exact ⟨h1, fun _ => h2⟩
      · rw [if_neg hq]; exact ⟨rfl, fun hh => absurd hh hq⟩
    rw [hrow_eq.1] at h ⊢
    obtain ⟨h1, h2⟩ := ih acc h
    refine ⟨h1, fun g' hg' => ?_⟩
    rcases List.mem_cons.1 hg' with rfl | hg'
    · exact hrow_eq.2
    · exact h2 g' hg'

/-- a sweep of the whole table changes no flag of `C` when the `C`-part already agrees with a map
    that is stable for the rows of `C` -/
theorem sweep_absorbed (T : List FlagInfo) (C : List Nat) (hc : Closed T C) (r : FlagMap)
    (hst : StableOn (restrictT T C) r) (m : FlagMap) (h : AgreeOn C m r) :
    AgreeOn C (impliesSweep T m).1 r := by
  rw [impliesSweep_eq]
  suffices hh : ∀ (l : List FlagInfo), (∀ g ∈ l, g ∈ T) → ∀ acc : FlagMap × Bool, AgreeOn C acc.1 r →
      AgreeOn C (l.foldl sweepRow acc).1 r from hh T (fun _ h => h) _ h
  intro l
  induction l with
  | nil => intro _ acc h; exact h
  | cons g rest ih =>
    intro hsub acc h
    simp only [List.foldl_cons]
    apply ih (fun g' hg' => hsub g' (List.mem_cons_of_mem _ hg'))
    have hgT := hsub g (by simp)
    by_cases hgC : g.id ∈ C
    · unfold sweepRow
      by_cases hq : acc.1.get g.id = true
      · rw [if_pos hq]
        have hr : r.get g.id = true := by rw [← (h g.id hgC).1]; exact hq
        have hall := hst g (by simp [restrictT, hgT, hgC]) hr
        have : ∀ (xs : List Nat), (∀ x ∈ xs, x ∈ C ∧ r.get x = true) → ∀ a : FlagMap × Bool, AgreeOn C a.1 r →
            AgreeOn C (xs.foldl sweepImp a).1 r := by
          intro xs
          induction xs with
          | nil => intro _ a ha; exact ha
          | cons x xs ihx =>
            intro hx a ha
            simp only [List.foldl_cons]
            apply ihx (fun y hy => hx y (List.mem_cons_of_mem _ hy))
            have hxx := hx x (by simp)
            have : a.1.get x = true := by rw [(ha x hxx.1).1]; exact hxx.2
            unfold sweepImp; rw [if_pos this]; exact ha
        exact this _ (fun x hx => ⟨(hc.inside g hgT hgC).1 x hx, hall x hx⟩) acc h
      · rw [if_neg hq]; exact h
    · exact (sweepRow_left C acc (r, false) g ((hc.outside g hgT hgC).1) ⟨h, fun hh => absurd hh (by simp)⟩).1

theorem impliesFix_absorbed (T : List FlagInfo) (C : List Nat) (hc : Closed T C) (r : FlagMap)
    (hst : StableOn (restrictT T C) r) :
    ∀ (fuel : Nat) (m : FlagMap), AgreeOn C m r → AgreeOn C (impliesFix T fuel m) r := by
  intro fuel
  induction fuel with
  | zero => intro m h; exact h
  | succ fuel ih =>
    intro m h
    simp only [impliesFix]
    have := sweep_absorbed T C hc r hst m h
    split
    · exact ih _ this
    · exact this

/-- **The implies fix-point projects**: with the same budget on both sides. -/
theorem agree_impliesFix (T : List FlagInfo) (C : List Nat) (hc : Closed T C) :
    ∀ (fuel : Nat) (m mC : FlagMap), AgreeOn C m mC →
      AgreeOn C (impliesFix T fuel m) (impliesFix (restrictT T C) fuel mC) := by
  intro fuel
  induction fuel with
  | zero => intro m mC h; exact h
  | succ fuel ih =>
    intro m mC h
    have hr := sweep_rel T C hc m mC h
    simp only [impliesFix]
    by_cases hb : (impliesSweep (restrictT T C) mC).2 = true
    · rw [if_pos hb, if_pos (hr.2 hb)]
      exact ih _ _ hr.1
    · rw [if_neg hb]
      have hb' : (impliesSweep (restrictT T C) mC).2 = false := by simpa using hb
      rw [impliesSweep_eq] at hb'
      obtain ⟨e1, hst⟩ := foldRow_unchanged (restrictT T C) (mC, false) hb'
      have hst' : StableOn (restrictT T C) (impliesSweep (restrictT T C) mC).1 := by
        rw [impliesSweep_eq, e1]; exact hst
      split
      · exact impliesFix_absorbed T C hc _ hst' fuel _ hr.1
      · exact hr.1

/-! ### The exclusivity pass -/

def RelOpt (C : List Nat) : Option FlagMap → Option FlagMap → Prop
  | none, none => True
  | some a, some b => AgreeOn C a b
  | _, _ => False

theorem foldOpt_rel {α : Type} (C : List Nat) (f g : α → FlagMap → Option FlagMap) (l : List α)
    (hstep : ∀ x ∈ l, ∀ m mC, AgreeOn C m mC → RelOpt C (f x m) (g x mC)) :
    ∀ m mC, AgreeOn C m mC → RelOpt C (foldOpt f l m) (foldOpt g l mC) := by
  induction l with
  | nil => intro m mC h; exact h
  | cons x rest ih =>
    intro m mC h
    have hx := hstep x (by simp) m mC h
    simp only [foldOpt]
    cases h1 : f x m with
    | none =>
      cases h2 : g x mC with
      | none => trivial
      | some b => rw [h1, h2] at hx; exact absurd hx (by simp [RelOpt])
    | some a =>
      cases h2 : g x mC with
      | none => rw [h1, h2] at hx; exact absurd hx (by simp [RelOpt])
      | some b =>
        rw [h1, h2] at hx
        exact ih (fun y hy => hstep y (List.mem_cons_of_mem _ hy)) a b hx

theorem foldOpt_frame {α : Type} (C : List Nat) (f : α → FlagMap → Option FlagMap) (l : List α)
    (hstep : ∀ x ∈ l, ∀ m m', f x m = some m' → AgreeOn C m' m) :
    ∀ m m', foldOpt f l m = some m' → AgreeOn C m' m := by
  induction l with
  | nil => intro m m' h; simp only [foldOpt, Option.some.injEq] at h; rw [← h]; exact AgreeOn.refl C m
  | cons x rest ih =>
    intro m m' h
    simp only [foldOpt] at h
    cases h1 : f x m with
    | none => rw [h1] at h; exact absurd h (by simp)
    | some a =>
      rw [h1] at h
      exact (ih (fun y hy => hstep y (List.mem_cons_of_mem _ hy)) a m' h).trans (hstep x (by simp) m a h1)

theorem restrictOv_has (C : List Nat) (ovn : FlagMap) (c : Nat) (hc : c ∈ C) :
    (restrictOv C ovn).has c = ovn.has c := by
  unfold restrictOv
  induction ovn with
  | nil => rfl
  | cons p rest ih =>
    by_cases hp : C.contains p.1 = true
    · rw [List.filter_cons_of_pos (p := fun q : Nat × Bool => C.contains q.1) hp]
      simp only [FlagMap.has, ih]
    · have : ¬ p.1 = c := fun e => hp (by rw [e]; simpa using hc)
      rw [List.filter_cons_of_neg (p := fun q : Nat × Bool => C.contains q.1) hp]
      simp only [FlagMap.has, this, if_false, ih]

theorem restrictOv_get (C : List Nat) (ovn : FlagMap) (c : Nat) (hc : c ∈ C) :
    (restrictOv C ovn).get c = ovn.get c := by
  unfold restrictOv
  induction ovn with
  | nil => rfl
  | cons p rest ih =>
    by_cases hp : C.contains p.1 = true
    · rw [List.filter_cons_of_pos (p := fun q : Nat × Bool => C.contains q.1) hp]
      simp only [FlagMap.get, ih]
    · have : ¬ p.1 = c := fun e => hp (by rw [e]; simpa using hc)
      rw [List.filter_cons_of_neg (p := fun q : Nat × Bool => C.contains q.1) hp]
      simp only [FlagMap.get, this, if_false, ih]

theorem exclClear_rel (C : List Nat) (ovn : FlagMap) (c : Nat) (hc : c ∈ C) (m mC : FlagMap)
    (h : AgreeOn C m mC) : RelOpt C (exclClear ovn c m) (exclClear (restrictOv C ovn) c mC) := by
  simp only [exclClear, restrictOv_has C ovn c hc, restrictOv_get C ovn c hc, (h c hc).1]
  split
  · trivial
  · split
    · exact h.set_both c false hc
    · exact h

theorem exclClear_frame (C : List Nat) (ovn : FlagMap) (c : Nat) (hc : c ∉ C) (m m' : FlagMap)
    (h : exclClear ovn c m = some m') : AgreeOn C m' m := by
  simp only [exclClear] at h
  split at h
  · exact absurd h (by simp)
  · split at h
    · simp only [Option.some.injEq] at h; rw [← h]; exact (AgreeOn.refl C m).set_left c false hc
    · simp only [Option.some.injEq] at h; rw [← h]; exact AgreeOn.refl C m

theorem infoOf_id (T : List FlagInfo) (k : Nat) : (infoOf T k).id = k := by
  unfold infoOf
  split
  · next f h => have := List.find?_some h; simpa using this
  · rfl

theorem infoOf_lists_inside (T : List FlagInfo) (C : List Nat) (hc : Closed T C) (k : Nat) (hk : k ∈ C) :
    (∀ x ∈ (infoOf T k).implies, x ∈ C) ∧ (∀ x ∈ (infoOf T k).excl, x ∈ C) := by
  rcases infoOf_mem_or_empty T k with hm | ⟨h1, h2⟩
  · exact hc.inside _ hm (by rw [infoOf_id]; exact hk)
  · rw [h1, h2]; exact ⟨fun _ h => absurd h (by simp), fun _ h => absurd h (by simp)⟩

theorem infoOf_lists_outside (T : List FlagInfo) (C : List Nat) (hc : Closed T C) (k : Nat) (hk : k ∉ C) :
    (∀ x ∈ (infoOf T k).implies, x ∉ C) ∧ (∀ x ∈ (infoOf T k).excl, x ∉ C) := by
  rcases infoOf_mem_or_empty T k with hm | ⟨h1, h2⟩
  · exact hc.outside _ hm (by rw [infoOf_id]; exact hk)
  · rw [h1, h2]; exact ⟨fun _ h => absurd h (by simp), fun _ h => absurd h (by simp)⟩

theorem exclAux_rel (T : List FlagInfo) (C : List Nat) (hc : Closed T C) (ovn : FlagMap) :
    ∀ (fuel flag : Nat), flag ∈ C → ∀ m mC, AgreeOn C m mC →
      RelOpt C (exclAux T ovn fuel flag m) (exclAux (restrictT T C) (restrictOv C ovn) fuel flag mC) := by
  intro fuel
  induction fuel with
  | zero => intro flag _ m mC h; exact h
  | succ fuel ih =>
    intro flag hflag m mC h
    obtain ⟨hin_i, hin_e⟩ := infoOf_lists_inside T C hc flag hflag
    simp only [exclAux, infoOf_restrict T C flag hflag]
    have r1 := foldOpt_rel C (exclClear ovn) (exclClear (restrictOv C ovn)) (infoOf T flag).excl
      (fun c hcm m mC hh => exclClear_rel C ovn c (hin_e c hcm) m mC hh) m mC h
    cases h1 : foldOpt (exclClear ovn) (infoOf T flag).excl m with
    | none =>
      cases h2 : foldOpt (exclClear (restrictOv C ovn)) (infoOf T flag).excl mC with
      | none => trivial
      | some b => rw [h1, h2] at r1; exact absurd r1 (by simp [RelOpt])
    | some a =>
      cases h2 : foldOpt (exclClear (restrictOv C ovn)) (infoOf T flag).excl mC with
      | none => rw [h1, h2] at r1; exact absurd r1 (by simp [RelOpt])
      | some b =>
        rw [h1, h2] at r1
        exact foldOpt_rel C _ _ (infoOf T flag).implies
          (fun x hx m mC hh => ih x (hin_i x hx) m mC hh) a b r1

theorem exclAux_frame (T : List FlagInfo) (C : List Nat) (hc : Closed T C) (ovn : FlagMap) :
    ∀ (fuel flag : Nat), flag ∉ C → ∀ m m', exclAux T ovn fuel flag m = some m' → AgreeOn C m' m := by
  intro fuel
  induction fuel with
  | zero => intro flag _ m m' h; simp only [exclAux, Option.some.injEq] at h; rw [← h]; exact AgreeOn.refl C m
  | succ fuel ih =>
    intro flag hflag m m' h
    obtain ⟨hout_i, hout_e⟩ := infoOf_lists_outside T C hc flag hflag
    simp only [exclAux] at h
    cases h1 : foldOpt (exclClear ovn) (infoOf T flag).excl m with
    | none => rw [h1] at h; exact absurd h (by simp)
    | some a =>
      rw [h1] at h
      have f1 := foldOpt_frame C (exclClear ovn) _ (fun c hcm m m' hh => exclClear_frame C ovn c (hout_e c hcm) m m' hh) m a h1
      have f2 := foldOpt_frame C (exclAux T ovn fuel) _ (fun x hx m m' hh => ih x (hout_i x hx) m m' hh) a m' h
      exact f2.trans f1

/-- one entry of the exclusivity pass -/
def exclStep (T : List FlagInfo) (fe : Nat) (ovn : FlagMap) (p : Nat × Bool) (m : FlagMap) : Option FlagMap :=
  if m.get p.1 then exclAux T ovn fe p.1 m else some m

theorem exclPassF_eq (T : List FlagInfo) (fe : Nat) (ovn m : FlagMap) :
    exclPassF T fe ovn m = foldOpt (exclStep T fe ovn) ovn m := rfl

theorem exclStep_rel (T : List FlagInfo) (C : List Nat) (hc : Closed T C) (fe : Nat) (ovn : FlagMap)
    (p : Nat × Bool) (hp : p.1 ∈ C) (m mC : FlagMap) (h : AgreeOn C m mC) :
    RelOpt C (exclStep T fe ovn p m) (exclStep (restrictT T C) fe (restrictOv C ovn) p mC) := by
  unfold exclStep
  rw [(h p.1 hp).1]
  split
  · exact exclAux_rel T C hc ovn fe p.1 hp m mC h
  · exact h

theorem exclStep_frame (T : List FlagInfo) (C : List Nat) (hc : Closed T C) (fe : Nat) (ovn : FlagMap)
    (p : Nat × Bool) (hp : p.1 ∉ C) (m m' : FlagMap) (h : exclStep T fe ovn p m = some m') : AgreeOn C m' m := by
  unfold exclStep at h
  split at h
  · exact exclAux_frame T C hc ovn fe p.1 hp m m' h
  · simp only [Option.some.injEq] at h; rw [← h]; exact AgreeOn.refl C m

/-- **Simulation of a successful prefix**: whatever list of entries is processed on the whole
    table, the entries of `C` processed on the rows of `C` succeed as well and agree on `C`. -/
theorem exclFold_sim (T : List FlagInfo) (C : List Nat) (hc : Closed T C) (fe : Nat) (ovn : FlagMap) :
    ∀ (l : List (Nat × Bool)) (m mC m1 : FlagMap), AgreeOn C m mC →
      foldOpt (exclStep T fe ovn) l m = some m1 →
      ∃ mC1, foldOpt (exclStep (restrictT T C) fe (restrictOv C ovn)) (restrictOv C l) mC = some mC1 ∧
        AgreeOn C m1 mC1 := by
  intro l
  induction l with
  | nil =>
    intro m mC m1 h h1
    simp only [foldOpt, Option.some.injEq] at h1
    exact ⟨mC, rfl, by rw [← h1]; exact h⟩
  | cons p rest ih =>
    intro m mC m1 h h1
    simp only [foldOpt] at h1
    cases hs : exclStep T fe ovn p m with
    | none => rw [hs] at h1; exact absurd h1 (by simp)
    | some m' =>
      rw [hs] at h1
      by_cases hp : C.contains p.1 = true
      · have hpC : p.1 ∈ C := by simpa using hp
        have r := exclStep_rel T C hc fe ovn p hpC m mC h
        rw [hs] at r
        cases hsc : exclStep (restrictT T C) fe (restrictOv C ovn) p mC with
        | none => rw [hsc] at r; exact absurd r (by simp [RelOpt])
        | some mC' =>
          rw [hsc] at r
          obtain ⟨mC1, e1, e2⟩ := ih m' mC' m1 r h1
          refine ⟨mC1, ?_, e2⟩
          have : restrictOv C (p :: rest) = p :: restrictOv C rest := List.filter_cons_of_pos (p := fun q : Nat × Bool => C.contains q.1) hp
          rw [this]
          simp only [foldOpt, hsc]
          exact e1
      · have hpC : p.1 ∉ C := by simpa using hp
        have fr := exclStep_frame T C hc fe ovn p hpC m m' hs
        obtain ⟨mC1, e1, e2⟩ := ih m' mC m1 (fr.trans h) h1
        refine ⟨mC1, ?_, e2⟩
        have : restrictOv C (p :: rest) = restrictOv C rest := List.filter_cons_of_neg (p := fun q : Nat × Bool => C.contains q.1) hp
        rw [this]
        exact e1

theorem foldOpt_none_split {α : Type} (f : α → FlagMap → Option FlagMap) :
    ∀ (l : List α) (m : FlagMap), foldOpt f l m = none →
      ∃ l1 p l2 m1, l = l1 ++ p :: l2 ∧ foldOpt f l1 m = some m1 ∧ f p m1 = none := by
  intro l
  induction l with
  | nil => intro m h; simp [foldOpt] at h
  | cons x rest ih =>
    intro m h
    simp only [foldOpt] at h
    cases h1 : f x m with
    | none => exact ⟨[], x, rest, m, rfl, rfl, h1⟩
    | some a =>
      rw [h1] at h
      obtain ⟨l1, p, l2, m1, e1, e2, e3⟩ := ih a h
      refine ⟨x :: l1, p, l2, m1, by rw [e1]; rfl, ?_, e3⟩
      simp only [foldOpt, h1]; exact e2

theorem foldOpt_append_none {α : Type} (f : α → FlagMap → Option FlagMap) (l1 : List α) (p : α) (l2 : List α)
    (m m1 : FlagMap) (h1 : foldOpt f l1 m = some m1) (h2 : f p m1 = none) :
    foldOpt f (l1 ++ p :: l2) m = none := by
  induction l1 generalizing m with
  | nil =>
    simp only [foldOpt, Option.some.injEq] at h1
    simp only [List.nil_append, foldOpt, h1, h2]
  | cons x rest ih =>
    simp only [foldOpt] at h1
    cases hx : f x m with
    | none => rw [hx] at h1; exact absurd h1 (by simp)
    | some a =>
      rw [hx] at h1
      simp only [List.cons_append, foldOpt, hx]
      exact ih a h1

/-! ### Option lists as settings: keys, last values -/

def NodupKeys (l : FlagMap) : Prop := (l.map (·.1)).Nodup

theorem has_iff_mem (m : FlagMap) (k : Nat) : m.has k = true ↔ k ∈ m.map (·.1) := by
  induction m with
  | nil => simp [FlagMap.has]
  | cons p rest ih =>
    simp only [FlagMap.has, List.map_cons, List.mem_cons]
    by_cases hp : p.1 = k
    · simp [hp]
    · simp only [hp, if_false, ih]
      constructor
      · exact Or.inr
      · rintro (e | h)
        · exact absurd e.symm hp
        · exact h

theorem lastVal_none_of_not_has (m : FlagMap) (k : Nat) (h : m.has k = false) : lastVal m k = none := by
  cases hl : lastVal m k with
  | none => rfl
  | some v =>
    have := (has_iff_lastVal m k).2 (by simp [hl])
    rw [h] at this; exact absurd this (by simp)

theorem get_eq_lastVal (m : FlagMap) (hn : NodupKeys m) (k : Nat) : m.get k = (lastVal m k).getD false := by
  induction m with
  | nil => rfl
  | cons p rest ih =>
    have hn' : NodupKeys rest := (List.nodup_cons.1 hn).2
    have hnp : p.1 ∉ rest.map (·.1) := (List.nodup_cons.1 hn).1
    simp only [FlagMap.get, lastVal]
    by_cases hp : p.1 = k
    · have : FlagMap.has rest k = false := by
        cases hh : FlagMap.has rest k with
        | false => rfl
        | true => rw [← hp] at hh; exact absurd ((has_iff_mem rest p.1).1 hh) hnp
      simp [hp, lastVal_none_of_not_has rest k this]
    · simp only [hp, if_false, ih hn']
      cases lastVal rest k <;> rfl

theorem has_eq_of_lastVal (m m' : FlagMap) (k : Nat) (h : lastVal m k = lastVal m' k) : m.has k = m'.has k := by
  have e1 := has_iff_lastVal m k
  have e2 := has_iff_lastVal m' k
  rw [h] at e1
  cases h1 : m.has k <;> cases h2 : m'.has k <;> simp_all

theorem lastVal_restrictOv (C : List Nat) (o : FlagMap) (f : Nat) :
    lastVal (restrictOv C o) f = if f ∈ C then lastVal o f else none := by
  unfold restrictOv
  induction o with
  | nil => simp [lastVal]
  | cons p rest ih =>
    by_cases hp : C.contains p.1 = true
    · rw [List.filter_cons_of_pos (p := fun q : Nat × Bool => C.contains q.1) hp]
      simp only [lastVal, ih]
      by_cases hf : f ∈ C
      · simp [hf]
      · have : ¬ p.1 = f := fun e => hf (by rw [← e]; simpa using hp)
        simp [hf, this]
    · rw [List.filter_cons_of_neg (p := fun q : Nat × Bool => C.contains q.1) hp]
      simp only [lastVal, ih]
      by_cases hf : f ∈ C
      · have : ¬ p.1 = f := fun e => hp (by rw [e]; simpa using hf)
        simp only [hf, if_true, this, if_false]
        cases lastVal rest f <;> rfl
      · simp [hf]

theorem nodupKeys_restrictOv (C : List Nat) (o : FlagMap) (h : NodupKeys o) : NodupKeys (restrictOv C o) := by
  unfold NodupKeys restrictOv at *
  exact List.Nodup.sublist (List.Sublist.map _ List.filter_sublist) h

theorem keys_restrictOv (C : List Nat) (o : FlagMap) : ∀ p ∈ restrictOv C o, p.1 ∈ C := by
  intro p hp
  unfold restrictOv at hp
  have := (List.mem_filter.1 hp).2
  simpa using this

theorem set_keys (m : FlagMap) (k : Nat) (v : Bool) : (m.set k v).map (·.1) = m.map (·.1) := by
  induction m with
  | nil => rfl
  | cons p rest ih =>
    simp only [FlagMap.set, List.map_cons, ih]
    by_cases hp : p.1 = k
    · simp [hp]
    · simp [hp]

theorem nodupKeys_normalize (ov : List (Nat × Bool)) : NodupKeys (normalize ov) := by
  unfold normalize
  suffices h : ∀ (ov acc : List (Nat × Bool)), NodupKeys acc →
      NodupKeys (ov.foldl (fun acc p => if FlagMap.has acc p.1 then FlagMap.set acc p.1 p.2 else acc ++ [p]) acc) from
    h ov [] List.nodup_nil
  intro ov
  induction ov with
  | nil => intro acc h; exact h
  | cons p rest ih =>
    intro acc h
    simp only [List.foldl_cons]
    apply ih
    split
    · unfold NodupKeys; rw [set_keys]; exact h
    · next hh =>
      unfold NodupKeys at *
      rw [List.map_append, List.nodup_append]
      refine ⟨h, by simp, ?_⟩
      intro a ha b hb
      simp only [List.map_cons, List.map_nil, List.mem_singleton] at hb
      subst hb
      intro e
      subst e
      exact hh ((has_iff_mem acc _).2 ha)

theorem applyOverrides_get_nohas (l : FlagMap) (m : FlagMap) (f : Nat) (hf : m.has f = false) :
    (applyOverrides l m).get f = m.get f := by
  unfold applyOverrides
  induction l generalizing m with
  | nil => rfl
  | cons p rest ih =>
    simp only [List.foldl_cons]
    rw [ih _ (by rw [has_set]; exact hf), get_set]
    by_cases e : f = p.1
    · subst e; simp [hf]
    · simp [e]

/-- writing two option lists that give every flag the same last value has the same effect -/
theorem applyOverrides_same (l l' : FlagMap) (h : ∀ f, lastVal l f = lastVal l' f) (m : FlagMap) (f : Nat) :
    (applyOverrides l m).get f = (applyOverrides l' m).get f := by
  cases hf : m.has f with
  | true => rw [applyOverrides_get l m f hf, applyOverrides_get l' m f hf, h f]
  | false => rw [applyOverrides_get_nohas l m f hf, applyOverrides_get_nohas l' m f hf]

/-! ### Projection of a whole resolution onto a closed set of flags -/

theorem agree_before_excl (T : List FlagInfo) (C : List Nat) (hc : Closed T C) (levels : List (List Nat))
    (level : Nat) (hl : ∀ g ∈ levels.flatten, g ∉ C) (fi : Nat) (ovn : FlagMap) :
    AgreeOn C (impliesFix T fi (applyOverrides ovn (applyLevels levels level (initFlags T))))
      (impliesFix (restrictT T C) fi (applyOverrides (restrictOv C ovn) (applyLevels [] 0 (initFlags (restrictT T C))))) :=
  agree_impliesFix T C hc fi _ _
    (agree_applyOverrides C ovn _ _ (agree_applyLevels C levels level hl _ _ (agree_initFlags T C)))

/-- if the whole table resolves, so do the rows of `C` alone, to the same values on `C` -/
theorem resolveNF_proj_some (T : List FlagInfo) (C : List Nat) (hc : Closed T C) (levels : List (List Nat))
    (level : Nat) (hl : ∀ g ∈ levels.flatten, g ∉ C) (fi fe : Nat) (ovn res : FlagMap)
    (h : resolveNF T fi fe levels level ovn = some res) :
    ∃ resC, resolveNF (restrictT T C) fi fe [] 0 (restrictOv C ovn) = some resC ∧ AgreeOn C res resC := by
  unfold resolveNF at h ⊢
  rw [exclPassF_eq] at h ⊢
  exact exclFold_sim T C hc fe ovn ovn _ _ res (agree_before_excl T C hc levels level hl fi ovn) h

theorem exclAux_empty (T : List FlagInfo) (ovn : FlagMap) (fuel k : Nat) (m : FlagMap)
    (he : (infoOf T k).excl = []) (hi : (infoOf T k).implies = []) : exclAux T ovn fuel k m = some m := by
  cases fuel with
  | zero => rfl
  | succ fuel => simp only [exclAux, he, hi, foldOpt]

theorem restrictOv_append (C : List Nat) (l1 l2 : FlagMap) :
    restrictOv C (l1 ++ l2) = restrictOv C l1 ++ restrictOv C l2 := List.filter_append ..

/-- if the whole table fails to resolve, the rows of one of the sets fail on their own -/
theorem resolveNF_fail_cluster (T : List FlagInfo) (Cs : List (List Nat)) (hcl : ∀ C ∈ Cs, Closed T C)
    (levels : List (List Nat)) (level : Nat) (hlv : ∀ C ∈ Cs, ∀ g ∈ levels.flatten, g ∉ C)
    (hcover : ∀ k, (∀ C ∈ Cs, k ∉ C) → (infoOf T k).excl = [] ∧ (infoOf T k).implies = [])
    (fi fe : Nat) (ovn : FlagMap) (h : resolveNF T fi fe levels level ovn = none) :
    ∃ C ∈ Cs, resolveNF (restrictT T C) fi fe [] 0 (restrictOv C ovn) = none := by
  unfold resolveNF at h
  rw [exclPassF_eq] at h
  obtain ⟨l1, p, l2, m1, e1, e2, e3⟩ := foldOpt_none_split _ _ _ h
  -- the failing entry belongs to one of the sets
  have hp : ∃ C ∈ Cs, p.1 ∈ C := by
    apply Classical.byContradiction
    intro hno
    have hall : ∀ C ∈ Cs, p.1 ∉ C := fun C hC hin => hno ⟨C, hC, hin⟩
    obtain ⟨he, hi⟩ := hcover p.1 hall
    unfold exclStep at e3
    split at e3
    · rw [exclAux_empty T ovn fe p.1 m1 he hi] at e3; exact absurd e3 (by simp)
    · exact absurd e3 (by simp)
  obtain ⟨C, hC, hpC⟩ := hp
  refine ⟨C, hC, ?_⟩
  have hc := hcl C hC
  obtain ⟨mC1, s1, s2⟩ := exclFold_sim T C hc fe ovn l1 _ _ m1
    (agree_before_excl T C hc levels level (hlv C hC) fi ovn) e2
  have r := exclStep_rel T C hc fe ovn p hpC m1 mC1 s2
  rw [e3] at r
  have hfail : exclStep (restrictT T C) fe (restrictOv C ovn) p mC1 = none := by
    cases hq : exclStep (restrictT T C) fe (restrictOv C ovn) p mC1 with
    | none => rfl
    | some b => rw [hq] at r; exact absurd r (by simp [RelOpt])
  unfold resolveNF
  rw [exclPassF_eq]
  have hsplit : restrictOv C ovn = restrictOv C l1 ++ p :: restrictOv C l2 := by
    rw [e1, restrictOv_append]
    congr 1
    exact List.filter_cons_of_pos (p := fun q : Nat × Bool => C.contains q.1) (by simpa using hpC)
  conv => lhs; arg 2; rw [hsplit]
  exact foldOpt_append_none _ _ _ _ _ _ s1 hfail

/-! ### Flags outside every set -/

theorem exclPassF_get (tbl : List FlagInfo) (fe : Nat) (ovn : FlagMap) (f : Nat) (hu : Unrelated tbl f)
    (m m' : FlagMap) (h : exclPassF tbl fe ovn m = some m') : m'.get f = m.get f := by
  unfold exclPassF at h
  refine foldOpt_get _ f (fun _ => True) ?_ ovn m m' (fun _ _ => trivial) h
  intro p m1 m2 _ hh
  split at hh
  · exact exclAux_get tbl ovn f hu _ _ _ _ hh
  · simp only [Option.some.injEq] at hh; rw [← hh]

theorem resolveNF_get_unrelated (tbl : List FlagInfo) (fi fe : Nat) (levels : List (List Nat)) (level : Nat)
    (ovn : FlagMap) (f : Nat) (hu : Unrelated tbl f) (res : FlagMap)
    (h : resolveNF tbl fi fe levels level ovn = some res) :
    res.get f = (applyOverrides ovn (applyLevels levels level (initFlags tbl))).get f := by
  unfold resolveNF at h
  rw [exclPassF_get tbl fe ovn f hu _ _ h, impliesFix_get tbl f hu]

/-! ### Order freedom of the whole table from order freedom of its clusters -/

def ObsEq : Option FlagMap → Option FlagMap → Prop
  | none, none => True
  | some a, some b => ∀ f, a.get f = b.get f
  | _, _ => False

/-- two option lists with distinct keys that give every flag the same value -/
def SameSettings (o o' : FlagMap) : Prop :=
  NodupKeys o ∧ NodupKeys o' ∧ ∀ f, lastVal o f = lastVal o' f

theorem SameSettings.restrict {o o' : FlagMap} (h : SameSettings o o') (C : List Nat) :
    SameSettings (restrictOv C o) (restrictOv C o') :=
  ⟨nodupKeys_restrictOv C o h.1, nodupKeys_restrictOv C o' h.2.1, fun f => by
    rw [lastVal_restrictOv, lastVal_restrictOv, h.2.2 f]⟩

theorem resolveNF_order_free (T : List FlagInfo) (Cs : List (List Nat)) (hcl : ∀ C ∈ Cs, Closed T C)
    (levels : List (List Nat)) (level : Nat) (hlv : ∀ C ∈ Cs, ∀ g ∈ levels.flatten, g ∉ C)
    (hcover : ∀ k, (∀ C ∈ Cs, k ∉ C) → (infoOf T k).excl = [] ∧ (infoOf T k).implies = [] ∧ Unrelated T k)
    (fi fe : Nat)
    (hclu : ∀ C ∈ Cs, ∀ o o' : FlagMap, SameSettings o o' → (∀ p ∈ o, p.1 ∈ C) → (∀ p ∈ o', p.1 ∈ C) →
      resolveNF (restrictT T C) fi fe [] 0 o = resolveNF (restrictT T C) fi fe [] 0 o')
    (ovn ovn' : FlagMap) (hs : SameSettings ovn ovn') :
    ObsEq (resolveNF T fi fe levels level ovn) (resolveNF T fi fe levels level ovn') := by
  have hcover' : ∀ k, (∀ C ∈ Cs, k ∉ C) → (infoOf T k).excl = [] ∧ (infoOf T k).implies = [] :=
    fun k hk => ⟨(hcover k hk).1, (hcover k hk).2.1⟩
  have hcl_eq : ∀ C ∈ Cs, resolveNF (restrictT T C) fi fe [] 0 (restrictOv C ovn)
      = resolveNF (restrictT T C) fi fe [] 0 (restrictOv C ovn') :=
    fun C hC => hclu C hC _ _ (hs.restrict C) (keys_restrictOv C ovn) (keys_restrictOv C ovn')
  cases h1 : resolveNF T fi fe levels level ovn with
  | none =>
    obtain ⟨C, hC, hf⟩ := resolveNF_fail_cluster T Cs hcl levels level hlv hcover' fi fe ovn h1
    cases h2 : resolveNF T fi fe levels level ovn' with
    | none => trivial
    | some res' =>
      obtain ⟨resC, e, _⟩ := resolveNF_proj_some T C (hcl C hC) levels level (hlv C hC) fi fe ovn' res' h2
      rw [← hcl_eq C hC, hf] at e
      exact absurd e (by simp)
  | some res =>
    cases h2 : resolveNF T fi fe levels level ovn' with
    | none =>
      obtain ⟨C, hC, hf⟩ := resolveNF_fail_cluster T Cs hcl levels level hlv hcover' fi fe ovn' h2
      obtain ⟨resC, e, _⟩ := resolveNF_proj_some T C (hcl C hC) levels level (hlv C hC) fi fe ovn res h1
      rw [hcl_eq C hC, hf] at e
      exact absurd e (by simp)
    | some res' =>
      intro f
      by_cases hin : ∃ C ∈ Cs, f ∈ C
      · obtain ⟨C, hC, hfC⟩ := hin
        obtain ⟨resC, e, a⟩ := resolveNF_proj_some T C (hcl C hC) levels level (hlv C hC) fi fe ovn res h1
        obtain ⟨resC', e', a'⟩ := resolveNF_proj_some T C (hcl C hC) levels level (hlv C hC) fi fe ovn' res' h2
        rw [hcl_eq C hC, e'] at e
        simp only [Option.some.injEq] at e
        rw [(a f hfC).1, (a' f hfC).1, e]
      · have hno : ∀ C ∈ Cs, f ∉ C := fun C hC hfC => hin ⟨C, hC, hfC⟩
        have hu := (hcover f hno).2.2
        rw [resolveNF_get_unrelated T fi fe levels level ovn f hu res h1,
            resolveNF_get_unrelated T fi fe levels level ovn' f hu res' h2]
        exact applyOverrides_same ovn ovn' hs.2.2 _ f

/-! ### The generated table -/

/-- every option list over `ids` with distinct keys, keys in any order (`n` bounds the length) -/
def seqs : Nat → List Nat → List (List (Nat × Bool))
  | 0, _ => [[]]
  | n + 1, ids => [] :: ids.flatMap fun k => [true, false].flatMap fun v => (seqs n (ids.erase k)).map ((k, v) :: ·)

theorem nil_mem_seqs (n : Nat) (ids : List Nat) : [] ∈ seqs n ids := by
  cases n <;> simp [seqs]

theorem mem_seqs : ∀ (n : Nat) (ids : List Nat) (l : FlagMap), ids.length ≤ n → NodupKeys l →
    (∀ p ∈ l, p.1 ∈ ids) → l ∈ seqs n ids := by
  intro n
  induction n with
  | zero =>
    intro ids l hlen _ hk
    have : ids = [] := List.eq_nil_of_length_eq_zero (by omega)
    cases l with
    | nil => simp [seqs]
    | cons p rest => have := hk p (by simp); rw [‹ids = []›] at this; exact absurd this (by simp)
  | succ n ih =>
    intro ids l hlen hn hk
    cases l with
    | nil => exact nil_mem_seqs _ _
    | cons p rest =>
      have hp : p.1 ∈ ids := hk p (by simp)
      have hn' : NodupKeys rest := (List.nodup_cons.1 hn).2
      have hnp : p.1 ∉ rest.map (·.1) := (List.nodup_cons.1 hn).1
      have hrest : rest ∈ seqs n (ids.erase p.1) := by
        apply ih
        · rw [List.length_erase_of_mem hp]; omega
        · exact hn'
        · intro q hq
          have hq1 : q.1 ≠ p.1 := fun e => hnp (by rw [← e]; exact List.mem_map_of_mem hq)
          exact (List.mem_erase_of_ne hq1).2 (hk q (List.mem_cons_of_mem _ hq))
      simp only [seqs, List.mem_cons, List.mem_flatMap, List.mem_map]
      right
      refine ⟨p.1, hp, p.2, by cases p.2 <;> simp, rest, hrest, rfl⟩

/-- the settings of an option list, in the order of `C` -/
def canonOv (C : List Nat) (l : FlagMap) : FlagMap :=
  C.filterMap fun k => if FlagMap.has l k then some (k, FlagMap.get l k) else none

theorem canonOv_same (C : List Nat) (o o' : FlagMap) (h : SameSettings o o') : canonOv C o = canonOv C o' := by
  unfold canonOv
  congr 1
  funext k
  rw [has_eq_of_lastVal o o' k (h.2.2 k), get_eq_lastVal o h.1 k, get_eq_lastVal o' h.2.1 k, h.2.2 k]

def closedB (T : List FlagInfo) (C : List Nat) : Bool :=
  T.all fun g =>
    if C.contains g.id then g.implies.all C.contains && g.excl.all C.contains
    else g.implies.all (fun x => !C.contains x) && g.excl.all (fun x => !C.contains x)

theorem closed_of_closedB (T : List FlagInfo) (C : List Nat) (h : closedB T C = true) : Closed T C := by
  simp only [closedB, List.all_eq_true] at h
  constructor
  · intro g hg hgC
    have := h g hg
    rw [if_pos (by simpa using hgC)] at this
    simp only [Bool.and_eq_true, List.all_eq_true] at this
    exact ⟨fun x hx => by simpa using this.1 x hx, fun x hx => by simpa using this.2 x hx⟩
  · intro g hg hgC
    have := h g hg
    rw [if_neg (by simpa using hgC)] at this
    simp only [Bool.and_eq_true, List.all_eq_true] at this
    exact ⟨fun x hx => by simpa using this.1 x hx, fun x hx => by simpa using this.2 x hx⟩

def coverB (T : List FlagInfo) (Cs : List (List Nat)) : Bool :=
  T.all fun g =>
    (g.implies ++ g.excl).all (fun x => Cs.any (·.contains x)) &&
    ((g.implies.isEmpty && g.excl.isEmpty) || Cs.any (·.contains g.id))

theorem cover_of_coverB (T : List FlagInfo) (Cs : List (List Nat)) (h : coverB T Cs = true) :
    ∀ k, (∀ C ∈ Cs, k ∉ C) → (infoOf T k).excl = [] ∧ (infoOf T k).implies = [] ∧ Unrelated T k := by
  simp only [coverB, List.all_eq_true, Bool.and_eq_true, Bool.or_eq_true, List.any_eq_true] at h
  intro k hk
  have hnot : ¬ ∃ C, C ∈ Cs ∧ C.contains k = true := by
    rintro ⟨C, hC, hc⟩; exact hk C hC (by simpa using hc)
  have hlists : (infoOf T k).excl = [] ∧ (infoOf T k).implies = [] := by
    rcases infoOf_mem_or_empty T k with hm | ⟨h1, h2⟩
    · rcases (h _ hm).2 with he | hc
      · simp only [List.isEmpty_iff] at he; exact ⟨he.2, he.1⟩
      · rw [infoOf_id] at hc; exact absurd hc hnot
    · exact ⟨h2, h1⟩
  refine ⟨hlists.1, hlists.2, fun g hg => ?_⟩
  have := (h g hg).1
  constructor
  · intro hin; exact hnot (this k (List.mem_append_left _ hin))
  · intro hin; exact hnot (this k (List.mem_append_right _ hin))

/-- the recursion budgets of the whole generated table -/
def genFuel : Nat := Gen.flagTable.length + 1

theorem gen_structure :
    (∀ C ∈ Gen.relatedClusters, closedB Gen.flagTable C = true) ∧
    coverB Gen.flagTable Gen.relatedClusters = true ∧
    (∀ C ∈ Gen.relatedClusters, ∀ g ∈ Gen.optLevels.flatten, g ∉ C) := by
  decide

/-- **Per cluster, with the whole table's budgets, decided by the kernel**: every option list over
    the cluster's flags with distinct keys, in every order, resolves exactly like the same settings
    written in the cluster's own order. -/
def clusterOrderFreeB (C : List Nat) : Bool :=
  (seqs C.length C).all fun l =>
    resolveNF (restrictT Gen.flagTable C) genFuel genFuel [] 0 l
      == resolveNF (restrictT Gen.flagTable C) genFuel genFuel [] 0 (canonOv C l)

theorem clusterOrderFreeB_all : Gen.relatedClusters.all clusterOrderFreeB = true := by
  decide +kernel

theorem C19_cluster_order_free :
    ∀ C ∈ Gen.relatedClusters, ∀ l ∈ seqs C.length C,
      resolveNF (restrictT Gen.flagTable C) genFuel genFuel [] 0 l
        = resolveNF (restrictT Gen.flagTable C) genFuel genFuel [] 0 (canonOv C l) := by
  intro C hC l hl
  have h := List.all_eq_true.1 clusterOrderFreeB_all C hC
  have h2 := List.all_eq_true.1 h l hl
  exact eq_of_beq h2

theorem gen_cluster_same (C : List Nat) (hC : C ∈ Gen.relatedClusters) (o o' : FlagMap)
    (hs : SameSettings o o') (hk : ∀ p ∈ o, p.1 ∈ C) (hk' : ∀ p ∈ o', p.1 ∈ C) :
    resolveNF (restrictT Gen.flagTable C) genFuel genFuel [] 0 o
      = resolveNF (restrictT Gen.flagTable C) genFuel genFuel [] 0 o' := by
  rw [C19_cluster_order_free C hC o (mem_seqs _ _ _ (Nat.le_refl _) hs.1 hk),
      C19_cluster_order_free C hC o' (mem_seqs _ _ _ (Nat.le_refl _) hs.2.1 hk'),
      canonOv_same C o o' hs]

/-- **The order of different flags never matters — every command line.**  Two option sequences of
    any length that give every flag the same last value (in particular: any reordering that keeps
    the relative order of the settings of one and the same flag) resolve, at every level, to the same
    outcome on the generated table: both are the conflict error, or both succeed and every flag has
    the same value. -/
theorem C19_order_independent_all (level : Nat) (ov ov' : List (Nat × Bool))
    (h : ∀ f, lastVal ov f = lastVal ov' f) :
    ObsEq (resolve Gen.flagTable Gen.optLevels level ov) (resolve Gen.flagTable Gen.optLevels level ov') := by
  unfold resolve
  rw [resolveN_eq_resolveNF, resolveN_eq_resolveNF]
  obtain ⟨h1, h2, h3⟩ := gen_structure
  exact resolveNF_order_free Gen.flagTable Gen.relatedClusters
    (fun C hC => closed_of_closedB _ _ (h1 C hC)) Gen.optLevels level h3
    (cover_of_coverB _ _ h2) genFuel genFuel gen_cluster_same
    (normalize ov) (normalize ov')
    ⟨nodupKeys_normalize ov, nodupKeys_normalize ov', fun f => by rw [lastVal_normalize, lastVal_normalize, h f]⟩

theorem lastVal_eq_some_iff (m : FlagMap) (hn : NodupKeys m) (k : Nat) (v : Bool) :
    lastVal m k = some v ↔ (k, v) ∈ m := by
  induction m with
  | nil => simp [lastVal]
  | cons p rest ih =>
    have hn' : NodupKeys rest := (List.nodup_cons.1 hn).2
    have hnp : p.1 ∉ rest.map (·.1) := (List.nodup_cons.1 hn).1
    simp only [lastVal, List.mem_cons]
    by_cases hp : p.1 = k
    · have hnone : lastVal rest k = none := by
        apply lastVal_none_of_not_has
        cases hh : FlagMap.has rest k with
        | false => rfl
        | true => rw [← hp] at hh; exact absurd ((has_iff_mem rest p.1).1 hh) hnp
      have hnot : (k, v) ∉ rest := fun hin => hnp (by rw [hp]; exact List.mem_map_of_mem (f := (·.1)) hin)
      simp only [hnone, hp, if_true, Option.some.injEq]
      constructor
      · intro e; left; rw [← e, ← hp]
      · rintro (e | hin)
        · rw [Prod.ext_iff] at e; exact e.2.symm
        · exact absurd hin hnot
    · have hne : (k, v) ≠ p := fun e => hp (by rw [← e])
      cases hl : lastVal rest k with
      | some w =>
        simp only [Option.some.injEq]
        rw [← ih hn', hl]
        simp [hne]
      | none =>
        simp only [hp, if_false]
        rw [← ih hn', hl]
        simp [hne]

/-- In particular: any permutation of a command line that names each flag at most once. -/
theorem C19_order_independent_perm_all (level : Nat) (ov ov' : List (Nat × Bool))
    (hn : NodupKeys ov) (hp : ov.Perm ov') :
    ObsEq (resolve Gen.flagTable Gen.optLevels level ov) (resolve Gen.flagTable Gen.optLevels level ov') := by
  apply C19_order_independent_all
  have hn' : NodupKeys ov' := (List.Perm.map (fun q : Nat × Bool => q.1) hp).nodup_iff.1 hn
  intro f
  apply Option.ext
  intro v
  rw [lastVal_eq_some_iff ov hn, lastVal_eq_some_iff ov' hn']
  exact hp.mem_iff


/-! ### Consistency of the result, for every command line -/

theorem canonOv_mem_assigns (C : List Nat) (l : FlagMap) : canonOv C l ∈ assigns C := by
  unfold canonOv
  induction C with
  | nil => simp [assigns]
  | cons k ks ih =>
    simp only [List.filterMap_cons, assigns, List.mem_flatMap]
    refine ⟨_, ih, ?_⟩
    by_cases hh : FlagMap.has l k = true
    · simp only [hh, if_true]
      cases FlagMap.get l k <;> simp
    · simp [hh]

/-- what the kernel decides for one cluster and one list of settings in the cluster's order, with the
    whole table's budgets: when the cluster resolves, implied flags are on and exclusive flags are never
    both on, and it does not resolve when two exclusive flags are both requested -/
def clusterGoodB (C : List Nat) (l : FlagMap) : Bool :=
  match resolveNF (restrictT Gen.flagTable C) genFuel genFuel [] 0 l with
  | some res => impliedOn (restrictT Gen.flagTable C) res && neverBoth (restrictT Gen.flagTable C) res &&
      !explicitBoth (restrictT Gen.flagTable C) l
  | none => true

theorem clusterGoodB_all : Gen.relatedClusters.all (fun C => (assigns C).all (clusterGoodB C)) = true := by
  decide +kernel

/-- the cluster resolution of any settings equals the one of the same settings in cluster order -/
theorem gen_cluster_canon (C : List Nat) (hC : C ∈ Gen.relatedClusters) (o : FlagMap)
    (hn : NodupKeys o) (hk : ∀ p ∈ o, p.1 ∈ C) :
    resolveNF (restrictT Gen.flagTable C) genFuel genFuel [] 0 o
      = resolveNF (restrictT Gen.flagTable C) genFuel genFuel [] 0 (canonOv C o) :=
  C19_cluster_order_free C hC o (mem_seqs _ _ _ (Nat.le_refl _) hn hk)

theorem gen_cluster_good (C : List Nat) (hC : C ∈ Gen.relatedClusters) (o : FlagMap) :
    clusterGoodB C (canonOv C o) = true :=
  List.all_eq_true.1 (List.all_eq_true.1 clusterGoodB_all C hC) _ (canonOv_mem_assigns C o)

/-- a row with a non-empty list lies in a cluster, together with everything its lists name; and the
    whole-table result agrees on that cluster with a cluster result of which the kernel-decided facts hold -/
theorem gen_view (level : Nat) (ov : List (Nat × Bool)) (res : FlagMap)
    (h : resolveNF Gen.flagTable genFuel genFuel Gen.optLevels level (normalize ov) = some res)
    (g : FlagInfo) (hg : g ∈ Gen.flagTable) (hne : g.implies ≠ [] ∨ g.excl ≠ []) :
    ∃ C ∈ Gen.relatedClusters, g.id ∈ C ∧ (∀ x ∈ g.implies, x ∈ C) ∧ (∀ x ∈ g.excl, x ∈ C) ∧
      ∃ resC, impliedOn (restrictT Gen.flagTable C) resC = true ∧ neverBoth (restrictT Gen.flagTable C) resC = true ∧
        explicitBoth (restrictT Gen.flagTable C) (canonOv C (restrictOv C (normalize ov))) = false ∧
        AgreeOn C res resC := by
  obtain ⟨h1, h2, h3⟩ := gen_structure
  have hcov := cover_of_coverB _ _ h2
  have hin : ∃ C ∈ Gen.relatedClusters, g.id ∈ C := by
    apply Classical.byContradiction
    intro hno
    have hall : ∀ C ∈ Gen.relatedClusters, g.id ∉ C := fun C hC hin => hno ⟨C, hC, hin⟩
    rcases hne with hne | hne
    · cases hgi : g.implies with
      | nil => exact hne hgi
      | cons x xs =>
        simp only [coverB, List.all_eq_true, Bool.and_eq_true, List.any_eq_true] at h2
        obtain ⟨C, hC, hxc⟩ := (h2 g hg).1 x (by rw [hgi]; simp)
        have hcl := closed_of_closedB _ _ (h1 C hC)
        have hxC : x ∈ C := by simpa using hxc
        by_cases hgC : g.id ∈ C
        · exact hall C hC hgC
        · exact (hcl.outside g hg hgC).1 x (by rw [hgi]; simp) hxC
    · cases hge : g.excl with
      | nil => exact hne hge
      | cons x xs =>
        simp only [coverB, List.all_eq_true, Bool.and_eq_true, List.any_eq_true] at h2
        obtain ⟨C, hC, hxc⟩ := (h2 g hg).1 x (by rw [hge]; simp)
        have hcl := closed_of_closedB _ _ (h1 C hC)
        have hxC : x ∈ C := by simpa using hxc
        by_cases hgC : g.id ∈ C
        · exact hall C hC hgC
        · exact (hcl.outside g hg hgC).2 x (by rw [hge]; simp) hxC
  obtain ⟨C, hC, hgC⟩ := hin
  have hcl := closed_of_closedB _ _ (h1 C hC)
  obtain ⟨resC, e, a⟩ := resolveNF_proj_some Gen.flagTable C hcl Gen.optLevels level (h3 C hC) genFuel genFuel _ res h
  rw [gen_cluster_canon C hC _ (nodupKeys_restrictOv C _ (nodupKeys_normalize ov)) (keys_restrictOv C _)] at e
  have hgood := gen_cluster_good C hC (restrictOv C (normalize ov))
  simp only [clusterGoodB, e, Bool.and_eq_true, Bool.not_eq_true'] at hgood
  exact ⟨C, hC, hgC, (hcl.inside g hg hgC).1, (hcl.inside g hg hgC).2, resC, hgood.1.1, hgood.1.2, hgood.2, a⟩

/-- **Implied flags are on and exclusive flags are never both on — every command line.**  Whenever
    the generated table resolves a command line (any length, any order, any level), every flag that
    is on has everything it implies on, and no flag is on together with one it excludes. -/
theorem C19_consistent_all (level : Nat) (ov : List (Nat × Bool)) (res : FlagMap)
    (h : resolve Gen.flagTable Gen.optLevels level ov = some res) :
    (∀ g ∈ Gen.flagTable, res.get g.id = true → ∀ x ∈ g.implies, res.get x = true) ∧
    (∀ g ∈ Gen.flagTable, ∀ x ∈ g.excl, ¬ (res.get g.id = true ∧ res.get x = true)) := by
  unfold resolve at h
  rw [resolveN_eq_resolveNF] at h
  constructor
  · intro g hg hon x hx
    obtain ⟨C, hC, hgC, hi, _, resC, himp, _, _, a⟩ := gen_view level ov res h g hg (Or.inl (List.ne_nil_of_mem hx))
    have hgr : g ∈ restrictT Gen.flagTable C := by simp [restrictT, hg, hgC]
    simp only [impliedOn, List.all_eq_true, Bool.or_eq_true, Bool.not_eq_true'] at himp
    have := himp g hgr
    rw [(a x (hi x hx)).1]
    rcases this with hoff | hall
    · rw [← (a g.id hgC).1, hon] at hoff; exact absurd hoff (by simp)
    · exact hall x hx
  · intro g hg x hx hboth
    obtain ⟨C, hC, hgC, _, he, resC, _, hnb, _, a⟩ := gen_view level ov res h g hg (Or.inr (List.ne_nil_of_mem hx))
    have hgr : g ∈ restrictT Gen.flagTable C := by simp [restrictT, hg, hgC]
    simp only [neverBoth, List.all_eq_true, Bool.not_eq_true', Bool.and_eq_false_iff] at hnb
    have := hnb g hgr x hx
    rw [← (a g.id hgC).1, ← (a x (he x hx)).1] at this
    rcases this with h1' | h2'
    · rw [hboth.1] at h1'; exact absurd h1' (by simp)
    · rw [hboth.2] at h2'; exact absurd h2' (by simp)

theorem mem_canonOv (C : List Nat) (l : FlagMap) (k : Nat) (hk : k ∈ C) (hh : FlagMap.has l k = true) :
    (k, FlagMap.get l k) ∈ canonOv C l := by
  unfold canonOv
  simp only [List.mem_filterMap]
  exact ⟨k, hk, by simp [hh]⟩

/-- **Requesting two exclusive flags is an error — every command line**: when the last settings of a
    flag and of one it excludes are both "on", the command line does not resolve. -/
theorem C19_explicit_exclusive_is_error (level : Nat) (ov : List (Nat × Bool)) (g : FlagInfo)
    (hg : g ∈ Gen.flagTable) (x : Nat) (hx : x ∈ g.excl)
    (h1 : lastVal ov g.id = some true) (h2 : lastVal ov x = some true) :
    resolve Gen.flagTable Gen.optLevels level ov = none := by
  cases hres : resolve Gen.flagTable Gen.optLevels level ov with
  | none => rfl
  | some res =>
    exfalso
    unfold resolve at hres
    rw [resolveN_eq_resolveNF] at hres
    obtain ⟨C, hC, hgC, _, he, resC, _, _, hexp, _⟩ := gen_view level ov res hres g hg (Or.inr (List.ne_nil_of_mem hx))
    have hgr : g ∈ restrictT Gen.flagTable C := by simp [restrictT, hg, hgC]
    have hn := nodupKeys_restrictOv C _ (nodupKeys_normalize ov)
    have on_of : ∀ k, k ∈ C → lastVal ov k = some true →
        (k, true) ∈ canonOv C (restrictOv C (normalize ov)) := by
      intro k hk hl
      have hlv : lastVal (restrictOv C (normalize ov)) k = some true := by
        rw [lastVal_restrictOv, if_pos hk, lastVal_normalize, hl]
      have hhas : FlagMap.has (restrictOv C (normalize ov)) k = true :=
        (has_iff_lastVal _ k).2 (by rw [hlv]; rfl)
      have hget : FlagMap.get (restrictOv C (normalize ov)) k = true := by
        rw [get_eq_lastVal _ hn k, hlv]; rfl
      have := mem_canonOv C _ k hk hhas
      rwa [hget] at this
    have hboth : explicitBoth (restrictT Gen.flagTable C) (canonOv C (restrictOv C (normalize ov))) = true := by
      simp only [explicitBoth, List.any_eq_true, Bool.and_eq_true, List.contains_iff_mem]
      exact ⟨g, hgr, x, hx, on_of g.id hgC h1, on_of x (he x hx) h2⟩
    rw [hboth] at hexp
    exact absurd hexp (by simp)

end Nmfu
