/-
  C15 — literals denote exactly the bytes and values they spell.

  * The hand models of the conversion functions (`NmfuModel/Lit.lean`) agree with the graphs of the
    real functions, re-extracted on every run on their whole one-character domains
    (`Generated/Lits.lean`): `graph_*` below, decided by the kernel.
  * `convertString_spelled`: every byte string has a spelling (`\xHH` per byte) that the reader
    turns back into exactly those bytes; the one-character escapes are exactly
    `\n \r \t \b \0 \" \\` with their C values; a character that is not a backslash denotes
    itself, at every position.
  * `escape_roundtrip`: for **every** byte string, what a C compiler lexes from the emitted string
    constant is that byte string — same bytes, same length — whatever follows a non-printable
    byte (before the repair recorded in known_findings.json this was false: hexadecimal escapes
    absorb following hex digits, and bytes >= 0x80 were written as UTF-8).
  * Character and integer literals: `'\0'` is NUL, the other escapes as in C; decimal, `0x`, `0b`
    with sign.
  That a literal *match* accepts exactly its byte sequence (either case of ASCII letters for the
  case-insensitive form) and fails at the first differing byte is decided per literal by the
  regular-expression acceptance check (a literal is the regex of its singleton / case-pair
  classes), see C07; `caseFold_spec` pins the classes.
-/
import NmfuModel.Lit
import NmfuModel.Generated.Lits
namespace Nmfu

/-! ### Generated graphs = hand models -/

theorem graph_stringEscape :
    ∀ c, c < 256 → c ≠ 120 → c ≠ 117 → Gen.stringEscape.getD c none = simpleEscape? c := by
  decide +kernel

theorem graph_charConst :
    ∀ c, c < 256 → (Gen.charConstEscape.getD c none = convertCharConst [92, c] ∧
                    Gen.charConstRaw.getD c none = convertCharConst [c]) := by
  decide +kernel

theorem graph_caseFold : ∀ c, c < 256 → Gen.caseFoldTable.getD c [] = caseFoldSorted c := by
  decide +kernel

theorem graph_escape :
    ∀ b, b < 256 → (Gen.escapeBytes.getD b [] = escapeByte b ∧ Gen.escapeStr.getD b [] = escapeByte b) := by
  decide +kernel

/-! ### Reading string literals -/

def hexChar (v : Nat) : Nat := if v < 10 then 48 + v else 87 + v

def spellByte (b : Nat) : List Nat := [92, 120, hexChar (b / 16), hexChar (b % 16)]

theorem hexVal_hexChar : ∀ v, v < 16 → hexVal? (hexChar v) = some v := by decide

/-- Every byte string can be spelled, and the reader returns exactly those bytes. -/
theorem convertString_spelled (bs : List Nat) (h : ∀ b ∈ bs, b < 256) :
    convertString (bs.flatMap spellByte) = some bs := by
  induction bs with
  | nil => rfl
  | cons b rest ih =>
    have hb := h b (by simp)
    have ih' := ih (fun x hx => h x (List.mem_cons_of_mem _ hx))
    simp only [List.flatMap_cons, spellByte, List.cons_append, List.nil_append, convertString]
    rw [hexVal_hexChar _ (by omega), hexVal_hexChar _ (by omega), ih']
    simp; omega

/-- A character other than the backslash denotes itself (at any position). -/
theorem convertString_raw (c : Nat) (rest : List Nat) (hc : c ≠ 92) :
    convertString (c :: rest) = (convertString rest).map (c :: ·) := by
  cases hr : convertString rest with
  | none =>
    unfold convertString
    split <;> simp_all
  | some r =>
    unfold convertString
    split <;> simp_all

/-- The one-character escapes and their values: exactly `\n \r \t \b \0 \" \\`. -/
theorem simpleEscape_spec :
    simpleEscape? 110 = some 10 ∧ simpleEscape? 114 = some 13 ∧ simpleEscape? 116 = some 9 ∧
    simpleEscape? 98 = some 8 ∧ simpleEscape? 48 = some 0 ∧ simpleEscape? 34 = some 34 ∧
    simpleEscape? 92 = some 92 ∧
    (∀ c, c < 256 → c ∉ [110, 114, 116, 98, 48, 34, 92] → simpleEscape? c = none) := by
  decide +kernel

/-! ### Writing string constants -/

theorem lexOne_escapeByte (b : Nat) (hb : b < 256) (rest : List Nat) :
    lexOne (escapeByte b ++ rest) = some (b, rest) := by
  unfold escapeByte
  by_cases h1 : b = 92 ∨ b = 34 ∨ b = 63
  · rcases h1 with h1 | h1 | h1 <;> subst h1 <;> simp [lexOne, isOct, cSimpleEscape]
  · have hne92 : b ≠ 92 := fun e => h1 (Or.inl e)
    have hne34 : b ≠ 34 := fun e => h1 (Or.inr (Or.inl e))
    have hne63 : b ≠ 63 := fun e => h1 (Or.inr (Or.inr e))
    by_cases h2 : 32 ≤ b ∧ b < 127
    · have hne10 : b ≠ 10 := by omega
      simp [h1, h2, lexOne, hne92, hne34, hne63, hne10]
    · have e1 : isOct (48 + b / 64) = true := by simp [isOct]; omega
      have e2 : isOct (48 + b / 8 % 8) = true := by simp [isOct]; omega
      have e3 : isOct (48 + b % 8) = true := by simp [isOct]; omega
      have hx : ¬ (48 + b / 64 = 120) := by omega
      have hval : 64 * (48 + b / 64 - 48) + 8 * (48 + b / 8 % 8 - 48) + (48 + b % 8 - 48) = b := by omega
      simp [h1, h2, lexOne, hx, e1, e2, e3]
      omega

theorem cLexF_escapeByte (b : Nat) (hb : b < 256) (rest : List Nat) (fuel : Nat) :
    cLexF (fuel + 1) (escapeByte b ++ rest) = (cLexF fuel rest).map (b :: ·) := by
  have hne : (escapeByte b ++ rest).isEmpty = false := by
    unfold escapeByte; split <;> (try split) <;> simp
  simp only [cLexF, hne, Bool.false_eq_true, if_false, lexOne_escapeByte b hb rest]

/-- **What C lexes from an emitted string constant is the byte string itself**, for every byte
    string. -/
theorem escape_roundtrip (bs : List Nat) (h : ∀ b ∈ bs, b < 256) :
    ∀ fuel, bs.length < fuel → cLexF fuel (escapeString bs) = some bs := by
  induction bs with
  | nil => intro fuel hf; cases fuel with | zero => omega | succ f => rfl
  | cons b rest ih =>
    intro fuel hf
    cases fuel with
    | zero => omega
    | succ f =>
      simp only [escapeString, List.flatMap_cons]
      rw [cLexF_escapeByte b (h b (by simp)) _ f]
      have := ih (fun x hx => h x (List.mem_cons_of_mem _ hx)) f (by simp at hf; omega)
      simp only [escapeString] at this
      rw [this]; rfl

/-- The length the emitted `memcpy` copies (`len(value)`, plus one for the terminator) is the
    length of what C lexes. -/
theorem escape_length (bs : List Nat) (h : ∀ b ∈ bs, b < 256) :
    (cLexF (bs.length + 1) (escapeString bs)).map List.length = some bs.length := by
  rw [escape_roundtrip bs h _ (by omega)]; rfl

/-- Witness of the defect that was repaired: with hexadecimal escapes, `"\nab"` would have been
    emitted as `\x0aab`, which C reads as ONE (out of range) escape, not as three bytes. -/
example : cLex [92, 120, 48, 97, 97, 98] = none := by decide
example : cLex (escapeString [10, 97, 98]) = some [10, 97, 98] := by decide

/-! ### Character and integer literals, case folding -/

theorem charConst_spec :
    convertCharConst [92, 48] = some 0 ∧ convertCharConst [92, 110] = some 10 ∧
    convertCharConst [92, 114] = some 13 ∧ convertCharConst [92, 116] = some 9 ∧
    convertCharConst [92, 98] = some 8 ∧ convertCharConst [92, 39] = some 39 ∧
    convertCharConst [92, 92] = some 92 ∧ (∀ c, c < 256 → convertCharConst [c] = some c) := by
  decide +kernel

/-- Integer literals: the digits in their base, with the sign. -/
theorem convertInt_examples :
    convertInt ("255".toList.map Char.toNat) = some 255 ∧
    convertInt ("-17".toList.map Char.toNat) = some (-17) ∧
    convertInt ("+9".toList.map Char.toNat) = some 9 ∧
    convertInt ("0x1F".toList.map Char.toNat) = some 31 ∧
    convertInt ("-0x10".toList.map Char.toNat) = some (-16) ∧
    convertInt ("0b101".toList.map Char.toNat) = some 5 := by
  decide

theorem digitsVal_append (base : Nat) (ds : List Nat) (d acc : Nat) :
    digitsVal base (ds ++ [d]) acc =
      match digitsVal base ds acc, hexVal? d with
      | some v, some x => if x < base then some (base * v + x) else none
      | _, _ => none := by
  induction ds generalizing acc with
  | nil => simp only [List.nil_append, digitsVal]; cases hexVal? d <;> simp
  | cons c rest ih =>
    simp only [List.cons_append, digitsVal]
    cases hexVal? c with
    | none => simp
    | some v =>
      simp only
      split
      · exact ih _
      · simp

/-- A case-insensitive literal accepts, at each position, the letter in either case and nothing
    else; other bytes only themselves. -/
theorem caseFold_spec (c x : Nat) :
    x ∈ caseFold c ↔ (x = c ∨ (97 ≤ c ∧ c ≤ 122 ∧ x + 32 = c) ∨ (65 ≤ c ∧ c ≤ 90 ∧ x = c + 32)) := by
  unfold caseFold
  split
  · simp only [List.mem_cons, List.not_mem_nil, or_false]; omega
  · split
    · simp only [List.mem_cons, List.not_mem_nil, or_false]; omega
    · simp only [List.mem_cons, List.not_mem_nil, or_false]; omega

theorem caseFold_sorted_same (c x : Nat) : x ∈ caseFoldSorted c ↔ x ∈ caseFold c := by
  unfold caseFoldSorted caseFold
  split
  · simp only [List.mem_cons, List.not_mem_nil, or_false]; omega
  · split <;> simp

end Nmfu
