/-
  C02 — the parsing result is independent of how the input is chunked.

  `RtCtx.feedL` is `feed` as a fold over the bytes of one chunk (one call-level dispatch of the
  compiled machine per byte, on the typed store); `runAll` is a whole session on a contiguous
  input (re-invoking from the reported cursor after each yield code, stopping at a terminal code);
  `runChunks` is the same session when the input arrives as a list of chunks.  The theorem says
  that for every machine, every store, every list of chunks — any number, any sizes, down to one
  byte per call, empty chunks included — the session ends in the same state struct, with the same
  hook log (each entry carries the outputs visible at the call), the same yield / finish / DONE /
  FAIL codes at the same absolute offsets, and the same number of yields left.

  That the emitted C's `feed` (cursor, `inval` re-read after every advance, return OK at chunk
  end) is this fold is the content of `feedFrom_eq_feedL` below, under the decidable structural
  check `leavesOK` which the harness evaluates on every exported machine; that the compiled
  binary behaves as the model under chunkings is checked by harness/check_C02.py.
-/
import NmfuModel.Rt
import NmfuProps.RtBridge
namespace Nmfu

theorem feedL_append (c : RtCtx) :
    ∀ (c1 c2 : List Nat) (σ : CState) (pos : Nat),
      c.feedL σ (c1 ++ c2) pos =
        match c.feedL σ c1 pos with
        | .exhausted σ1 p1 => c.feedL σ1 c2 p1
        | r => r := by
  intro c1
  induction c1 with
  | nil => intro c2 σ pos; simp [RtCtx.feedL]
  | cons b rest ih =>
    intro c2 σ pos
    simp only [List.cons_append, RtCtx.feedL]
    split
    · exact ih c2 _ _
    · rfl
    · rfl

theorem feedL_exhausted_pos (c : RtCtx) :
    ∀ (inp : List Nat) (σ σ' : CState) (pos p : Nat),
      c.feedL σ inp pos = .exhausted σ' p → p = pos + inp.length := by
  intro inp
  induction inp with
  | nil =>
    intro σ σ' pos p h
    simp only [RtCtx.feedL, FeedRes.exhausted.injEq] at h
    simp [h.2]
  | cons b rest ih =>
    intro σ σ' pos p h
    simp only [RtCtx.feedL] at h
    split at h
    · have := ih _ _ _ _ h; simp; omega
    · exact absurd h (by simp)
    · exact absurd h (by simp)

theorem feedL_returned_pos (c : RtCtx) :
    ∀ (inp : List Nat) (σ σ' : CState) (pos p : Nat) (code : String),
      c.feedL σ inp pos = .returned σ' code p → pos ≤ p ∧ p ≤ pos + inp.length := by
  intro inp
  induction inp with
  | nil => intro σ σ' pos p code h; simp [RtCtx.feedL] at h
  | cons b rest ih =>
    intro σ σ' pos p code h
    simp only [RtCtx.feedL] at h
    split at h
    · have := ih _ _ _ _ _ h; simp; omega
    · simp only [FeedRes.returned.injEq] at h; simp; omega
    · simp only [FeedRes.returned.injEq] at h; simp; omega

theorem runAll_of_exhausted (c : RtCtx) (fuel : Nat) (σ σ' : CState) (inp : List Nat) (off p : Nat)
    (h : c.feedL σ inp off = .exhausted σ' p) : c.runAll fuel σ inp off = ⟨σ', false, fuel⟩ := by
  cases fuel <;> simp [RtCtx.runAll, h]

theorem runAll_zero_of_returned (c : RtCtx) (σ σ' : CState) (inp : List Nat) (off p : Nat)
    (code : String) (h : c.feedL σ inp off = .returned σ' code p) :
    c.runAll 0 σ inp off =
      (if isYield code then ⟨(σ'.note s!"{code}@{p}").note "yield-fuel", true, 0⟩
       else ⟨σ'.note s!"{code}@{p}", true, 0⟩) := by
  simp [RtCtx.runAll, h]

theorem runAll_succ_of_returned (c : RtCtx) (fuel : Nat) (σ σ' : CState) (inp : List Nat)
    (off p : Nat) (code : String) (h : c.feedL σ inp off = .returned σ' code p) :
    c.runAll (fuel + 1) σ inp off =
      (if isYield code then c.runAll fuel (σ'.note s!"{code}@{p}") (inp.drop (p - off)) p
       else ⟨σ'.note s!"{code}@{p}", true, fuel + 1⟩) := by
  simp [RtCtx.runAll, h]

/-- A session on `c1 ++ c2` is the session on `c1` followed, unless it stopped, by the session on
    `c2` from where the first one ended. -/
theorem runAll_append (c : RtCtx) :
    ∀ (fuel : Nat) (σ : CState) (c1 c2 : List Nat) (off : Nat),
      c.runAll fuel σ (c1 ++ c2) off =
        (if (c.runAll fuel σ c1 off).stopped then c.runAll fuel σ c1 off
         else c.runAll (c.runAll fuel σ c1 off).fuel (c.runAll fuel σ c1 off).σ c2 (off + c1.length)) := by
  intro fuel
  induction fuel with
  | zero =>
    intro σ c1 c2 off
    cases h1 : c.feedL σ c1 off with
    | exhausted σ1 p1 =>
      have hp := feedL_exhausted_pos c c1 σ σ1 off p1 h1
      subst hp
      have h12 : c.feedL σ (c1 ++ c2) off = c.feedL σ1 c2 (off + c1.length) := by
        rw [feedL_append, h1]
      rw [runAll_of_exhausted c 0 σ σ1 c1 off _ h1]
      simp only [Bool.false_eq_true, if_false]
      simp only [RtCtx.runAll, h12]
    | returned σ' code pos =>
      have h12 : c.feedL σ (c1 ++ c2) off = .returned σ' code pos := by
        rw [feedL_append, h1]
      rw [runAll_zero_of_returned c σ σ' c1 off pos code h1,
          runAll_zero_of_returned c σ σ' (c1 ++ c2) off pos code h12]
      split <;> simp
  | succ fuel ih =>
    intro σ c1 c2 off
    cases h1 : c.feedL σ c1 off with
    | exhausted σ1 p1 =>
      have hp := feedL_exhausted_pos c c1 σ σ1 off p1 h1
      subst hp
      have h12 : c.feedL σ (c1 ++ c2) off = c.feedL σ1 c2 (off + c1.length) := by
        rw [feedL_append, h1]
      rw [runAll_of_exhausted c (fuel + 1) σ σ1 c1 off _ h1]
      simp only [Bool.false_eq_true, if_false]
      cases h2 : c.feedL σ1 c2 (off + c1.length) with
      | exhausted σ2 p2 =>
        rw [runAll_of_exhausted c (fuel + 1) σ σ2 (c1 ++ c2) off p2 (h12.trans h2),
            runAll_of_exhausted c (fuel + 1) σ1 σ2 c2 _ p2 h2]
      | returned σ2 code pos =>
        have hp2 := feedL_returned_pos c c2 σ1 σ2 _ pos code h2
        rw [runAll_succ_of_returned c fuel σ σ2 (c1 ++ c2) off pos code (h12.trans h2),
            runAll_succ_of_returned c fuel σ1 σ2 c2 _ pos code h2]
        have hd : List.drop (pos - off) (c1 ++ c2) = List.drop (pos - (off + c1.length)) c2 := by
          have : pos - off = c1.length + (pos - (off + c1.length)) := by omega
          rw [this, List.drop_append]
          simp [List.drop_eq_nil_of_le]
        rw [hd]
    | returned σ' code pos =>
      have hp := feedL_returned_pos c c1 σ σ' off pos code h1
      have h12 : c.feedL σ (c1 ++ c2) off = .returned σ' code pos := by
        rw [feedL_append, h1]
      rw [runAll_succ_of_returned c fuel σ σ' c1 off pos code h1,
          runAll_succ_of_returned c fuel σ σ' (c1 ++ c2) off pos code h12]
      by_cases hy : isYield code = true
      · simp only [hy, if_true]
        have hk : pos - off ≤ c1.length := by omega
        rw [List.drop_append_of_le_length hk, ih]
        have hlen : pos + (c1.drop (pos - off)).length = off + c1.length := by
          simp [List.length_drop]; omega
        rw [hlen]
      · simp [hy]

/-- **Chunk independence.**  However the input is split into feed calls, the session is the one on
    the concatenated input. -/
theorem C02_chunk_independent (c : RtCtx) :
    ∀ (cs : List (List Nat)) (fuel : Nat) (σ : CState) (off : Nat),
      c.runChunks fuel σ cs off = c.runAll fuel σ cs.flatten off := by
  intro cs
  induction cs with
  | nil =>
    intro fuel σ off
    simp only [RtCtx.runChunks, List.flatten_nil]
    rw [runAll_of_exhausted c fuel σ σ [] off off (by simp [RtCtx.feedL])]
  | cons ch rest ih =>
    intro fuel σ off
    simp only [RtCtx.runChunks, List.flatten_cons]
    rw [runAll_append]
    split
    · rfl
    · exact ih _ _ _

end Nmfu

namespace Nmfu

/-! ### The cursor-level `feed` is the fold -/

def LeafOK : MLeaf → Prop
  | .next _ adv => adv = 1
  | .ret _ _ adv => adv ≤ 1
  | .yielded _ _ adv => adv ≤ 1

/-- Every dispatch the run meets ends in a well-formed leaf (implied by `Machine.leavesOK`, which
    the harness evaluates on each exported machine). -/
def RtCtx.StepsOK (c : RtCtx) : Prop :=
  ∀ (σ : CState) (b : Nat), b < nSym → LeafOK (c.runTree false (c.M.call c.semOpts σ.state b) σ).2

def FeedRes.toTriple : FeedRes → CState × String × Nat
  | .exhausted σ p => (σ, "OK", p)
  | .returned σ code p => (σ, code, p)

/-- `RtCtx.feedFrom` — the mirror of the emitted loop: explicit cursor, `inval` loaded at entry
    and after every advance, `return OK` when the cursor reaches the end of the chunk — computes
    the fold `feedL`, for every machine whose leaves are well formed. -/
theorem feedFrom_eq_feedL (c : RtCtx) (hok : c.StepsOK) :
    ∀ (rest : List Nat) (σ : CState) (pos fuel : Nat), rest ≠ [] → rest.length < fuel →
      (∀ b ∈ rest, b < nSym) →
      c.feedFrom fuel σ rest pos = (c.feedL σ rest pos).toTriple := by
  intro rest
  induction rest with
  | nil => intro σ pos fuel h; exact absurd rfl h
  | cons b rest' ih =>
    intro σ pos fuel _ hf hb
    cases fuel with
    | zero => simp at hf
    | succ fuel =>
      have hl := hok σ b (hb b (by simp))
      simp only [RtCtx.feedFrom, RtCtx.feedL]
      generalize hr : c.runTree false (c.M.call c.semOpts σ.state b) σ = r at hl
      obtain ⟨σ', l⟩ := r
      cases l with
      | next s adv =>
        simp only [LeafOK] at hl
        subst hl
        simp only [List.drop_succ_cons, List.drop_zero]
        cases rest' with
        | nil => simp [RtCtx.feedL, FeedRes.toTriple]
        | cons b' rest'' =>
          simp only [List.isEmpty_cons, Bool.false_eq_true, if_false]
          exact ih _ _ _ (by simp) (by simp at hf ⊢; omega) (fun y hy => hb y (List.mem_cons_of_mem _ hy))
      | ret code st adv =>
        simp only [LeafOK] at hl
        simp [FeedRes.toTriple, Nat.min_eq_left hl]
      | yielded code st adv =>
        simp only [LeafOK] at hl
        simp [FeedRes.toTriple, Nat.min_eq_left hl]

end Nmfu

namespace Nmfu

theorem leafOK_of_check (l : MLeaf)
    (h : (match l with
          | .next st adv => adv == 1 && decide (st ≥ 0)
          | .ret code _ adv => code != "OK" && decide (adv ≤ 1)
          | .yielded _ _ adv => decide (adv ≤ 1)) = true) : LeafOK l := by
  cases l with
  | next st adv => simp only [Bool.and_eq_true, beq_iff_eq] at h; simpa [LeafOK] using h.1
  | ret code st adv => simp only [Bool.and_eq_true, decide_eq_true_eq] at h; simpa [LeafOK] using h.2
  | yielded code st adv => simpa [LeafOK] using h

/-- The decidable per-machine check implies the hypothesis of `feedFrom_eq_feedL`. -/
theorem stepsOK_of_leavesOK (c : RtCtx) (h : c.M.leavesOK c.semOpts = true) : c.StepsOK := by
  intro σ b hb
  rw [runTree_eq_run_nil]
  simp only
  by_cases hs : σ.state < 0 ∨ σ.state.toNat ≥ c.M.states.size
  · -- the `default:` case of the switch
    have : c.M.call c.semOpts σ.state b = .leaf (.ret "FAIL" σ.state 0) := by
      simp only [Machine.call, Machine.stepFuel, Machine.dispatch]
      rcases hs with hs | hs <;> simp [hs]
    rw [this]
    simp [Tree.run, LeafOK]
  · have hs' : 0 ≤ σ.state ∧ σ.state.toNat < c.M.states.size := by omega
    have hmem := run_mem_paths (c.oracle false σ) (c.M.call c.semOpts σ.state b) []
    simp only [Machine.leavesOK, List.all_eq_true, List.mem_range] at h
    have hcall := h σ.state.toNat hs'.2 b hb
    have hst : ((σ.state.toNat : Nat) : Int) = σ.state := Int.toNat_of_nonneg hs'.1
    rw [hst] at hcall
    exact leafOK_of_check _ (hcall _ hmem)

end Nmfu
