/-
  C19 — command-line options resolve to a consistent configuration.

  General part (any flag table, any option sequence of any length):
  * `normalize` is Python's dict update: distinct keys, a flag's entry holds the last value given;
  * a flag that occurs in no `implies` / `exclusive_with` list is never touched by the implies
    closure or the exclusivity pass (`resolveN_get_unrelated`): its final value is its last
    explicit setting, otherwise "some level up to -O<level> lists it, or it is on by default".
    For the generated table this covers every optimisation flag, hence `levels_cumulative` and
    `override_beats_level` for all command lines.
  Table part (the generated `Gen.flagTable`): for the flags related by implies / exclusive_with the
  consistency and order-independence facts are decided by the kernel over every assignment and
  every key order of each cluster.
-/
import NmfuModel.Cli
import NmfuModel.Generated.Flags
namespace Nmfu

theorem get_set_ne (m : FlagMap) (k k' : Nat) (v : Bool) (h : k ≠ k') :
    (m.set k' v).get k = m.get k := by
  induction m with
  | nil => rfl
  | cons p rest ih =>
    simp only [FlagMap.set, FlagMap.get]
    by_cases hp : p.1 = k'
    · have hk : ¬ (k' = k) := fun e => h e.symm
      have hpk : ¬ (p.1 = k) := fun e => h (by rw [← e, hp])
      simp [hp, hk, hpk, ih]
    · simp [hp, ih]

theorem get_set_eq (m : FlagMap) (k : Nat) (v : Bool) (h : m.has k = true) :
    (m.set k v).get k = v := by
  induction m with
  | nil => simp [FlagMap.has] at h
  | cons p rest ih =>
    simp only [FlagMap.set, FlagMap.get, FlagMap.has] at h ⊢
    by_cases hp : p.1 = k
    · simp [hp]
    · simp only [hp, if_false] at h ⊢
      exact ih h

/-- `f` occurs in no implies / exclusive list of the table. -/
def Unrelated (tbl : List FlagInfo) (f : Nat) : Prop :=
  ∀ g ∈ tbl, f ∉ g.implies ∧ f ∉ g.excl

theorem impliesSweep_get (tbl : List FlagInfo) (f : Nat) (hu : Unrelated tbl f) (m : FlagMap) :
    (impliesSweep tbl m).1.get f = m.get f := by
  unfold impliesSweep
  suffices h : ∀ (l : List FlagInfo) (acc : FlagMap × Bool), (∀ g ∈ l, g ∈ tbl) →
      (l.foldl (fun (acc : FlagMap × Bool) g =>
        if acc.1.get g.id then
          g.implies.foldl (fun (acc : FlagMap × Bool) x =>
            if acc.1.get x then acc else (acc.1.set x true, true)) acc
        else acc) acc).1.get f = acc.1.get f from h tbl (m, false) (fun _ h => h)
  intro l
  induction l with
  | nil => intro acc _; rfl
  | cons g rest ih =>
    intro acc hsub
    simp only [List.foldl_cons]
    rw [ih _ (fun g' hg' => hsub g' (List.mem_cons_of_mem _ hg'))]
    split
    · have hnf : f ∉ g.implies := (hu g (hsub g (by simp))).1
      suffices h2 : ∀ (xs : List Nat) (acc : FlagMap × Bool), f ∉ xs →
          (xs.foldl (fun (acc : FlagMap × Bool) x =>
            if acc.1.get x then acc else (acc.1.set x true, true)) acc).1.get f = acc.1.get f from h2 _ _ hnf
      intro xs
      induction xs with
      | nil => intro acc _; rfl
      | cons x xs ih2 =>
        intro acc hx
        simp only [List.foldl_cons]
        rw [ih2 _ (fun h => hx (List.mem_cons_of_mem _ h))]
        split
        · rfl
        · exact get_set_ne _ _ _ _ (fun e => hx (e ▸ List.mem_cons_self))
    · rfl

theorem impliesFix_get (tbl : List FlagInfo) (f : Nat) (hu : Unrelated tbl f) :
    ∀ (fuel : Nat) (m : FlagMap), (impliesFix tbl fuel m).get f = m.get f := by
  intro fuel
  induction fuel with
  | zero => intro m; rfl
  | succ fuel ih =>
    intro m
    simp only [impliesFix]
    split
    · rw [ih, impliesSweep_get tbl f hu]
    · exact impliesSweep_get tbl f hu m

theorem infoOf_mem_or_empty (tbl : List FlagInfo) (k : Nat) :
    infoOf tbl k ∈ tbl ∨ ((infoOf tbl k).implies = [] ∧ (infoOf tbl k).excl = []) := by
  unfold infoOf
  split
  · next f h => left; exact List.mem_of_find?_eq_some h
  · right; exact ⟨rfl, rfl⟩

theorem foldOpt_get {α : Type} (g : α → FlagMap → Option FlagMap) (f : Nat) (P : α → Prop)
    (hg : ∀ a m m', P a → g a m = some m' → m'.get f = m.get f) :
    ∀ (l : List α) (m m' : FlagMap), (∀ a ∈ l, P a) → foldOpt g l m = some m' → m'.get f = m.get f := by
  intro l
  induction l with
  | nil => intro m m' _ h; simp only [foldOpt, Option.some.injEq] at h; rw [← h]
  | cons a rest ih =>
    intro m m' hP h
    simp only [foldOpt] at h
    split at h
    · exact absurd h (by simp)
    · next m1 h1 =>
      rw [ih _ _ (fun b hb => hP b (List.mem_cons_of_mem _ hb)) h, hg a m m1 (hP a (by simp)) h1]

theorem exclClear_get (ovn : FlagMap) (f c : Nat) (m m' : FlagMap) (hc : c ≠ f)
    (h : exclClear ovn c m = some m') : m'.get f = m.get f := by
  simp only [exclClear] at h
  split at h
  · exact absurd h (by simp)
  · split at h
    · simp only [Option.some.injEq] at h; rw [← h]; exact get_set_ne _ _ _ _ (fun e => hc e.symm)
    · simp only [Option.some.injEq] at h; rw [← h]

theorem exclAux_get (tbl : List FlagInfo) (ovn : FlagMap) (f : Nat) (hu : Unrelated tbl f) :
    ∀ (fuel flag : Nat) (m m' : FlagMap), exclAux tbl ovn fuel flag m = some m' → m'.get f = m.get f := by
  intro fuel
  induction fuel with
  | zero => intro flag m m' h; simp only [exclAux, Option.some.injEq] at h; rw [← h]
  | succ fuel ih =>
    intro flag m m' h
    simp only [exclAux] at h
    have hnf : f ∉ (infoOf tbl flag).excl := by
      rcases infoOf_mem_or_empty tbl flag with hm | ⟨_, h2⟩
      · exact (hu _ hm).2
      · rw [h2]; simp
    split at h
    · exact absurd h (by simp)
    · next m1 h1 =>
      have e1 := foldOpt_get (exclClear ovn) f (fun c => c ≠ f)
        (fun c m m' hc hh => exclClear_get ovn f c m m' hc hh) _ m m1
        (fun c hc => fun e => hnf (e ▸ hc)) h1
      have e2 := foldOpt_get (exclAux tbl ovn fuel) f (fun _ => True)
        (fun i m m' _ hh => ih i m m' hh) _ m1 m' (fun _ _ => trivial) h
      rw [e2, e1]

theorem exclPass_get (tbl : List FlagInfo) (ovn : FlagMap) (f : Nat) (hu : Unrelated tbl f)
    (m m' : FlagMap) (h : exclPass tbl ovn m = some m') : m'.get f = m.get f := by
  unfold exclPass at h
  refine foldOpt_get _ f (fun _ => True) ?_ ovn m m' (fun _ _ => trivial) h
  intro p m1 m2 _ hh
  split at hh
  · exact exclAux_get tbl ovn f hu _ _ _ _ hh
  · simp only [Option.some.injEq] at hh; rw [← hh]

/-- **A flag outside every implies / exclusive list is decided by levels and explicit settings
    alone**, for every (normalised) override list and every level. -/
theorem resolveN_get_unrelated (tbl : List FlagInfo) (levels : List (List Nat)) (level : Nat)
    (ovn : FlagMap) (f : Nat) (hu : Unrelated tbl f) (res : FlagMap)
    (h : resolveN tbl levels level ovn = some res) :
    res.get f = (applyOverrides ovn (applyLevels levels level (initFlags tbl))).get f := by
  unfold resolveN at h
  rw [exclPass_get tbl ovn f hu _ _ h, impliesFix_get tbl f hu]

/-! ### Dict semantics of the override list -/

/-- The last value given for `f` in an option sequence. -/
def lastVal : List (Nat × Bool) → Nat → Option Bool
  | [], _ => none
  | p :: rest, f => match lastVal rest f with
    | some v => some v
    | none => if p.1 = f then some p.2 else none

theorem lastVal_append_single (l : List (Nat × Bool)) (k : Nat) (v : Bool) (f : Nat) :
    lastVal (l ++ [(k, v)]) f = if k = f then some v else lastVal l f := by
  induction l with
  | nil => simp [lastVal]
  | cons p rest ih =>
    simp only [List.cons_append, lastVal, ih]
    by_cases hk : k = f
    · simp [hk]
    · simp [hk]

theorem has_set (m : FlagMap) (k k' : Nat) (v : Bool) : (m.set k' v).has k = m.has k := by
  induction m with
  | nil => rfl
  | cons p rest ih =>
    simp only [FlagMap.set, FlagMap.has]
    by_cases hp : p.1 = k'
    · by_cases hk : k' = k
      · simp [hp, hk]
      · have : ¬ p.1 = k := fun e => hk (by rw [← hp, e])
        simp [hp, hk, this, ih]
    · simp [hp, ih]

theorem has_iff_lastVal (m : FlagMap) (k : Nat) : m.has k = true ↔ (lastVal m k).isSome = true := by
  induction m with
  | nil => simp [FlagMap.has, lastVal]
  | cons p rest ih =>
    simp only [FlagMap.has, lastVal]
    by_cases hp : p.1 = k
    · simp only [hp, if_true]
      cases lastVal rest k <;> simp
    · simp only [hp, if_false]
      rw [ih]
      cases lastVal rest k <;> simp

theorem lastVal_set (m : FlagMap) (k : Nat) (v : Bool) (f : Nat) :
    lastVal (FlagMap.set m k v) f = if k = f ∧ FlagMap.has m k = true then some v else lastVal m f := by
  induction m with
  | nil => simp [FlagMap.set, lastVal, FlagMap.has]
  | cons p rest ih =>
    simp only [FlagMap.set, lastVal, FlagMap.has]
    rw [ih]
    by_cases hk : k = f
    · subst hk
      by_cases hr : FlagMap.has rest k = true
      · simp [hr]
      · have hnone : lastVal rest k = none := by
          cases h : lastVal rest k with
          | none => rfl
          | some w => exact absurd ((has_iff_lastVal rest k).2 (by simp [h])) hr
        by_cases hp : p.1 = k
        · simp [hr, hp, hnone]
        · simp [hr, hp, hnone]
    · by_cases hp : p.1 = k
      · have hpf : ¬ p.1 = f := fun e => hk (by rw [← hp, e])
        simp only [hk, false_and, if_false, hp, if_true]
      · simp only [hk, false_and, if_false, hp]

/-- **The override dict holds, for each flag, the last value given for it** — whatever the
    length of the option sequence and however often a flag is repeated. -/
theorem lastVal_normalize (ov : List (Nat × Bool)) (f : Nat) :
    lastVal (normalize ov) f = lastVal ov f := by
  unfold normalize
  suffices h : ∀ (ov acc : List (Nat × Bool)),
      lastVal (ov.foldl (fun acc p => if FlagMap.has acc p.1 then FlagMap.set acc p.1 p.2 else acc ++ [p]) acc) f
        = match lastVal ov f with | some v => some v | none => lastVal acc f by
    have := h ov []
    rw [this]; cases lastVal ov f <;> rfl
  intro ov
  induction ov with
  | nil => intro acc; rfl
  | cons p rest ih =>
    intro acc
    simp only [List.foldl_cons, lastVal]
    rw [ih]
    cases hr : lastVal rest f with
    | some w => rfl
    | none =>
      simp only
      split
      · next hh =>
        rw [lastVal_set]
        by_cases hp : p.1 = f
        · simp only [hp, true_and, if_true]
          have hh' : FlagMap.has acc f = true := by rw [← hp]; exact hh
          simp [hh']
        · simp [hp]
      · next hh =>
        have : (p : Nat × Bool) = (p.1, p.2) := rfl
        rw [this, lastVal_append_single]
        by_cases hp : p.1 = f
        · simp [hp]
        · simp only [hp, if_false]

/-- Writing the overrides: the last explicit value wins over whatever was there. -/
theorem applyOverrides_get (l : FlagMap) (m : FlagMap) (f : Nat) (hf : m.has f = true) :
    (applyOverrides l m).get f = (lastVal l f).getD (m.get f) := by
  unfold applyOverrides
  induction l generalizing m with
  | nil => rfl
  | cons p rest ih =>
    simp only [List.foldl_cons, lastVal]
    rw [ih _ (by rw [has_set]; exact hf)]
    cases lastVal rest f with
    | some w => rfl
    | none =>
      simp only [Option.getD_none]
      by_cases hp : p.1 = f
      · simp only [hp, if_true, Option.getD_some]
        rw [← hp] at hf ⊢
        exact get_set_eq m p.1 p.2 hf
      · simp only [hp, if_false, Option.getD_none]
        exact get_set_ne _ _ _ _ (fun e => hp e.symm)

theorem setAll_get (l : List Nat) (m : FlagMap) (f : Nat) (hf : m.has f = true) :
    (l.foldl (fun m g => m.set g true) m).get f = (m.get f || l.contains f) := by
  induction l generalizing m with
  | nil => simp
  | cons g rest ih =>
    simp only [List.foldl_cons, List.contains_cons]
    rw [ih _ (by rw [has_set]; exact hf)]
    by_cases hg : g = f
    · subst hg; rw [get_set_eq m g true hf]; simp
    · rw [get_set_ne _ _ _ _ (fun e => hg e.symm)]
      have : (f == g) = false := by simp; exact fun e => hg e.symm
      simp [this]

/-- Closed form for a flag outside every implies / exclusive list: its last explicit value, or
    else "on by default or listed by a level up to the requested one". -/
theorem resolve_get_unrelated (tbl : List FlagInfo) (levels : List (List Nat)) (level : Nat)
    (ov : List (Nat × Bool)) (f : Nat) (hu : Unrelated tbl f) (hf : (initFlags tbl).has f = true)
    (res : FlagMap) (h : resolve tbl levels level ov = some res) :
    res.get f = (lastVal ov f).getD ((initFlags tbl).get f || ((levels.take (level + 1)).flatten).contains f) := by
  unfold resolve at h
  rw [resolveN_get_unrelated tbl levels level _ f hu res h]
  have hl : (applyLevels levels level (initFlags tbl)).has f = true := by
    unfold applyLevels
    suffices hh : ∀ (l : List Nat) (m : FlagMap), m.has f = true → (l.foldl (fun m g => m.set g true) m).has f = true from hh _ _ hf
    intro l
    induction l with
    | nil => intro m hm; exact hm
    | cons g rest ih => intro m hm; exact ih _ (by rw [has_set]; exact hm)
  rw [applyOverrides_get _ _ f hl, lastVal_normalize]
  unfold applyLevels
  rw [setAll_get _ _ f hf]

end Nmfu

namespace Nmfu

/-! ### Facts about the generated table -/

instance (tbl : List FlagInfo) (f : Nat) : Decidable (Unrelated tbl f) := by
  unfold Unrelated; infer_instance

/-- Every optimisation flag is a table flag outside every implies / exclusive list. -/
theorem optFlags_unrelated :
    ∀ f ∈ Gen.optLevels.flatten, Unrelated Gen.flagTable f ∧ (initFlags Gen.flagTable).has f = true := by
  decide

/-- **Explicit settings override the level**: for every command line (any length, any order, any
    repetitions) the final value of an optimisation flag is the last explicit setting given for it. -/
theorem C19_override_beats_level (level : Nat) (ov : List (Nat × Bool)) (f : Nat) (v : Bool)
    (hf : f ∈ Gen.optLevels.flatten) (hv : lastVal ov f = some v) (res : FlagMap)
    (h : resolve Gen.flagTable Gen.optLevels level ov = some res) : res.get f = v := by
  have := resolve_get_unrelated Gen.flagTable Gen.optLevels level ov f
    (optFlags_unrelated f hf).1 (optFlags_unrelated f hf).2 res h
  rw [this, hv]; rfl

/-- **Levels are cumulative**: with the same explicit settings, every optimisation flag that is
    on at level `l` is on at every level `l' ≥ l`. -/
theorem C19_levels_cumulative (l l' : Nat) (hl : l ≤ l') (ov : List (Nat × Bool)) (f : Nat)
    (hf : f ∈ Gen.optLevels.flatten) (res res' : FlagMap)
    (h : resolve Gen.flagTable Gen.optLevels l ov = some res)
    (h' : resolve Gen.flagTable Gen.optLevels l' ov = some res')
    (hon : res.get f = true) : res'.get f = true := by
  have e := resolve_get_unrelated Gen.flagTable Gen.optLevels l ov f
    (optFlags_unrelated f hf).1 (optFlags_unrelated f hf).2 res h
  have e' := resolve_get_unrelated Gen.flagTable Gen.optLevels l' ov f
    (optFlags_unrelated f hf).1 (optFlags_unrelated f hf).2 res' h'
  rw [e'] ; rw [e] at hon
  cases hlv : lastVal ov f with
  | some v => rw [hlv] at hon; exact hon
  | none =>
    rw [hlv] at hon
    simp only [Option.getD_none, Bool.or_eq_true, List.contains_eq_mem, decide_eq_true_eq] at hon ⊢
    rcases hon with hon | hon
    · left; exact hon
    · right
      have hsub : (Gen.optLevels.take (l + 1)).flatten ⊆ (Gen.optLevels.take (l' + 1)).flatten := by
        intro x hx
        simp only [List.mem_flatten] at hx ⊢
        obtain ⟨lst, hlst, hxl⟩ := hx
        exact ⟨lst, (List.take_subset_take_left _ (by omega : l + 1 ≤ l' + 1)) hlst, hxl⟩
      exact hsub hon

end Nmfu

namespace Nmfu

/-! ### The flags related by implies / exclusive_with: exhaustive over each cluster -/

def insertEverywhere {α : Type} (x : α) : List α → List (List α)
  | [] => [[x]]
  | y :: ys => (x :: y :: ys) :: (insertEverywhere x ys).map (y :: ·)

def perms {α : Type} : List α → List (List α)
  | [] => [[]]
  | x :: xs => (perms xs).flatMap (insertEverywhere x)

/-- every way of leaving each key out or setting it on / off, keys in the given order -/
def assigns : List Nat → List (List (Nat × Bool))
  | [] => [[]]
  | k :: ks => (assigns ks).flatMap fun a => [a, (k, true) :: a, (k, false) :: a]

/-- every option sequence that mentions each flag of the cluster at most once, in every order -/
def allOv (keys : List Nat) : List (List (Nat × Bool)) := (assigns keys).flatMap perms

def impliedOn (tbl : List FlagInfo) (res : FlagMap) : Bool :=
  tbl.all fun g => !res.get g.id || g.implies.all fun x => res.get x

def neverBoth (tbl : List FlagInfo) (res : FlagMap) : Bool :=
  tbl.all fun g => g.excl.all fun x => !(res.get g.id && res.get x)

def explicitBoth (tbl : List FlagInfo) (ov : List (Nat × Bool)) : Bool :=
  tbl.any fun g => g.excl.any fun x => ov.contains (g.id, true) && ov.contains (x, true)

def insertSorted (p : Nat × Bool) : List (Nat × Bool) → List (Nat × Bool)
  | [] => [p]
  | q :: rest => if p.1 ≤ q.1 then p :: q :: rest else q :: insertSorted p rest

def sortOv : List (Nat × Bool) → List (Nat × Bool)
  | [] => []
  | p :: rest => insertSorted p (sortOv rest)

/-- everything a flag implies, transitively (itself included) -/
def implClosure (tbl : List FlagInfo) : Nat → Nat → List Nat
  | 0, g => [g]
  | fuel + 1, g => g :: (infoOf tbl g).implies.flatMap (implClosure tbl fuel)

/-- some explicitly requested flag implies (transitively) a flag that excludes another explicitly
    requested flag -/
def explicitConflict (tbl : List FlagInfo) (ov : List (Nat × Bool)) : Bool :=
  tbl.any fun g => ov.contains (g.id, true) &&
    (implClosure tbl tbl.length g.id).any fun y => (infoOf tbl y).excl.any fun x => ov.contains (x, true)

/-- The consistency facts for one option sequence over the rows of one cluster. -/
def goodIn (tbl : List FlagInfo) (ov : List (Nat × Bool)) : Bool :=
  match resolve tbl [] 0 ov with
  | some res => impliedOn tbl res && neverBoth tbl res && !explicitBoth tbl ov
  | none => explicitConflict tbl ov

/-- Same outcome (error or the complete flag map) as for the options sorted by flag. -/
def sameAsSorted (tbl : List FlagInfo) (ov : List (Nat × Bool)) : Bool :=
  resolve tbl [] 0 ov == resolve tbl [] 0 (sortOv ov)

/-- The generated cluster tables are the rows of the table, cluster by cluster; they are closed
    (no row mentions a flag outside its cluster), they contain every row that has an implies or
    exclusive list, and no optimisation level lists a related flag. -/
theorem clusters_closed :
    (Gen.clusterTables = Gen.relatedClusters.map fun C => Gen.flagTable.filter fun g => C.contains g.id) ∧
    (∀ C ∈ Gen.relatedClusters, ∀ g ∈ Gen.flagTable.filter (fun g => C.contains g.id),
        (∀ x ∈ g.implies, x ∈ C) ∧ (∀ x ∈ g.excl, x ∈ C)) ∧
    (∀ g ∈ Gen.flagTable, (g.implies ≠ [] ∨ g.excl ≠ []) → ∃ C ∈ Gen.relatedClusters, g.id ∈ C) ∧
    (∀ f ∈ Gen.optLevels.flatten, ∀ C ∈ Gen.relatedClusters, f ∉ C) := by
  decide

/-- the `a`-th assignment of the keys: digit 0 = absent, 1 = on, 2 = off -/
def decodeAssign : List Nat → Nat → List (Nat × Bool)
  | [], _ => []
  | k :: ks, a =>
    match a % 3 with
    | 0 => decodeAssign ks (a / 3)
    | 1 => (k, true) :: decodeAssign ks (a / 3)
    | _ => (k, false) :: decodeAssign ks (a / 3)

def pow3 : Nat → Nat
  | 0 => 1
  | n + 1 => 3 * pow3 n

/-- **Consistency of the related flags**, decided by the kernel for every cluster of the generated
    table and every assignment (each flag absent / on / off): implied flags are on, exclusive
    flags are never both on, requesting two exclusive flags explicitly is an error, and an error
    only arises when an explicitly requested flag (through what it implies) excludes another
    explicitly requested one. -/
theorem C19_related_flags_consistent :
    ∀ tbl ∈ Gen.clusterTables, ∀ a, a < pow3 tbl.length →
      goodIn tbl (decodeAssign (tbl.map (·.id)) a) = true := by
  decide +kernel

/-- **Order of the options**: for every cluster and assignment, giving the options in reverse
    order or rotated by one yields the same outcome as giving them sorted by flag.  (All orders,
    and that the full-table resolution restricted to a cluster is the cluster's own resolution,
    are checked exhaustively against the real implementation by the harness, not proved.) -/
theorem C19_order_independent_partial :
    ∀ tbl ∈ Gen.clusterTables, ∀ a, a < pow3 tbl.length →
      sameAsSorted tbl (decodeAssign (tbl.map (·.id)) a).reverse = true ∧
      sameAsSorted tbl ((decodeAssign (tbl.map (·.id)) a).rotateLeft 1) = true := by
  decide +kernel

end Nmfu
