/-
  C20 — compilation is a pure function of source and options.

  Two compilations of the same source under the same options, whatever happened earlier in the
  process and whatever the hash seed or heap layout, must give observationally equivalent parsers.
  The machines of the two compilations are compared by the equivalence certificate; the theorem
  below is its soundness instantiated at two compiled machines: if the certificate holds, the two
  parsers perform the same events on every input under every outcome of every data test, one at
  most a step ahead.  State numbering, transition order and on-value order (what hash order may
  change) do not enter the statement.
-/
import NmfuProps.C05
namespace Nmfu

theorem C20_same_behaviour (A B : Machine) (o : SemOpts) (V : List (PS Nat Nat AEv Quest))
    (h : certOK (A.sm o) (B.sm o) nSym V = true) (ω : Oracle AEv Quest) (w : List Nat)
    (hw : ∀ x ∈ w, x < nSym) :
    Comparable ((A.sm o).events ω w) ((B.sm o).events ω w) ∧
    ((A.sm o).finalCfg ω w = none → (B.sm o).finalCfg ω w = none →
      (A.sm o).events ω w = (B.sm o).events ω w) ∧
    (∀ x, x < nSym → (A.sm o).events ω w <+: (B.sm o).events ω (w ++ [x]) ∧
                     (B.sm o).events ω w <+: (A.sm o).events ω (w ++ [x])) :=
  ⟨(C05_optimised_equivalent A B o V h ω w hw).1, (C05_optimised_equivalent A B o V h ω w hw).2,
   fun x hx => C05_lag_at_most_one_step A B o V h ω w x hw hx⟩

end Nmfu
