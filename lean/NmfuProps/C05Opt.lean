/-
  C05, the part that is a theorem about the optimiser itself (for *every* machine, not per compiled
  instance): the pass `_optimize_simplify_transition_matches`, mirrored by `Machine.simplifyElse`
  (NmfuModel/Opt.lean; the mirror is compared with the real pass on every invocation the harness
  observes), does not change the emitted code's behaviour at all — the dispatch tree of every state on
  every byte and on end-of-input is *the same tree*, hence the same events, questions, result codes,
  cursor advances and successor states under every store.

  Hypothesis: the table is deterministic (`Machine.deterministic`: no symbol is listed by two
  transitions of one state) — decidable, evaluated on every exported machine.  It is needed: with
  `End` listed by two transitions the pass *does* change which one `end()` takes
  (`simplifyElse_needs_determinism` below is that machine).
-/
import NmfuModel.Opt
namespace Nmfu

/-! ### the arm-level facts -/

theorem Arm.simplifyElse_isElse (a : Arm) : a.simplifyElse.isElse = a.isElse := by
  unfold Arm.simplifyElse
  split
  · rename_i h
    simp only [Bool.and_eq_true] at h
    rw [h.2]
    simp [Arm.isElse]
  · rfl

theorem Arm.simplifyElse_of_not_else (a : Arm) (h : a.isElse = false) : a.simplifyElse = a := by
  simp [Arm.simplifyElse, h]

@[simp] theorem Arm.simplifyElse_target (a : Arm) : a.simplifyElse.target = a.target := by
  unfold Arm.simplifyElse; split <;> rfl
@[simp] theorem Arm.simplifyElse_fall (a : Arm) : a.simplifyElse.fall = a.fall := by
  unfold Arm.simplifyElse; split <;> rfl
@[simp] theorem Arm.simplifyElse_err (a : Arm) : a.simplifyElse.err = a.err := by
  unfold Arm.simplifyElse; split <;> rfl
@[simp] theorem Arm.simplifyElse_acts (a : Arm) : a.simplifyElse.acts = a.acts := by
  unfold Arm.simplifyElse; split <;> rfl
@[simp] theorem Arm.simplifyElse_cond (a : Arm) : a.simplifyElse.cond = a.cond := by
  unfold Arm.simplifyElse; split <;> rfl

/-- what a simplified else-transition still lists, besides `Else`: only what it listed before -/
theorem Arm.simplifyElse_contains (a : Arm) (x : Nat) (h : a.simplifyElse.on.contains x = true) :
    a.on.contains x = true := by
  unfold Arm.simplifyElse at h
  split at h
  · rename_i hc
    simp only [Bool.and_eq_true] at hc
    simp at h
    subst h
    exact hc.2
  · exact h

/-- a byte or `End` (anything but `Else` itself) that an else-transition lists explicitly is dropped
    from a transition the pass rewrites -/
theorem Arm.simplifyElse_contains_iff (a : Arm) (x : Nat) (hx : x ≠ onElse) :
    a.simplifyElse.on.contains x = true → (a.simplifyElse = a ∧ a.on.contains x = true) := by
  intro h
  unfold Arm.simplifyElse at h ⊢
  split at h
  · simp at h; exact absurd h hx
  · rename_i hc; simp [hc]; simpa using h

/-! ### the transition table of one state -/

theorem armsDisjoint_tail {a : Arm} {r : List Arm} (h : armsDisjoint (a :: r) = true) :
    armsDisjoint r = true := by
  simp only [armsDisjoint, Bool.and_eq_true] at h; exact h.2

/-- a symbol listed by the first transition is listed by no later one -/
theorem armsDisjoint_head {a : Arm} {r : List Arm} (h : armsDisjoint (a :: r) = true) (v : Nat)
    (hv : a.on.contains v = true) : ∀ b ∈ r, b.on.contains v = false := by
  simp only [armsDisjoint, Bool.and_eq_true, List.all_eq_true] at h
  intro b hb
  have h1 := h.1 b hb v (by simpa using hv)
  simpa using h1

theorem map_simplify_of_noElse (r : List Arm) (h : ∀ b ∈ r, b.isElse = false) :
    r.map Arm.simplifyElse = r := by
  induction r with
  | nil => rfl
  | cons b r ih =>
    simp only [List.map_cons]
    rw [Arm.simplifyElse_of_not_else b (h b (by simp)), ih (fun c hc => h c (by simp [hc]))]

/-- the only else-transition of a deterministic state is the one `state[Else]` finds -/
theorem find_else_unique (arms : List Arm) (hd : armsDisjoint arms = true) (a : Arm) (ha : a ∈ arms)
    (he : a.isElse = true) : arms.find? Arm.isElse = some a := by
  induction arms with
  | nil => cases ha
  | cons b r ih =>
    by_cases hb : b.isElse = true
    · simp only [List.find?_cons, hb]
      rcases List.mem_cons.mp ha with rfl | har
      · rfl
      · have := armsDisjoint_head hd onElse hb a har
        simp [Arm.isElse] at he this
        exact absurd he this
    · have hb' : b.isElse = false := by simpa using hb
      simp only [List.find?_cons, hb']
      rcases List.mem_cons.mp ha with rfl | har
      · exact absurd he hb
      · exact ih (armsDisjoint_tail hd) har

theorem elseArm_simplify (s : St) : s.simplifyElse.elseArm = s.elseArm.map Arm.simplifyElse := by
  simp only [St.elseArm, St.simplifyElse, List.find?_map]
  have : ((fun a : Arm => a.on.contains onElse) ∘ Arm.simplifyElse) = (fun a : Arm => a.on.contains onElse) := by
    funext a; exact Arm.simplifyElse_isElse a
  rw [this]

theorem go_true_noElse (x : Nat) (r : List Arm) (h : ∀ b ∈ r, b.isElse = false) :
    (St.feedArm.go x (fun a => a.on.contains onElse) r true).map Arm.simplifyElse =
      St.feedArm.go x (fun a => a.on.contains onElse) r true := by
  induction r with
  | nil => simp [St.feedArm.go]
  | cons b r ih =>
    have hb := h b (by simp)
    simp only [St.feedArm.go, Bool.not_true, Bool.and_false, Bool.false_eq_true, if_false]
    split
    · simp [Arm.simplifyElse_of_not_else b hb]
    · exact ih (fun c hc => h c (by simp [hc]))

theorem go_simplify (x : Nat) (arms : List Arm) (hd : armsDisjoint arms = true) :
    St.feedArm.go x (fun a => a.on.contains onElse) (arms.map Arm.simplifyElse) false =
      (St.feedArm.go x (fun a => a.on.contains onElse) arms false).map Arm.simplifyElse := by
  induction arms with
  | nil => simp [St.feedArm.go]
  | cons a r ih =>
    by_cases ha : a.isElse = true
    · have hr : ∀ b ∈ r, b.isElse = false := fun b hb => armsDisjoint_head hd onElse ha b hb
      have ha' : a.simplifyElse.on.contains onElse = true := by
        have := Arm.simplifyElse_isElse a; simp [Arm.isElse] at this ha ⊢; rw [this]; exact ha
      have ha2 : a.on.contains onElse = true := ha
      simp only [List.map_cons, St.feedArm.go, ha', ha2, Bool.not_false, Bool.and_self, if_true]
      rw [map_simplify_of_noElse r hr, go_true_noElse x r hr]
    · have ha' : a.isElse = false := by simpa using ha
      have ha2 : a.on.contains onElse = false := ha'
      simp only [List.map_cons, Arm.simplifyElse_of_not_else a ha', St.feedArm.go, ha2,
        Bool.false_and, Bool.false_eq_true, if_false]
      split
      · simp [Arm.simplifyElse_of_not_else a ha']
      · exact ih (armsDisjoint_tail hd)

/-- **`feed` takes the same transition** of a state before and after the pass (up to the rewritten
    symbol list). -/
theorem feedArm_simplify (s : St) (hd : armsDisjoint s.arms = true) (x : Nat) :
    s.simplifyElse.feedArm x = (s.feedArm x).map Arm.simplifyElse := by
  simp only [St.feedArm, elseArm_simplify]
  have := go_simplify x s.arms hd
  simp only [St.simplifyElse]
  rw [this]
  cases St.feedArm.go x (fun a => a.on.contains onElse) s.arms false <;> simp

theorem find_end_none_map (r : List Arm) (h : ∀ b ∈ r, b.on.contains symEnd = false) :
    (r.map Arm.simplifyElse).find? (fun a => a.on.contains symEnd) = none := by
  rw [List.find?_eq_none]
  intro b' hb'
  rcases List.mem_map.mp hb' with ⟨b, hb, rfl⟩
  intro hc
  have := Arm.simplifyElse_contains b symEnd hc
  rw [h b hb] at this
  cases this

theorem endArm_aux (arms : List Arm) (hd : armsDisjoint arms = true) (d : Option Arm)
    (hu : ∀ a ∈ arms, a.isElse = true → d = some a) :
    (match (arms.map Arm.simplifyElse).find? (fun a : Arm => a.on.contains symEnd) with
      | some a => some a | none => d.map Arm.simplifyElse) =
    (match arms.find? (fun a : Arm => a.on.contains symEnd) with
      | some a => some a | none => d).map Arm.simplifyElse := by
  induction arms with
  | nil => simp
  | cons a r ih =>
    by_cases hP : a.on.contains symEnd = true
    · by_cases hf : a.simplifyElse = a
      · simp only [List.map_cons, List.find?_cons, hf, hP]
        simp [hf]
      · have he : a.isElse = true := by
          by_cases h : a.isElse = true
          · exact h
          · exact absurd (Arm.simplifyElse_of_not_else a (by simpa using h)) hf
        have hP' : a.simplifyElse.on.contains symEnd = false := by
          by_cases h : a.simplifyElse.on.contains symEnd = true
          · exact absurd (Arm.simplifyElse_contains_iff a symEnd (by decide) h).1 hf
          · simpa using h
        have hr := armsDisjoint_head hd symEnd hP
        simp only [List.map_cons, List.find?_cons, hP', hP, find_end_none_map r hr]
        rw [hu a (by simp) he]
    · have hP' : a.on.contains symEnd = false := by simpa using hP
      have hP2 : a.simplifyElse.on.contains symEnd = false := by
        by_cases h : a.simplifyElse.on.contains symEnd = true
        · exact absurd (Arm.simplifyElse_contains a symEnd h) hP
        · simpa using h
      simp only [List.map_cons, List.find?_cons, hP', hP2]
      exact ih (armsDisjoint_tail hd) (fun b hb he => hu b (by simp [hb]) he)

/-- **`end()` takes the same transition** of a deterministic state before and after the pass. -/
theorem endArm_simplify (s : St) (hd : armsDisjoint s.arms = true) :
    s.simplifyElse.endArm = s.endArm.map Arm.simplifyElse := by
  simp only [St.endArm, elseArm_simplify]
  simp only [St.simplifyElse]
  exact endArm_aux s.arms hd s.elseArm (fun a ha he => find_else_unique s.arms hd a ha he)

/-! ### the machine -/

@[simp] theorem Machine.simplifyElse_size (M : Machine) : M.simplifyElse.states.size = M.states.size := by
  simp [Machine.simplifyElse]

theorem Machine.simplifyElse_st (M : Machine) (i : Nat) : M.simplifyElse.st i = (M.st i).simplifyElse := by
  simp only [Machine.st, Machine.simplifyElse, Array.getD_eq_getD_getElem?, Array.getElem?_map]
  cases M.states[i]? <;> rfl

@[simp] theorem St.simplifyElse_kind (s : St) : s.simplifyElse.kind = s.kind := rfl
@[simp] theorem St.simplifyElse_accepting (s : St) : s.simplifyElse.accepting = s.accepting := rfl
@[simp] theorem St.simplifyElse_arms (s : St) : s.simplifyElse.arms = s.arms.map Arm.simplifyElse := rfl

theorem St.simplifyElse_allErr (s : St) : s.simplifyElse.arms.all (·.err) = s.arms.all (·.err) := by
  simp [List.all_map, Function.comp_def]

@[simp] theorem Machine.simplifyElse_isAccepting (M : Machine) (t : Int) :
    M.simplifyElse.isAccepting t = M.isAccepting t := by
  simp [Machine.isAccepting, Machine.simplifyElse_st]

theorem Machine.simplifyElse_immediateDone (M : Machine) (o : SemOpts) (a : Arm) (e : Bool) :
    M.simplifyElse.immediateDone o a.simplifyElse e = M.immediateDone o a e := by
  simp only [Machine.immediateDone, Machine.simplifyElse_isAccepting, Machine.simplifyElse_st,
    St.simplifyElse_allErr, Arm.simplifyElse_target, Arm.simplifyElse_fall]

@[simp] theorem Machine.simplifyElse_failTarget (M : Machine) : M.simplifyElse.failTarget = M.failTarget := by
  have hf : (fun i => (M.simplifyElse.states.getD i default).kind == StKind.fail) =
      (fun i => (M.states.getD i default).kind == StKind.fail) := by
    funext i
    have := Machine.simplifyElse_st M i
    simp only [Machine.st] at this
    rw [this]; rfl
  simp only [Machine.failTarget, Machine.failIdx, Machine.simplifyElse_size, hf]

theorem Machine.simplifyElse_armTree (M : Machine) (o : SemOpts) (si : Int) (src : St) (a : Arm)
    (x adv : Nat) (re : Int → Nat → CTree) :
    M.simplifyElse.armTree o si src.simplifyElse a.simplifyElse x adv re = M.armTree o si src a x adv re := by
  simp only [Machine.armTree, Machine.simplifyElse_immediateDone, Arm.simplifyElse_acts,
    Arm.simplifyElse_fall, Arm.simplifyElse_target, Machine.simplifyElse_failTarget,
    St.simplifyElse_accepting, Machine.simplifyElse_isAccepting]

theorem Machine.simplifyElse_chain (M : Machine) (o : SemOpts) (s : Int) (x adv : Nat) (st : St)
    (re : Int → Nat → CTree) (arms : List Arm) :
    Machine.dispatch.chain M.simplifyElse o s x adv st.simplifyElse re (arms.map Arm.simplifyElse) =
      Machine.dispatch.chain M o s x adv st re arms := by
  induction arms with
  | nil => simp [Machine.dispatch.chain]
  | cons a r ih =>
    simp only [List.map_cons, Machine.dispatch.chain, Arm.simplifyElse_cond, Machine.simplifyElse_armTree, ih]

theorem Machine.deterministic_st (M : Machine) (h : M.deterministic = true) (i : Nat) :
    armsDisjoint (M.st i).arms = true := by
  simp only [Machine.st, Array.getD_eq_getD_getElem?]
  cases hi : M.states[i]? with
  | none => rfl
  | some s =>
    simp only [Machine.deterministic, Array.all_eq_true] at h
    have ⟨hlt, he⟩ := Array.getElem?_eq_some_iff.mp hi
    have := h i hlt
    rw [he] at this
    simpa using this

/-- **The pass leaves every dispatch tree as it is.**  For a deterministic table, from every state
    (an index outside the table included), on every byte and on end-of-input, with any budget of
    non-consuming moves, the emitted code of the simplified machine unfolds into *the same* interaction
    tree: same events, same questions, same leaves (result code, successor state, cursor advance). -/
theorem Machine.simplifyElse_dispatch (M : Machine) (hd : M.deterministic = true) (o : SemOpts) :
    ∀ (fuel : Nat) (s : Int) (x adv : Nat),
      M.simplifyElse.dispatch o fuel s x adv = M.dispatch o fuel s x adv := by
  intro fuel
  induction fuel with
  | zero => intro s x adv; simp [Machine.dispatch]
  | succ fuel ih =>
    intro s x adv
    have hre : (fun s' adv' => M.simplifyElse.dispatch o fuel s' x adv') =
        (fun s' adv' => M.dispatch o fuel s' x adv') := by
      funext s' adv'; exact ih s' x adv'
    simp only [Machine.dispatch, Machine.simplifyElse_size, Machine.simplifyElse_st, hre,
      St.simplifyElse_kind, Machine.simplifyElse_failTarget, St.simplifyElse_accepting]
    split
    · rfl
    · have hdis := Machine.deterministic_st M hd s.toNat
      cases hk : (M.st s.toNat).kind with
      | fail => rfl
      | cond =>
        simp only [St.simplifyElse_arms]
        exact Machine.simplifyElse_chain M o s x adv (M.st s.toNat) _ _
      | normal =>
        simp only
        have harm : (if x = symEnd then (M.st s.toNat).simplifyElse.endArm else (M.st s.toNat).simplifyElse.feedArm x)
            = (if x = symEnd then (M.st s.toNat).endArm else (M.st s.toNat).feedArm x).map Arm.simplifyElse := by
          split
          · exact endArm_simplify _ hdis
          · exact feedArm_simplify _ hdis x
        rw [harm]
        cases (if x = symEnd then (M.st s.toNat).endArm else (M.st s.toNat).feedArm x) with
        | none => rfl
        | some a =>
          simp only [Option.map_some, Arm.simplifyElse_err, Machine.simplifyElse_armTree]

/-- … hence every call, every step of the symbolic machine, and the machine itself. -/
theorem Machine.simplifyElse_call (M : Machine) (hd : M.deterministic = true) (o : SemOpts) (s : Int) (x : Nat) :
    M.simplifyElse.call o s x = M.call o s x := by
  simp only [Machine.call, Machine.stepFuel, Machine.simplifyElse_size]
  exact Machine.simplifyElse_dispatch M hd o _ s x 0

theorem Machine.simplifyElse_step (M : Machine) (hd : M.deterministic = true) (o : SemOpts) :
    ∀ (fuelY : Nat) (s : Int) (x : Nat), M.simplifyElse.step o fuelY s x = M.step o fuelY s x := by
  intro fuelY
  induction fuelY with
  | zero => intro s x; rfl
  | succ n ih =>
    intro s x
    simp only [Machine.step, Machine.simplifyElse_call M hd, ih]

/-- **C05 for `simplify-else-conditions`, for every program at once**: the machine before and the
    machine after the pass are the same symbolic machine — same start, same step function — so every
    run (any input, any oracle for the data tests) is literally the same run. -/
theorem C05_simplify_else_preserves (M : Machine) (hd : M.deterministic = true) (o : SemOpts) :
    M.simplifyElse.sm o = M.sm o := by
  simp only [Machine.sm]
  congr 1
  funext s x
  exact Machine.simplifyElse_step M hd o 8 s x

theorem C05_simplify_else_preserves_with_start (M : Machine) (hd : M.deterministic = true) (o : SemOpts) :
    M.simplifyElse.smS o = M.smS o := by
  simp only [Machine.smS, Machine.simplifyElse_size]
  congr 1
  funext s x
  simp only [Machine.simplifyElse_step M hd o]
  rfl

/-! ### the pass inside the fix-point loop of `compile()` -/

/-- the pass is idempotent on a transition … -/
theorem Arm.simplifyElse_idem (a : Arm) : a.simplifyElse.simplifyElse = a.simplifyElse := by
  by_cases h : (decide (a.on.length > 1) && a.isElse) = true
  · have : a.simplifyElse = { a with on := [onElse] } := by simp [Arm.simplifyElse, h]
    rw [this]; simp [Arm.simplifyElse]
  · have : a.simplifyElse = a := by simp [Arm.simplifyElse, h]
    rw [this, this]

theorem St.simplifyElse_idem (s : St) : s.simplifyElse.simplifyElse = s.simplifyElse := by
  have hf : (Arm.simplifyElse ∘ Arm.simplifyElse) = Arm.simplifyElse := funext Arm.simplifyElse_idem
  simp only [St.simplifyElse, List.map_map, hf]

/-- … and on a machine: a second invocation modifies nothing (the fix-point loop of `compile()` is not kept
    going by this pass alone). -/
theorem Machine.simplifyElse_idem (M : Machine) : M.simplifyElse.simplifyElse = M.simplifyElse := by
  have hf : (St.simplifyElse ∘ St.simplifyElse) = St.simplifyElse := funext St.simplifyElse_idem
  simp only [Machine.simplifyElse, Array.map_map, hf]

theorem armsDisjoint_simplify (arms : List Arm) (h : armsDisjoint arms = true) :
    armsDisjoint (arms.map Arm.simplifyElse) = true := by
  induction arms with
  | nil => rfl
  | cons a r ih =>
    simp only [List.map_cons, armsDisjoint, Bool.and_eq_true, List.all_eq_true] at h ⊢
    refine ⟨?_, ih h.2⟩
    intro b' hb' v hv
    rcases List.mem_map.mp hb' with ⟨b, hb, rfl⟩
    have hva : a.on.contains v = true := Arm.simplifyElse_contains a v (by simpa using hv)
    have := h.1 b hb v (by simpa using hva)
    by_cases hc : b.simplifyElse.on.contains v = true
    · have := Arm.simplifyElse_contains b v hc
      simp_all
    · simpa using hc

/-- the pass keeps a deterministic table deterministic: the preservation theorem applies again to the next
    invocation of the fix-point loop -/
theorem Machine.simplifyElse_deterministic (M : Machine) (h : M.deterministic = true) :
    M.simplifyElse.deterministic = true := by
  simp only [Machine.deterministic, Array.all_eq_true] at h ⊢
  intro i hi
  simp only [Machine.simplifyElse, Array.size_map] at hi
  have := h i hi
  simp only [Machine.simplifyElse, Array.getElem_map, St.simplifyElse]
  exact armsDisjoint_simplify _ this

/-! ### the hypothesis is needed, and it is satisfiable -/

/-- two transitions of one state list `End` (not a deterministic table): before the pass `end()` takes
    the first (which also lists `Else`), after it the second -/
def nondetMachine : Machine :=
  { states := #[⟨.normal, false,
      [⟨[symEnd, onElse], .else_, 0, false, false, .nil⟩,
       ⟨[symEnd], .else_, -1, false, true, .nil⟩]⟩],
    start := 0, outs := #[], startActs := .nil, hooks := [], finishCodes := [], yieldCodes := [] }

theorem simplifyElse_needs_determinism :
    nondetMachine.deterministic = false ∧
    ((nondetMachine.st 0).endArm.map (·.target)) = some 0 ∧
    ((nondetMachine.simplifyElse.st 0).endArm.map (·.target)) = some (-1) := by
  decide +kernel

/-- a deterministic state whose else-transition lists a byte and `End` as well: the pass rewrites it,
    the hypothesis holds, and `feed`/`end()` still take the same transitions -/
def detMachine : Machine :=
  { states := #[⟨.normal, false,
      [⟨[97], .else_, 0, false, false, .nil⟩,
       ⟨[98, symEnd, onElse], .else_, -1, false, true, .nil⟩]⟩],
    start := 0, outs := #[], startActs := .nil, hooks := [], finishCodes := [], yieldCodes := [] }

example : detMachine.deterministic = true ∧
    ((detMachine.simplifyElse.st 0).arms.map (·.on)) = [[97], [onElse]] ∧
    ((detMachine.simplifyElse.st 0).feedArm 98).map (·.target) = some (-1) ∧
    ((detMachine.simplifyElse.st 0).endArm).map (·.target) = some (-1) := by
  decide +kernel

end Nmfu
