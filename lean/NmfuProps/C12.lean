/-
  C12 — representation options never change what is parsed.

  The runtime model has no parameter at all for: global / per-state hooks, the user pointer,
  packed enums, the header guard style, the range-collapse threshold.  Binaries built with any of
  them are compared with one and the same model run (harness/check_C12.py), so for these options
  independence of the model is an identity.  For the options the model does carry:
  * the cursor mode and the zero-length flag are not read by any step of the semantics
    (`C12_cursor_and_zero_len_not_in_semantics`: the whole chunked session is the same), and the
    zero-length flag matters to `feed` only for an empty chunk
    (`C12_zero_len_flag_irrelevant_on_nonempty_chunks`);
  * the string-storage options (`dynamic`, `onDemand`, `deleteFrees`) change the allocation state
    of the buffers.  `NmfuProps/C12Storage.lean` proves a refinement of the runtime model to a
    semantics on storage-free stores (`C12_session_refines`) and from it
    `C12_storage_independent`: for machines passing `safeCheck`, any two storage settings give
    the same codes, cursors, scalars, buffer lengths and contents on every sequence of API calls —
    provided index expressions `s[i]` are bounds-checked (the default; the check is against the
    current length) or absent.  With `-funsafe-string-indexing` an index at or beyond the length
    reads stale or uninitialised bytes, which do depend on where the buffer lives: such machines
    are outside the theorem (and that option is not one of the representation options of C12).
    `C12_storage_independent_partial` (events that touch no buffer, any machine) is kept.
-/
import NmfuProps.C10
namespace Nmfu

/-- `c` with another cursor mode and zero-length flag. -/
def RtCtx.withCursorOpts (c : RtCtx) (i z : Bool) : RtCtx :=
  { M := c.M, ro := { c.ro with indirect := i, zeroLen := z } }

theorem applyEv_cursor_irrel (c : RtCtx) (i z : Bool) (isStart : Bool) (σ : CState) (e : MEv) :
    (c.withCursorOpts i z).applyEv isStart σ e = c.applyEv isStart σ e := by
  cases e with
  | act a => cases a <;> rfl
  | asked q v => cases q <;> rfl

theorem answer_cursor_irrel (c : RtCtx) (i z : Bool) (σ : CState) (q : Quest) :
    (c.withCursorOpts i z).answer σ q = c.answer σ q := by
  cases q <;> rfl

theorem runTree_cursor_irrel (c : RtCtx) (i z : Bool) (isStart : Bool) (t : CTree) :
    ∀ σ, (c.withCursorOpts i z).runTree isStart t σ = c.runTree isStart t σ := by
  induction t with
  | emit a k ih => intro σ; simp only [RtCtx.runTree, applyEv_cursor_irrel, ih]
  | ask q kt kf iht ihf =>
    intro σ
    simp only [RtCtx.runTree, applyEv_cursor_irrel, answer_cursor_irrel, iht, ihf]
  | leaf l => intro σ; rfl

theorem feedL_cursor_irrel (c : RtCtx) (i z : Bool) :
    ∀ (inp : List Nat) (σ : CState) (pos : Nat),
      (c.withCursorOpts i z).feedL σ inp pos = c.feedL σ inp pos := by
  intro inp
  induction inp with
  | nil => intro σ pos; rfl
  | cons b rest ih =>
    intro σ pos
    simp only [RtCtx.feedL]
    have : (c.withCursorOpts i z).runTree false ((c.withCursorOpts i z).M.call (c.withCursorOpts i z).semOpts σ.state b) σ
        = c.runTree false (c.M.call c.semOpts σ.state b) σ := runTree_cursor_irrel c i z false _ σ
    rw [this]
    split <;> simp [ih]

theorem runAll_cursor_irrel (c : RtCtx) (i z : Bool) :
    ∀ (fuel : Nat) (σ : CState) (inp : List Nat) (off : Nat),
      (c.withCursorOpts i z).runAll fuel σ inp off = c.runAll fuel σ inp off := by
  intro fuel
  induction fuel with
  | zero => intro σ inp off; simp only [RtCtx.runAll, feedL_cursor_irrel]
  | succ fuel ih => intro σ inp off; simp only [RtCtx.runAll, feedL_cursor_irrel, ih]

/-- The cursor mode and the zero-length flag are not inputs of the semantics: the whole chunked
    session — hook log, codes and offsets, final state struct — is the same. -/
theorem C12_cursor_and_zero_len_not_in_semantics (c : RtCtx) (i z : Bool) :
    ∀ (cs : List (List Nat)) (fuel : Nat) (σ : CState) (off : Nat),
      (c.withCursorOpts i z).runChunks fuel σ cs off = c.runChunks fuel σ cs off := by
  intro cs
  induction cs with
  | nil => intro fuel σ off; rfl
  | cons ch rest ih => intro fuel σ off; simp only [RtCtx.runChunks, runAll_cursor_irrel, ih]

theorem feedFrom_cursor_irrel (c : RtCtx) (i z : Bool) :
    ∀ (fuel : Nat) (σ : CState) (rest : List Nat) (pos : Nat),
      (c.withCursorOpts i z).feedFrom fuel σ rest pos = c.feedFrom fuel σ rest pos := by
  intro fuel
  induction fuel with
  | zero => intro σ rest pos; rfl
  | succ fuel ih =>
    intro σ rest pos
    cases rest with
    | nil => rfl
    | cons b rest' =>
      simp only [RtCtx.feedFrom]
      have : (c.withCursorOpts i z).runTree false ((c.withCursorOpts i z).M.call (c.withCursorOpts i z).semOpts σ.state b) σ
          = c.runTree false (c.M.call c.semOpts σ.state b) σ := runTree_cursor_irrel c i z false _ σ
      rw [this]
      split <;> simp [ih]

/-- The zero-length-input flag only matters for an empty chunk. -/
theorem C12_zero_len_flag_irrelevant_on_nonempty_chunks (c : RtCtx) (i z : Bool)
    (σ : CState) (chunk : List Nat) (pos : Nat) (h : chunk.drop pos ≠ []) :
    (c.withCursorOpts i z).feed σ chunk pos = c.feed σ chunk pos := by
  have hne : (chunk.drop pos).isEmpty = false := by
    cases hd : chunk.drop pos with
    | nil => exact absurd hd h
    | cons _ _ => rfl
  simp only [RtCtx.feed, hne, Bool.and_false, Bool.false_eq_true, if_false, feedFrom_cursor_irrel]

/-- Events that do not touch a buffer have the same effect under any storage options. -/
theorem C12_storage_independent_partial (c : RtCtx) (d o f : Bool) (σ : CState)
    (isStart : Bool) (a : AEv)
    (hbuf : match a with
      | .hook _ _ => True | .brk => True | .ret _ => True | .yield _ => True
      | _ => False) :
    ({ M := c.M, ro := { c.ro with dynamic := d, onDemand := o, deleteFrees := f } } : RtCtx).apply σ isStart a
      = c.apply σ isStart a := by
  cases a <;> first | exact False.elim hbuf | rfl

end Nmfu
