/-
  C06 — emitted C executes exactly the compiled state machine.

  The runtime model (`NmfuModel/Rt.lean`) executes the call-level trees of the machine
  (`Machine.call`: first matching arm in list order, else arm last, state written before the
  actions, redirects and breaks overriding it, fall-through re-dispatch, early advance, immediate
  DONE) on a typed store.  The theorems below say that this execution *is* the abstract machine
  step under the oracle the store defines — same events in the same order, same leaf (next state,
  cursor movement, return code) — for every machine, state, symbol and store.  That the real
  generated C behaves as `Rt` is established by the correspondence run in
  `harness/check_C06.py` (forced single steps from every state on every byte class and on
  end-of-input in several data contexts, plus random walks), against the compiled binary.
-/
import NmfuProps.RtBridge
namespace Nmfu

/-- One emitted-code step from state `s` on symbol `x` (`feed` dispatch for a byte, `end()` for
    256) performs exactly the machine's events under the store's oracle and ends at the
    machine's leaf. -/
theorem C06_step_is_machine_step (c : RtCtx) (σ : CState) (s : Int) (x : Nat) :
    c.runTree false (c.M.call c.semOpts s x) σ =
      (c.after false σ ((c.M.call c.semOpts s x).run (c.oracle false σ) []).1,
       ((c.M.call c.semOpts s x).run (c.oracle false σ) []).2) :=
  runTree_eq_run_nil c false σ _

/-- The arm taken inside `feed` on a byte is the first non-else arm that lists the byte, whatever
    comes later in the list (first match wins), and the else arm only when none does. -/
theorem C06_first_match_wins (s : St) (x : Nat) (a : Arm) (rest : List Arm)
    (h : s.arms = a :: rest) (hx : a.on.contains x = true) (hne : a.on.contains onElse = false)
    (hlive : (s.accepting && a.err) = false) :
    s.feedArm x = some a := by
  have hx' : x ∈ a.on := by simpa using hx
  have hne' : onElse ∉ a.on := by simpa using hne
  simp [St.feedArm, St.feedArm.go, h, hx', hne', hlive]

/-- `end()` uses the arm listing `End` when there is one, otherwise the else arm. -/
theorem C06_end_uses_end_arm (s : St) (a : Arm) (rest : List Arm)
    (h : s.arms = a :: rest) (hx : a.on.contains symEnd = true)
    (hlive : (s.accepting && a.err) = false) :
    s.endArm = some a := by
  have hx' : symEnd ∈ a.on := by simpa using hx
  simp [St.endArm, h, hx', hlive]

/-- Once the accepting state is reached, input that only its error handling would take is
    answered by DONE: no arm is selected. -/
theorem C06_accepting_ignores_error_arms (s : St) (x : Nat) (hacc : s.accepting = true)
    (hall : ∀ a ∈ s.arms, a.err = true) : s.feedArm x = none ∧ s.endArm = none := by
  have hgo : ∀ (arms : List Arm) (b : Bool), (∀ a ∈ arms, a.err = true) →
      St.feedArm.go s x (fun a => a.on.contains onElse) arms b = none := by
    intro arms
    induction arms with
    | nil => intro b _; simp [St.feedArm.go]
    | cons a rest ih =>
      intro b hr
      have ha := hr a (by simp)
      have hrest := fun a' h' => hr a' (List.mem_cons_of_mem _ h')
      simp only [St.feedArm.go, hacc, ha, Bool.and_self, if_true]
      split
      · exact ih _ hrest
      · exact ih _ hrest
  constructor
  · simp only [St.feedArm, hgo s.arms false hall]
    cases he : s.elseArm with
    | none => rfl
    | some a =>
      have : a ∈ s.arms := by
        simp only [St.elseArm] at he
        exact List.mem_of_find?_eq_some he
      simp [hacc, hall a this]
  · simp only [St.endArm]
    cases hf : s.arms.find? (fun a => a.on.contains symEnd) with
    | some a =>
      have : a ∈ s.arms := List.mem_of_find?_eq_some hf
      simp [hacc, hall a this]
    | none =>
      cases he : s.elseArm with
      | none => rfl
      | some a =>
        have : a ∈ s.arms := by
          simp only [St.elseArm] at he
          exact List.mem_of_find?_eq_some he
        simp [hacc, hall a this]

end Nmfu
