/-
  C06 — emitted C executes exactly the compiled state machine.

  The runtime model (`NmfuModel/Rt.lean`) executes the call-level trees of the machine
  (`Machine.call`: first matching arm in list order, else arm last, state written before the
  actions, redirects and breaks overriding it, fall-through re-dispatch, early advance, immediate
  DONE) on a typed store.  The theorems below say that this execution *is* the abstract machine
  step under the oracle the store defines — same events in the same order, same leaf (next state,
  cursor movement, return code) — for every machine, state, symbol and store.  That the real
  generated C behaves as `Rt` is established by the correspondence run in
  `harness/check_C06.py` (forced single steps from every state on every byte class and on
  end-of-input in several data contexts, plus random walks), against the compiled binary.
-/
import NmfuProps.RtBridge
namespace Nmfu

/-- One emitted-code step from state `s` on symbol `x` (`feed` dispatch for a byte, `end()` for
    256) performs exactly the machine's events under the store's oracle and ends at the
    machine's leaf. -/
theorem C06_step_is_machine_step (c : RtCtx) (σ : CState) (s : Int) (x : Nat) :
    c.runTree false (c.M.call c.semOpts s x) σ =
      (c.after false σ ((c.M.call c.semOpts s x).run (c.oracle false σ) []).1,
       ((c.M.call c.semOpts s x).run (c.oracle false σ) []).2) :=
  runTree_eq_run_nil c false σ _

/-- The arm taken inside `feed` on a byte is the first non-else arm that lists the byte, whatever
    comes later in the list (first match wins), and the else arm only when none does. -/
theorem C06_first_match_wins (s : St) (x : Nat) (a : Arm) (rest : List Arm)
    (h : s.arms = a :: rest) (hx : a.on.contains x = true) (hne : a.on.contains onElse = false) :
    s.feedArm x = some a := by
  have hx' : x ∈ a.on := by simpa using hx
  have hne' : onElse ∉ a.on := by simpa using hne
  simp [St.feedArm, St.feedArm.go, h, hx', hne']

/-- `end()` uses the arm listing `End` when there is one, otherwise the else arm. -/
theorem C06_end_uses_end_arm (s : St) (a : Arm) (rest : List Arm)
    (h : s.arms = a :: rest) (hx : a.on.contains symEnd = true) :
    s.endArm = some a := by
  have hx' : symEnd ∈ a.on := by simpa using hx
  simp [St.endArm, h, hx']

/-- Once the accepting state is reached, a symbol that only its error handling would take is
    answered by DONE: no action runs, nothing is consumed. -/
theorem C06_accepting_ignores_error_arms (M : Machine) (o : SemOpts) (s : Nat) (x : Nat)
    (hs : s < M.states.size) (hk : (M.st s).kind = .normal) (hacc : (M.st s).accepting = true)
    (hall : ∀ a ∈ (M.st s).arms, a.err = true) :
    M.call o s x = .leaf (.ret "DONE" s 0) := by
  have h1 : ¬ ((s : Int) < 0) := by omega
  have h2 : ¬ M.states.size ≤ s := by omega
  simp only [Machine.call, Machine.stepFuel, Machine.dispatch, h1, h2, hk, Int.toNat_natCast,
    Bool.false_eq_true, or_self, if_false, ge_iff_le, decide_eq_true_eq]
  have harm : ∀ arm, (if x = symEnd then (M.st s).endArm else (M.st s).feedArm x) = some arm → arm.err = true := by
    intro arm h
    apply hall
    split at h
    · simp only [St.endArm] at h
      split at h
      · next a hf => simp only [Option.some.injEq] at h; subst h; exact List.mem_of_find?_eq_some hf
      · simp only [St.elseArm] at h; exact List.mem_of_find?_eq_some h
    · simp only [St.feedArm] at h
      split at h
      · next a hgo =>
        simp only [Option.some.injEq] at h; subst h
        have : ∀ (arms : List Arm) (b : Bool) (a : Arm),
            St.feedArm.go x (fun a => a.on.contains onElse) arms b = some a → a ∈ arms := by
          intro arms
          induction arms with
          | nil => intro b a h; simp [St.feedArm.go] at h
          | cons a' rest ih =>
            intro b a h
            simp only [St.feedArm.go] at h
            split at h
            · exact List.mem_cons_of_mem _ (ih _ _ h)
            · split at h
              · simp only [Option.some.injEq] at h; subst h; simp
              · exact List.mem_cons_of_mem _ (ih _ _ h)
        exact this _ _ _ hgo
      · simp only [St.elseArm] at h; exact List.mem_of_find?_eq_some h
  cases harmv : (if x = symEnd then (M.st s).endArm else (M.st s).feedArm x) with
  | none => simp [fallOut, hacc]
  | some arm => simp [hacc, harm arm harmv]

end Nmfu
