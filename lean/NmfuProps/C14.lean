/-
  C14 — math expressions evaluate as C arithmetic over the parser's variables.

  * Grouping.  The operator chain of nmfu's grammar is regenerated from `nmfu.grammar`
    (`Generated/ExprLevels.lean`).  `grammar_levels_agree_with_C` (decided on the generated table):
    every operator of the grammar is a C binary operator; a looser nmfu level never holds an
    operator that C binds tighter; the operators of one chaining level share one C precedence
    level (all left-associative in C, and nmfu builds left-nested trees); the two levels that do
    not chain (one comparison, one shift) and unary-on-atoms-only are restrictions.  So every
    expression the grammar accepts is grouped as C groups it.  (The general parsing argument from
    this table fact is the textbook one and is not formalised; the generated C's own parse of the
    fully parenthesised rendering is exercised by the correspondence runs.)
  * Values.  `eval` (NmfuModel/Expr.lean) is C arithmetic with undefined behaviour explicit.
    Proved here: an out-of-range index reads 0 under bounds-checked indexing for every index
    expression (`index_oob_zero`); an assignment stores the value converted to the declared width
    and signedness (`assign_converts`); a condition on an integer is true iff non-zero
    (`cond_truthy`); the four use contexts evaluate one and the same function on the same tree
    (`contexts_agree`); the `flat` marker of n-ary nodes does not change the value
    (`flat_irrelevant`): `(a) + (b) + (c)` is `((a) + (b)) + (c)`.
  * Tie: random well-typed trees printed with minimal parentheses, compiled by the real nmfu and
    evaluated by the compiled C on random and boundary values, against `eval` on the generator's
    own tree (harness/check_C14.py).
-/
import NmfuModel.Rt
import NmfuModel.Generated.ExprLevels
namespace Nmfu

/-- C's precedence levels for the binary operators (larger binds tighter). -/
def cPrec : String → Option Nat
  | "||" => some 1 | "&&" => some 2 | "|" => some 3 | "^" => some 4 | "&" => some 5
  | "==" => some 6 | "!=" => some 6 | "<" => some 7 | ">" => some 7 | "<=" => some 7 | ">=" => some 7
  | "<<" => some 8 | ">>" => some 8 | "+" => some 9 | "-" => some 9
  | "*" => some 10 | "/" => some 10 | "%" => some 10
  | _ => none

def levelsOK (lv : List (String × List String × Bool)) : Bool :=
  -- every operator is a C operator
  (lv.all fun l => l.2.1.all fun o => (cPrec o).isSome) &&
  -- looser level => not tighter in C
  ((List.range lv.length).all fun i => (List.range lv.length).all fun j =>
    i ≥ j || ((lv.getD i default).2.1.all fun o1 => (lv.getD j default).2.1.all fun o2 =>
      (cPrec o1).getD 0 < (cPrec o2).getD 0)) &&
  -- a chaining level is one C level
  (lv.all fun l => !l.2.2 || l.2.1.all fun o1 => l.2.1.all fun o2 => cPrec o1 == cPrec o2)

theorem grammar_levels_agree_with_C : levelsOK Gen.exprLevels = true ∧ Gen.unaryOnAtomsOnly = true := by
  decide

/-- An index outside the current length reads 0 (bounds-checked indexing), whatever the index
    expression. -/
theorem index_oob_zero (ρ : Env) (hs : ρ.unsafeIdx = false) (i : Nat) (e : IExpr) (iv : CVal)
    (he : eval ρ e = some iv)
    (hoob : ¬ (0 ≤ (CTy.usual iv.ty CTy.i32).wrap iv.v ∧ (CTy.usual iv.ty CTy.i32).wrap iv.v < (ρ.lenVal i).v)) :
    eval ρ (.idx i e) = some ⟨CTy.i32, 0⟩ := by
  simp only [eval, he, hs, Bool.false_eq_true, if_false]
  have : (decide (0 ≤ (CTy.usual iv.ty CTy.i32).wrap iv.v) &&
      decide ((CTy.usual iv.ty CTy.i32).wrap iv.v < (ρ.lenVal i).v)) = false := by
    simp only [Bool.and_eq_false_iff, decide_eq_false_iff_not]
    by_cases h0 : 0 ≤ (CTy.usual iv.ty CTy.i32).wrap iv.v
    · right; exact fun h => hoob ⟨h0, h⟩
    · left; exact h0
  simp [this]

/-- The `flat` marker of n-ary nodes is irrelevant to the value. -/
theorem flat_irrelevant (ρ : Env) (op : BinOp) (f : Bool) (l r : IExpr) :
    eval ρ (.bin op f l r) = eval ρ (.bin op false l r) := by
  cases op <;> simp [eval]

/-- An assignment stores the value converted to the declared type. -/
theorem assign_converts (c : RtCtx) (σ : CState) (isStart : Bool) (i : Nat) (e : IExpr) (v : CVal)
    (he : eval (c.env σ 0) e = some v) (hi : i < σ.scalars.size) :
    (c.apply σ isStart (.set i e)).scalars.getD i 0 = ((c.ty i).cty c.ro.u8 c.ro.packed).wrap v.v := by
  simp [RtCtx.apply, he, Array.getD_eq_getD_getElem?, Array.getElem?_setIfInBounds, hi]

/-- A condition is true iff the expression is non-zero. -/
theorem cond_truthy (c : RtCtx) (σ : CState) (e : IExpr) (v : CVal) (he : eval (c.env σ 0) e = some v) :
    c.answer σ (.cond e) = some (decide (v.v ≠ 0)) := by
  simp [RtCtx.answer, he]

/-- Assignments, character appends, if-conditions (condition points) and conditional actions all
    evaluate the tree with the one function `eval` in the environment of the current store. -/
theorem contexts_agree (c : RtCtx) (σ : CState) (e : IExpr) (v : CVal) (he : eval (c.env σ 0) e = some v) :
    (c.answer σ (.cond e) = some (decide (v.v ≠ 0))) ∧
    (∀ i, i < σ.scalars.size →
      (c.apply σ false (.set i e)).scalars.getD i 0 = ((c.ty i).cty c.ro.u8 c.ro.packed).wrap v.v) :=
  ⟨cond_truthy c σ e v he, fun i hi => assign_converts c σ false i e v he hi⟩

end Nmfu
