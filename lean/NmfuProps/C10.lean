/-
  C10 — result codes and the start pointer follow the documented protocol.

  Proved here on the runtime model, for every machine:
  * `C10_ok_consumes_chunk`   — a feed call that returns OK has consumed the whole chunk (the
                                 cursor is at the chunk end);
  * `C10_cursor_within_chunk` — whatever a feed call returns, the reported cursor lies within the
                                 chunk and never moves backwards;
  * `C10_fail_absorbing`      — in the failure state (and for a corrupted state index) every
                                 later feed and end call returns FAIL and changes nothing;
  * `C10_yield_resume_exact`  — a session that re-invokes feed from the reported cursor after
                                 each yield is the same as the session on the two halves of the
                                 input cut at any point: no byte is lost or seen twice
                                 (instance of chunk independence).
  What the protocol says about *which* call reports DONE/FAIL and where the cursor then points is
  evaluated on the compiled binary (harness/check_C10.py): against the model, and against the
  one-byte-per-call run of the same binary, which names the offending / last byte independently.
-/
import NmfuProps.C02
namespace Nmfu

/-- No dispatch returns OK from the middle of a chunk (implied by `leavesOK`). -/
def RtCtx.NoStuck (c : RtCtx) : Prop :=
  ∀ (σ : CState) (b : Nat), b < nSym → ∀ st adv,
    (c.runTree false (c.M.call c.semOpts σ.state b) σ).2 ≠ .ret "OK" st adv

theorem feedL_returned_not_ok (c : RtCtx) (hns : c.NoStuck) :
    ∀ (inp : List Nat) (σ σ' : CState) (pos p : Nat) (code : String),
      (∀ b ∈ inp, b < nSym) → c.feedL σ inp pos = .returned σ' code p → code ≠ "OK" := by
  intro inp
  induction inp with
  | nil => intro σ σ' pos p code _ h; simp [RtCtx.feedL] at h
  | cons b rest ih =>
    intro σ σ' pos p code hb h
    simp only [RtCtx.feedL] at h
    have hns' := hns σ b (hb b (by simp))
    split at h
    · exact ih _ _ _ _ _ (fun y hy => hb y (List.mem_cons_of_mem _ hy)) h
    · next code' st adv hl =>
      simp only [FeedRes.returned.injEq] at h
      intro hc
      rw [← h.2.1] at hc
      exact hns' st adv (by rw [hl, hc])
    · next code' st adv hl =>
      simp only [FeedRes.returned.injEq] at h
      intro hc
      rw [← h.2.1] at hc
      have h1 := congrArg String.length hc
      rw [String.length_append] at h1
      have h6 : "YIELD_".length = 6 := by decide
      have h2 : "OK".length = 2 := by decide
      omega

/-- **OK means the whole chunk was consumed.** -/
theorem C10_ok_consumes_chunk (c : RtCtx) (hok : c.StepsOK) (hns : c.NoStuck)
    (rest : List Nat) (σ : CState) (pos fuel : Nat) (hne : rest ≠ []) (hf : rest.length < fuel)
    (hb : ∀ b ∈ rest, b < nSym) (h : (c.feedFrom fuel σ rest pos).2.1 = "OK") :
    (c.feedFrom fuel σ rest pos).2.2 = pos + rest.length := by
  rw [feedFrom_eq_feedL c hok rest σ pos fuel hne hf hb] at h ⊢
  cases hr : c.feedL σ rest pos with
  | exhausted σ' p =>
    simp only [FeedRes.toTriple]
    exact feedL_exhausted_pos c rest σ σ' pos p hr
  | returned σ' code p =>
    rw [hr] at h
    simp only [FeedRes.toTriple] at h
    exact absurd h (feedL_returned_not_ok c hns rest σ σ' pos p code hb hr)

/-- The decidable per-machine check implies `NoStuck`. -/
theorem noStuck_of_leavesOK (c : RtCtx) (h : c.M.leavesOK c.semOpts = true) : c.NoStuck := by
  intro σ b hb st adv
  rw [runTree_eq_run_nil]
  simp only
  by_cases hs : σ.state < 0 ∨ σ.state.toNat ≥ c.M.states.size
  · have : c.M.call c.semOpts σ.state b = .leaf (.ret "FAIL" σ.state 0) := by
      simp only [Machine.call, Machine.stepFuel, Machine.dispatch]
      rcases hs with hs | hs <;> simp [hs]
    rw [this]
    simp [Tree.run]
  · have hs' : 0 ≤ σ.state ∧ σ.state.toNat < c.M.states.size := by omega
    have hmem := run_mem_paths (c.oracle false σ) (c.M.call c.semOpts σ.state b) []
    simp only [Machine.leavesOK, List.all_eq_true, List.mem_range] at h
    have hcall := h σ.state.toNat hs'.2 b hb
    have hst : ((σ.state.toNat : Nat) : Int) = σ.state := Int.toNat_of_nonneg hs'.1
    rw [hst] at hcall
    have hl := hcall _ hmem
    intro heq
    rw [heq] at hl
    simp at hl

/-- The reported cursor stays inside the chunk and never moves backwards. -/
theorem C10_cursor_within_chunk (c : RtCtx) (hok : c.StepsOK)
    (rest : List Nat) (σ : CState) (pos fuel : Nat) (hne : rest ≠ []) (hf : rest.length < fuel)
    (hb : ∀ b ∈ rest, b < nSym) :
    pos ≤ (c.feedFrom fuel σ rest pos).2.2 ∧ (c.feedFrom fuel σ rest pos).2.2 ≤ pos + rest.length := by
  rw [feedFrom_eq_feedL c hok rest σ pos fuel hne hf hb]
  cases hr : c.feedL σ rest pos with
  | exhausted σ' p =>
    have := feedL_exhausted_pos c rest σ σ' pos p hr
    simp only [FeedRes.toTriple]; omega
  | returned σ' code p =>
    have := feedL_returned_pos c rest σ σ' pos p code hr
    simp only [FeedRes.toTriple]; omega

/-- A state index that is the failure state or lies outside the table. -/
def Machine.failLike (M : Machine) (s : Int) : Prop :=
  s < 0 ∨ s.toNat ≥ M.states.size ∨ (M.st s.toNat).kind = .fail

theorem call_failLike (M : Machine) (o : SemOpts) (s : Int) (x : Nat) (h : M.failLike s) :
    M.call o s x = .leaf (.ret "FAIL" s 0) := by
  simp only [Machine.call, Machine.stepFuel, Machine.dispatch]
  rcases h with h | h | h
  · simp [h]
  · simp [h]
  · by_cases h2 : s < 0 ∨ s.toNat ≥ M.states.size
    · rcases h2 with h2 | h2 <;> simp [h2]
    · have h2' : ¬ s < 0 ∧ ¬ M.states.size ≤ s.toNat := by omega
      simp [h2'.1, h2'.2, h]

/-- **FAIL is absorbing**: in the failure state every feed call returns FAIL at once — nothing is
    consumed, no action runs, the state struct is unchanged — and so does `end`. -/
theorem C10_fail_absorbing (c : RtCtx) (σ : CState) (h : c.M.failLike σ.state) :
    (∀ b rest pos, c.feedL σ (b :: rest) pos = .returned σ "FAIL" pos) ∧
    c.endCall σ = (σ, "FAIL") := by
  constructor
  · intro b rest pos
    simp [RtCtx.feedL, call_failLike c.M c.semOpts σ.state b h, RtCtx.runTree]
  · simp [RtCtx.endCall, call_failLike c.M c.semOpts σ.state symEnd h, RtCtx.runTree]

/-- … and an empty chunk, where the feed function answers before looking at any byte, is answered
    FAIL too once the parser has failed (and OK otherwise, changing nothing). -/
theorem C10_fail_absorbing_empty_chunk (c : RtCtx) (σ : CState) (chunk : List Nat) (pos : Nat)
    (hchk : c.needsEndCheck = true) (hempty : chunk.drop pos = []) :
    c.feed σ chunk pos = (σ, if c.emptyFails σ.state then "FAIL" else "OK", pos) := by
  simp [RtCtx.feed, hchk, hempty]

/-- **A FAIL reported by `end()` is final too**: for a machine passing the decidable check
    `endFailOK` (evaluated on every exported machine), when `end()` answers FAIL it leaves the state
    struct in a state from which every later `feed` and `end` call answers FAIL
    (`C10_fail_absorbing`). -/
theorem C10_end_fail_is_final (c : RtCtx) (hok : c.M.endFailOK c.semOpts = true) (σ : CState)
    (h : (c.endCall σ).2 = "FAIL") : c.M.failLike (c.endCall σ).1.state := by
  by_cases hs : σ.state < 0 ∨ σ.state.toNat ≥ c.M.states.size
  · have hfl : c.M.failLike σ.state := by
      rcases hs with hs | hs
      · exact Or.inl hs
      · exact Or.inr (Or.inl hs)
    rw [(C10_fail_absorbing c σ hfl).2]
    exact hfl
  · have hs' : 0 ≤ σ.state ∧ σ.state.toNat < c.M.states.size := by omega
    have hmem := run_mem_paths (c.oracle false σ) (c.M.call c.semOpts σ.state symEnd) []
    simp only [Machine.endFailOK, List.all_eq_true, List.mem_range] at hok
    have hcall := hok σ.state.toNat hs'.2
    have hst : ((σ.state.toNat : Nat) : Int) = σ.state := Int.toNat_of_nonneg hs'.1
    rw [hst] at hcall
    have hleaf := hcall _ hmem
    simp only [RtCtx.endCall] at h ⊢
    rw [runTree_eq_run_nil] at h ⊢
    simp only at h ⊢
    generalize ((c.M.call c.semOpts σ.state symEnd).run (c.oracle false σ) []).2 = leaf at h hleaf ⊢
    cases leaf with
    | next s adv => simp at h
    | yielded code st adv =>
      simp only at h
      exact absurd h (by
        intro e
        have : ("YIELD_" ++ code).length = 4 := by rw [e]; rfl
        simp [String.length_append] at this
        have h6 : "YIELD_".length = 6 := rfl
        omega)
    | ret code st adv =>
      simp only at h hleaf ⊢
      subst h
      simp only [bne_self_eq_false, Bool.false_or, Bool.or_eq_true, decide_eq_true_eq, beq_iff_eq] at hleaf
      rcases hleaf with (h1 | h2) | h3
      · exact Or.inl h1
      · exact Or.inr (Or.inl h2)
      · exact Or.inr (Or.inr h3)

/-- the index `failTarget` is one the empty-chunk test of `feed` answers FAIL for (parsers with `end()`) -/
theorem emptyFails_failTarget (c : RtCtx) (heof : c.ro.eof = true) : c.emptyFails c.M.failTarget = true := by
  unfold RtCtx.emptyFails Machine.failTarget Machine.failIdx
  cases hf : (List.range c.M.states.size).find? (fun i => (c.M.states.getD i default).kind == .fail) with
  | none => simp [heof]
  | some i =>
    have hp := List.find?_some hf
    have hm := List.mem_of_find?_eq_some hf
    simp only [List.mem_range] at hm
    simp only [Option.map_some, Option.getD_some, Bool.or_eq_true]
    left
    simp only [Machine.isFailState, Machine.st, Bool.and_eq_true, decide_eq_true_eq]
    refine ⟨⟨Int.natCast_nonneg i, by simpa using hm⟩, ?_⟩
    simpa using hp

/-- **… also for an empty chunk**: for a machine passing the decidable check `endFailExact`
    (evaluated on every exported machine), once `end()` has answered FAIL from a state of the table,
    a `feed` call with an empty chunk — which answers before looking at any byte — says FAIL too,
    whether or not the table still has a fail state. -/
theorem C10_end_fail_then_empty_chunk (c : RtCtx) (hex : c.M.endFailExact c.semOpts = true)
    (heof : c.ro.eof = true) (hchk : c.needsEndCheck = true) (σ : CState)
    (hin : 0 ≤ σ.state ∧ σ.state.toNat < c.M.states.size)
    (h : (c.endCall σ).2 = "FAIL") (chunk : List Nat) (pos : Nat) (hempty : chunk.drop pos = []) :
    (c.feed (c.endCall σ).1 chunk pos).2.1 = "FAIL" := by
  have hst : (c.endCall σ).1.state = c.M.failTarget := by
    have hmem := run_mem_paths (c.oracle false σ) (c.M.call c.semOpts σ.state symEnd) []
    simp only [Machine.endFailExact, List.all_eq_true, List.mem_range] at hex
    have hcall := hex σ.state.toNat hin.2
    have hs : ((σ.state.toNat : Nat) : Int) = σ.state := Int.toNat_of_nonneg hin.1
    rw [hs] at hcall
    have hleaf := hcall _ hmem
    simp only [RtCtx.endCall] at h ⊢
    rw [runTree_eq_run_nil] at h ⊢
    simp only at h ⊢
    generalize ((c.M.call c.semOpts σ.state symEnd).run (c.oracle false σ) []).2 = leaf at h hleaf ⊢
    cases leaf with
    | next s adv => simp at h
    | yielded code st adv =>
      simp only at h
      exact absurd h (by
        intro e
        have : ("YIELD_" ++ code).length = 4 := by rw [e]; rfl
        simp [String.length_append] at this
        have h6 : "YIELD_".length = 6 := rfl
        omega)
    | ret code st adv =>
      simp only at h hleaf ⊢
      subst h
      simpa using hleaf
  rw [C10_fail_absorbing_empty_chunk c _ chunk pos hchk hempty, hst, emptyFails_failTarget c heof]
  rfl

/-- **Yield resumption is exact**: cutting the input anywhere and running the two parts one after
    the other gives the session of the whole — the re-invocations after yields included. -/
theorem C10_yield_resume_exact (c : RtCtx) (fuel : Nat) (σ : CState) (c1 c2 : List Nat) (off : Nat) :
    c.runAll fuel σ (c1 ++ c2) off = c.runChunks fuel σ [c1, c2] off := by
  rw [C02_chunk_independent]
  simp

end Nmfu
