/-
  C10, "once FAIL has been returned every later feed or end call returns FAIL", as one theorem
  about sequences of API calls on the runtime model.

  Hypotheses are two decidable facts about the machine (`Machine.failClosed`, and that the
  empty-chunk test of `feed` names `failTarget`), both evaluated on every exported machine by the
  harness (`wf`).
-/
import NmfuProps.C10
import NmfuProps.C12Storage
namespace Nmfu

/-- the states a session can be in: a state of the table, or where a FAIL leaves the struct -/
def RtCtx.Good (c : RtCtx) (s : Int) : Prop := c.M.inTable s = true ∨ s = c.M.failTarget

/-- a failed parser: both switches answer FAIL at once, and so does the empty-chunk test -/
def RtCtx.Failed (c : RtCtx) (s : Int) : Prop := c.M.failLike s ∧ c.emptyFails s = true

/-- calls whose behaviour nmfu defines: an empty chunk only for parsers whose `feed` tests for it -/
def ApiOp.defined (c : RtCtx) : ApiOp → Prop
  | .feed chunk pos => chunk.drop pos ≠ [] ∨ c.needsEndCheck = true
  | .endInput => True

theorem failLike_failTarget (M : Machine) : M.failLike M.failTarget := by
  unfold Machine.failTarget Machine.failIdx
  cases hf : (List.range M.states.size).find? (fun i => (M.states.getD i default).kind == .fail) with
  | none =>
    right; left
    simp
  | some i =>
    have hp := List.find?_some hf
    right; right
    simp only [Option.map_some, Option.getD_some, Machine.st, Int.toNat_natCast]
    simpa using hp

theorem failed_failTarget (c : RtCtx) (hempty : c.emptyFails c.M.failTarget = true) :
    c.Failed c.M.failTarget := ⟨failLike_failTarget c.M, hempty⟩

@[simp] theorem addFault_state (σ : CState) (m : String) : (σ.addFault m).state = σ.state := by
  unfold CState.addFault; split <;> rfl

theorem yield_ne_fail (code : String) : ("YIELD_" ++ code) ≠ "FAIL" := by
  intro e
  have : ("YIELD_" ++ code).length = 4 := by rw [e]; rfl
  simp [String.length_append] at this
  have h6 : "YIELD_".length = 6 := rfl
  omega

/-- what `failClosed` says about the leaf one call reaches from a state of the table -/
theorem leaf_of_failClosed (c : RtCtx) (hcl : c.M.failClosed c.semOpts = true) (σ : CState)
    (hin : c.M.inTable σ.state = true) (x : Nat) (hx : x < nSym) :
    match (c.runTree false (c.M.call c.semOpts σ.state x) σ).2 with
    | .next st _ => c.M.inTable st = true
    | .ret code st _ => if code = "FAIL" then st = c.M.failTarget else c.M.inTable st = true
    | .yielded _ st _ => c.M.inTable st = true := by
  rw [runTree_eq_run_nil]
  simp only
  simp only [Machine.inTable, Bool.and_eq_true, decide_eq_true_eq] at hin
  have hmem := run_mem_paths (c.oracle false σ) (c.M.call c.semOpts σ.state x) []
  simp only [Machine.failClosed, List.all_eq_true, List.mem_range] at hcl
  have hcall := hcl σ.state.toNat hin.2 x hx
  have hst : ((σ.state.toNat : Nat) : Int) = σ.state := Int.toNat_of_nonneg hin.1
  rw [hst] at hcall
  have hleaf := hcall _ hmem
  generalize ((c.M.call c.semOpts σ.state x).run (c.oracle false σ) []).2 = leaf at hleaf ⊢
  cases leaf with
  | next st adv => simpa using hleaf
  | yielded code st adv => simpa using hleaf
  | ret code st adv =>
    simp only at hleaf ⊢
    by_cases hc : code = "FAIL"
    · simp only [hc, beq_self_eq_true, if_true, beq_iff_eq] at hleaf ⊢
      simpa using hleaf
    · have : (code == "FAIL") = false := by simpa using hc
      simp only [this, Bool.false_eq_true, if_false] at hleaf
      simp only [hc, if_false]
      exact hleaf

/-- the loop of `feed`: the states it passes through and ends in are good, and a FAIL leaves
    `failTarget` -/
theorem feedFrom_good (c : RtCtx) (hcl : c.M.failClosed c.semOpts = true) :
    ∀ (fuel : Nat) (σ : CState) (rest : List Nat) (pos : Nat), (∀ b ∈ rest, b < nSym) → c.Good σ.state →
      c.Good (c.feedFrom fuel σ rest pos).1.state ∧
      ((c.feedFrom fuel σ rest pos).2.1 = "FAIL" → (c.feedFrom fuel σ rest pos).1.state = c.M.failTarget) := by
  intro fuel
  induction fuel with
  | zero =>
    intro σ rest pos _ hg
    simp only [RtCtx.feedFrom, addFault_state]
    exact ⟨hg, fun h => by simp at h⟩
  | succ fuel ih =>
    intro σ rest pos hb hg
    cases rest with
    | nil =>
      simp only [RtCtx.feedFrom, addFault_state]
      exact ⟨hg, fun h => by simp at h⟩
    | cons b rest' =>
      have hbb : b < nSym := hb b (by simp)
      rcases hg with hin | hft
      · have hl := leaf_of_failClosed c hcl σ hin b hbb
        simp only [RtCtx.feedFrom]
        generalize hr : c.runTree false (c.M.call c.semOpts σ.state b) σ = r at hl
        obtain ⟨σ', l⟩ := r
        cases l with
        | next s adv =>
          simp only at hl ⊢
          split
          · split
            · simp only [addFault_state]
              exact ⟨Or.inl hl, fun h => by simp at h⟩
            · exact ⟨Or.inl hl, fun h => by simp at h⟩
          · exact ih _ _ _ (fun y hy => hb y (List.mem_of_mem_drop hy)) (Or.inl hl)
        | ret code st adv =>
          simp only at hl ⊢
          by_cases hc : code = "FAIL"
          · simp only [hc, if_true] at hl
            exact ⟨Or.inr hl, fun _ => hl⟩
          · simp only [hc, if_false] at hl
            exact ⟨Or.inl hl, fun h => absurd h hc⟩
        | yielded code st adv =>
          simp only at hl ⊢
          exact ⟨Or.inl hl, fun h => absurd h (yield_ne_fail code)⟩
      · have hfl : c.M.failLike σ.state := hft ▸ failLike_failTarget c.M
        simp only [RtCtx.feedFrom, call_failLike c.M c.semOpts σ.state b hfl, RtCtx.runTree]
        exact ⟨Or.inr hft, fun _ => hft⟩

/-- one call from a good state: the state stays good, and a FAIL leaves a failed parser -/
theorem apiStep_good (c : RtCtx) (hcl : c.M.failClosed c.semOpts = true)
    (hempty : c.emptyFails c.M.failTarget = true) (σ : CState) (op : ApiOp) (hb : op.bytesOK)
    (hg : c.Good σ.state) :
    c.Good (c.apiStep σ op).1.state ∧ ((c.apiStep σ op).2.1 = "FAIL" → c.Failed (c.apiStep σ op).1.state) := by
  cases op with
  | feed chunk pos =>
    simp only [RtCtx.apiStep, RtCtx.feed]
    split
    · refine ⟨hg, fun h => ?_⟩
      simp only at h ⊢
      by_cases he : c.emptyFails σ.state = true
      · rcases hg with hin | hft
        · refine ⟨?_, he⟩
          simp only [RtCtx.emptyFails, Bool.or_eq_true, Bool.and_eq_true, beq_iff_eq] at he
          simp only [Machine.inTable, Bool.and_eq_true, decide_eq_true_eq] at hin
          rcases he with he | he
          · simp only [Machine.isFailState, Bool.and_eq_true, decide_eq_true_eq, beq_iff_eq] at he
            exact Or.inr (Or.inr he.2)
          · have : σ.state.toNat = c.M.states.size := by rw [he.2]; simp
            omega
        · exact hft ▸ failed_failTarget c hempty
      · simp only [he, Bool.false_eq_true, if_false] at h
        exact absurd h (by decide)
    · have hb' : ∀ b ∈ chunk.drop pos, b < nSym := fun b hbm => hb b (List.mem_of_mem_drop hbm)
      obtain ⟨h1, h2⟩ := feedFrom_good c hcl ((chunk.drop pos).length + 2) σ (chunk.drop pos) pos hb' hg
      exact ⟨h1, fun h => (h2 h) ▸ failed_failTarget c hempty⟩
  | endInput =>
    simp only [RtCtx.apiStep, RtCtx.endCall]
    rcases hg with hin | hft
    · have hl := leaf_of_failClosed c hcl σ hin symEnd (by decide)
      generalize hr : c.runTree false (c.M.call c.semOpts σ.state symEnd) σ = r at hl
      obtain ⟨σ', l⟩ := r
      cases l with
      | next s adv =>
        simp only at hl ⊢
        exact ⟨Or.inl hl, fun h => by simp at h⟩
      | ret code st adv =>
        simp only at hl ⊢
        by_cases hc : code = "FAIL"
        · simp only [hc, if_true] at hl
          exact ⟨Or.inr hl, fun _ => hl ▸ failed_failTarget c hempty⟩
        · simp only [hc, if_false] at hl
          exact ⟨Or.inl hl, fun h => absurd h hc⟩
      | yielded code st adv =>
        simp only at hl ⊢
        exact ⟨Or.inl hl, fun h => absurd h (yield_ne_fail code)⟩
    · have hfl : c.M.failLike σ.state := hft ▸ failLike_failTarget c.M
      simp only [call_failLike c.M c.semOpts σ.state symEnd hfl, RtCtx.runTree]
      exact ⟨Or.inr hft, fun _ => hft ▸ failed_failTarget c hempty⟩

/-- a failed parser answers FAIL to every defined call and stays as it is -/
theorem apiStep_of_failed (c : RtCtx) (σ : CState) (hf : c.Failed σ.state) (op : ApiOp) (hd : op.defined c) :
    (c.apiStep σ op).2.1 = "FAIL" ∧ (c.apiStep σ op).1 = σ := by
  cases op with
  | feed chunk pos =>
    simp only [RtCtx.apiStep, RtCtx.feed]
    cases hrest : chunk.drop pos with
    | nil =>
      simp only [ApiOp.defined, hrest, ne_eq, not_true_eq_false, false_or] at hd
      simp [hd, hf.2]
    | cons b rest' =>
      simp only [List.isEmpty_cons, Bool.and_false, Bool.false_eq_true, if_false, List.length_cons]
      simp only [RtCtx.feedFrom, call_failLike c.M c.semOpts σ.state b hf.1, RtCtx.runTree]
      simp
  | endInput =>
    simp only [RtCtx.apiStep, RtCtx.endCall, call_failLike c.M c.semOpts σ.state symEnd hf.1, RtCtx.runTree]
    simp

/-- any sequence of defined calls keeps the state good -/
theorem runOps_good (c : RtCtx) (hcl : c.M.failClosed c.semOpts = true)
    (hempty : c.emptyFails c.M.failTarget = true) :
    ∀ (ops : List ApiOp) (σ : CState), (∀ op ∈ ops, op.bytesOK) → c.Good σ.state →
      c.Good (c.runOps σ ops).1.state := by
  intro ops
  induction ops with
  | nil => intro σ _ hg; exact hg
  | cons op rest ih =>
    intro σ hb hg
    simp only [RtCtx.runOps]
    exact ih _ (fun o ho => hb o (List.mem_cons_of_mem _ ho))
      (apiStep_good c hcl hempty σ op (hb op (by simp)) hg).1

/-- every later call of a failed parser answers FAIL -/
theorem runOps_of_failed (c : RtCtx) :
    ∀ (ops : List ApiOp) (σ : CState), c.Failed σ.state → (∀ op ∈ ops, op.defined c) →
      ∀ r ∈ (c.runOps σ ops).2, r.1 = "FAIL" := by
  intro ops
  induction ops with
  | nil => intro σ _ _ r hr; simp [RtCtx.runOps] at hr
  | cons op rest ih =>
    intro σ hf hd r hr
    obtain ⟨h1, h2⟩ := apiStep_of_failed c σ hf op (hd op (by simp))
    simp only [RtCtx.runOps, List.mem_cons] at hr
    rcases hr with hr | hr
    · rw [hr]; exact h1
    · rw [h2] at hr
      exact ih σ hf (fun o ho => hd o (List.mem_cons_of_mem _ ho)) r hr

/-- **FAIL is final.**  For a machine passing the two decidable checks: whatever defined calls a
    session has made from a good state (`before`), if the next call — a `feed` of any chunk from any
    cursor, or `end` — reports FAIL, then every call after it (`after`: any chunks, empty ones for
    parsers that accept them, `end` any number of times) reports FAIL. -/
theorem C10_fail_is_final (c : RtCtx) (hcl : c.M.failClosed c.semOpts = true)
    (hempty : c.emptyFails c.M.failTarget = true) (σ : CState) (hg : c.Good σ.state)
    (before : List ApiOp) (op : ApiOp) (after : List ApiOp)
    (hb : ∀ o ∈ before, o.bytesOK) (hbo : op.bytesOK) (hd : ∀ o ∈ after, o.defined c)
    (hfail : (c.apiStep (c.runOps σ before).1 op).2.1 = "FAIL") :
    ∀ r ∈ (c.runOps (c.apiStep (c.runOps σ before).1 op).1 after).2, r.1 = "FAIL" := by
  have hg' := runOps_good c hcl hempty before σ hb hg
  have hf := (apiStep_good c hcl hempty _ op hbo hg').2 hfail
  exact runOps_of_failed c after _ hf hd

/-- `start()` leaves a good state (machines passing `startClosed`) -/
theorem start_good (c : RtCtx) (hst : c.startClosed = true) (σ0 : CState) : c.Good (c.start σ0).1.state := by
  left
  simp only [RtCtx.start]
  rw [runTree_eq_run_nil]
  simp only
  have hmem := run_mem_paths (c.oracle true (c.initStore σ0)) c.startTree []
  simp only [RtCtx.startClosed, List.all_eq_true] at hst
  have hleaf := hst _ hmem
  generalize (c.startTree.run (c.oracle true (c.initStore σ0)) []).2 = leaf at hleaf ⊢
  cases leaf <;> simpa using hleaf

/-- **FAIL is final, for whole sessions**: `start()`, any calls, a call that reports FAIL — then
    every later call reports FAIL. -/
theorem C10_session_fail_is_final (c : RtCtx) (hst : c.startClosed = true)
    (hcl : c.M.failClosed c.semOpts = true) (hempty : c.emptyFails c.M.failTarget = true) (σ0 : CState)
    (before : List ApiOp) (op : ApiOp) (after : List ApiOp)
    (hb : ∀ o ∈ before, o.bytesOK) (hbo : op.bytesOK) (hd : ∀ o ∈ after, o.defined c)
    (hfail : (c.apiStep (c.runOps (c.start σ0).1 before).1 op).2.1 = "FAIL") :
    ∀ r ∈ (c.runOps (c.apiStep (c.runOps (c.start σ0).1 before).1 op).1 after).2, r.1 = "FAIL" :=
  C10_fail_is_final c hcl hempty (c.start σ0).1 (start_good c hst σ0) before op after hb hbo hd hfail

/-! ### Parsers that cannot fail

  A machine without a fail state and without `end()` has no way to report FAIL: stated for the
  machines passing `neverFailsOnBytes` (for which `emptyFails failTarget` need not hold: nothing
  ever leaves `failTarget` behind). -/

def ApiOp.isDataFeed : ApiOp → Prop
  | .feed chunk _ => ∀ b ∈ chunk, b < 256
  | .endInput => False

theorem isFailState_of_no_failIdx (M : Machine) (h : M.failIdx = none) (s : Int) : M.isFailState s = false := by
  unfold Machine.failIdx at h
  simp only [Option.map_eq_none_iff, List.find?_eq_none, List.mem_range] at h
  by_cases hin : 0 ≤ s ∧ s.toNat < M.states.size
  · have := h s.toNat hin.2
    simp only [Machine.isFailState, Machine.st]
    simp only [Bool.not_eq_true] at this
    rw [this]
    simp
  · simp only [Machine.isFailState]
    have : (decide (0 ≤ s) && decide (s.toNat < M.states.size)) = false := by
      simp only [Bool.and_eq_false_iff, decide_eq_false_iff_not]
      by_cases h0 : 0 ≤ s
      · right; exact fun h2 => hin ⟨h0, h2⟩
      · left; exact h0
    simp [this]

theorem leaf_never_fails (c : RtCtx) (hnf : c.M.neverFailsOnBytes c.semOpts = true) (σ : CState)
    (hin : c.M.inTable σ.state = true) (x : Nat) (hx : x < 256) :
    match (c.runTree false (c.M.call c.semOpts σ.state x) σ).2 with
    | .ret code _ _ => code ≠ "FAIL"
    | _ => True := by
  rw [runTree_eq_run_nil]
  simp only
  simp only [Machine.inTable, Bool.and_eq_true, decide_eq_true_eq] at hin
  have hmem := run_mem_paths (c.oracle false σ) (c.M.call c.semOpts σ.state x) []
  simp only [Machine.neverFailsOnBytes, List.all_eq_true, List.mem_range] at hnf
  have hcall := hnf σ.state.toNat hin.2 x hx
  have hst : ((σ.state.toNat : Nat) : Int) = σ.state := Int.toNat_of_nonneg hin.1
  rw [hst] at hcall
  have hleaf := hcall _ hmem
  generalize ((c.M.call c.semOpts σ.state x).run (c.oracle false σ) []).2 = leaf at hleaf ⊢
  cases leaf with
  | next st adv => trivial
  | yielded code st adv => trivial
  | ret code st adv => simpa using hleaf

theorem feedFrom_never_fails (c : RtCtx) (hcl : c.M.failClosed c.semOpts = true)
    (hnf : c.M.neverFailsOnBytes c.semOpts = true) :
    ∀ (fuel : Nat) (σ : CState) (rest : List Nat) (pos : Nat), (∀ b ∈ rest, b < 256) → c.M.inTable σ.state = true →
      c.M.inTable (c.feedFrom fuel σ rest pos).1.state = true ∧ (c.feedFrom fuel σ rest pos).2.1 ≠ "FAIL" := by
  intro fuel
  induction fuel with
  | zero =>
    intro σ rest pos _ hin
    simp only [RtCtx.feedFrom, addFault_state]
    exact ⟨hin, by simp⟩
  | succ fuel ih =>
    intro σ rest pos hb hin
    cases rest with
    | nil =>
      simp only [RtCtx.feedFrom, addFault_state]
      exact ⟨hin, by simp⟩
    | cons b rest' =>
      have hbb : b < 256 := hb b (by simp)
      have hl := leaf_of_failClosed c hcl σ hin b (by unfold nSym; omega)
      have hn := leaf_never_fails c hnf σ hin b hbb
      simp only [RtCtx.feedFrom]
      generalize hr : c.runTree false (c.M.call c.semOpts σ.state b) σ = r at hl hn
      obtain ⟨σ', l⟩ := r
      cases l with
      | next s adv =>
        simp only at hl ⊢
        split
        · split
          · simp only [addFault_state]
            exact ⟨hl, by simp⟩
          · exact ⟨hl, by simp⟩
        · exact ih _ _ _ (fun y hy => hb y (List.mem_of_mem_drop hy)) hl
      | ret code st adv =>
        simp only at hl hn ⊢
        simp only [hn, if_false] at hl
        exact ⟨hl, hn⟩
      | yielded code st adv =>
        simp only at hl ⊢
        exact ⟨hl, yield_ne_fail code⟩

/-- **A parser that cannot fail never reports FAIL**: no fail state in the table, no call on a data
    byte with a FAIL leaf — then no sequence of `feed` calls (any chunks, empty ones included) from a
    state of the table ever answers FAIL. -/
theorem C10_cannot_fail (c : RtCtx) (hcl : c.M.failClosed c.semOpts = true)
    (hnf : c.M.neverFailsOnBytes c.semOpts = true) (hno : c.M.failIdx = none) :
    ∀ (ops : List ApiOp) (σ : CState), (∀ op ∈ ops, op.isDataFeed) → c.M.inTable σ.state = true →
      ∀ r ∈ (c.runOps σ ops).2, r.1 ≠ "FAIL" := by
  intro ops
  induction ops with
  | nil => intro σ _ _ r hr; simp [RtCtx.runOps] at hr
  | cons op rest ih =>
    intro σ hd hin r hr
    have hop := hd op (by simp)
    cases op with
    | endInput => exact absurd hop (by simp [ApiOp.isDataFeed])
    | feed chunk pos =>
      simp only [ApiOp.isDataFeed] at hop
      have hstep : c.M.inTable (c.apiStep σ (.feed chunk pos)).1.state = true ∧ (c.apiStep σ (.feed chunk pos)).2.1 ≠ "FAIL" := by
        simp only [RtCtx.apiStep, RtCtx.feed]
        split
        · refine ⟨hin, ?_⟩
          have hin' := hin
          simp only [Machine.inTable, Bool.and_eq_true, decide_eq_true_eq] at hin'
          have hne : ¬ σ.state = (c.M.states.size : Int) := by
            intro e
            have : σ.state.toNat = c.M.states.size := by rw [e]; simp
            omega
          simp [RtCtx.emptyFails, isFailState_of_no_failIdx c.M hno, hne]
        · exact feedFrom_never_fails c hcl hnf _ σ _ pos (fun b hbm => hop b (List.mem_of_mem_drop hbm)) hin
      simp only [RtCtx.runOps, List.mem_cons] at hr
      rcases hr with hr | hr
      · rw [hr]; exact hstep.2
      · exact ih _ (fun o ho => hd o (List.mem_cons_of_mem _ ho)) hstep.1 r hr

end Nmfu
