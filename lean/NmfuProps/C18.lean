/-
  C18 — the compiler always terminates with code or a diagnosed error (the part a model carries).

  Whole-compiler totality is explored by harness/check_C18.py (edge-case generation with
  wall-clock limits); the Lean side states totality, with the outcome class explicit, of the
  front-end functions that are modelled, and re-checks the generated graph of the integer-type
  selection:
  * `C18_convertString_diagnoses`: the string-literal reader fails only on a trailing backslash,
    an incomplete / non-hexadecimal `\x`, `\u`, or an unknown escape (the cases nmfu now reports
    as parse errors), and succeeds on everything else — for every character sequence;
  * `C18_int_types_total`: every (signedness, size) pair the grammar can express selects a C type
    (no exception), on the graph regenerated from `_integer_containing`;
  * `C18_literals_total`: character constants of one character or one escaped character always
    convert.
-/
import NmfuProps.C15
import NmfuModel.Generated.IntTypes
namespace Nmfu

/-- Does the sequence contain an escape the reader rejects? (mirror of the error cases) -/
def badEscape : List Nat → Bool
  | [] => false
  | 92 :: 120 :: h :: l :: rest => (hexVal? h).isNone || (hexVal? l).isNone || badEscape rest
  | 92 :: c :: rest => c = 120 || c = 117 || (simpleEscape? c).isNone || badEscape rest
  | [92] => true
  | _ :: rest => badEscape rest

theorem C18_convertString_diagnoses : ∀ (s : List Nat), (convertString s).isNone = badEscape s := by
  intro s
  induction s using convertString.induct <;> simp_all [convertString, badEscape]
  · next h l rest hn ih =>
    cases ha : hexVal? h with
    | none => simp
    | some a =>
      cases hb : hexVal? l with
      | none => simp
      | some b =>
        right
        cases hr : convertString rest with
        | none => rw [← ih, hr]; rfl
        | some r => exact absurd hr (hn a b r ha hb)
  · next c rest hne hn ih =>
    cases hv : simpleEscape? c with
    | none => simp
    | some v =>
      right
      cases hr : convertString rest with
      | none => rw [← ih, hr]; rfl
      | some r => exact absurd hr (hn v r hv)

/-- Every size the grammar can express selects a C integer type. -/
theorem C18_int_types_total :
    (∀ r ∈ Gen.intTypeByWidth, r.2.2.isSome = true) ∧ (∀ r ∈ Gen.intTypeByMax, r.2.2.isSome = true) := by
  decide

theorem C18_literals_total : ∀ c, c < 256 → (convertCharConst [c]).isSome ∧ (convertCharConst [92, c]).isSome := by
  decide +kernel

end Nmfu
