/-
  C06, the test emitted for one transition: `condChecks` (NmfuModel/CondGen.lean) mirrors
  `CodegenCtx._generate_condition_for_transition` (range collapsing included) and is compared with the real function
  on generated value sets × collapsed-range lengths by check_C06 (`condgen`).  The theorem: the emitted disjunction is
  membership in the transition's value list, for every list, every length, flag on or off.
-/
import NmfuModel.CondGen
namespace Nmfu

theorem runsAux_covers (x : Nat) : ∀ (r : List Nat) (lo len : Nat),
    (∃ p ∈ runsAux lo len r, p.1 ≤ x ∧ x < p.1 + p.2) ↔ ((lo ≤ x ∧ x < lo + len) ∨ x ∈ r) := by
  intro r
  induction r with
  | nil => intro lo len; simp [runsAux]
  | cons v r ih =>
    intro lo len
    simp only [runsAux]
    split
    · rename_i hv
      rw [ih lo (len + 1)]
      simp only [List.mem_cons]
      constructor
      · rintro (⟨h1, h2⟩ | h)
        · by_cases hx : x = v
          · exact Or.inr (Or.inl hx)
          · exact Or.inl ⟨h1, by omega⟩
        · exact Or.inr (Or.inr h)
      · rintro (⟨h1, h2⟩ | h | h)
        · exact Or.inl ⟨h1, by omega⟩
        · exact Or.inl ⟨by omega, by omega⟩
        · exact Or.inr h
    · simp only [List.mem_cons, exists_eq_or_imp]
      rw [ih v 1]
      constructor
      · rintro (h | ⟨h1, h2⟩ | h)
        · exact Or.inl h
        · exact Or.inr (Or.inl (by omega))
        · exact Or.inr (Or.inr h)
      · rintro (h | h | h)
        · exact Or.inl h
        · exact Or.inr (Or.inl ⟨by omega, by omega⟩)
        · exact Or.inr (Or.inr h)

theorem runs_covers (x : Nat) (l : List Nat) : (∃ p ∈ runs l, p.1 ≤ x ∧ x < p.1 + p.2) ↔ x ∈ l := by
  cases l with
  | nil => simp [runs]
  | cons v r =>
    simp only [runs, runsAux_covers, List.mem_cons]
    constructor
    · rintro (⟨h1, h2⟩ | h)
      · exact Or.inl (by omega)
      · exact Or.inr h
    · rintro (h | h)
      · exact Or.inl ⟨by omega, by omega⟩
      · exact Or.inr h

theorem runChecks_test (L : Nat) (p : Nat × Nat) (x : Nat) (hp : 0 < p.2) :
    (runChecks L p).any (Chk.test x) = (decide (p.1 ≤ x) && decide (x < p.1 + p.2)) := by
  unfold runChecks
  split
  · simp only [List.any_cons, List.any_nil, Bool.or_false, Chk.test]
    congr 1
    simp only [decide_eq_decide]; omega
  · rw [Bool.eq_iff_iff]
    simp only [List.any_eq_true, List.mem_map, List.mem_range, Bool.and_eq_true, decide_eq_true_eq]
    constructor
    · rintro ⟨c, ⟨k, hk, rfl⟩, ht⟩
      simp only [Chk.test, beq_iff_eq] at ht
      omega
    · rintro ⟨h1, h2⟩
      exact ⟨.eq (p.1 + (x - p.1)), ⟨x - p.1, by omega, rfl⟩, by simp [Chk.test]; omega⟩

theorem runsAux_pos : ∀ (r : List Nat) (lo len : Nat), 0 < len → ∀ p ∈ runsAux lo len r, 0 < p.2 := by
  intro r
  induction r with
  | nil => intro lo len h p hp; simp [runsAux] at hp; subst hp; exact h
  | cons v r ih =>
    intro lo len h p hp
    simp only [runsAux] at hp
    split at hp
    · exact ih lo (len + 1) (by omega) p hp
    · rcases List.mem_cons.mp hp with rfl | hp
      · exact h
      · exact ih v 1 (by omega) p hp

theorem runs_pos (l : List Nat) : ∀ p ∈ runs l, 0 < p.2 := by
  cases l with
  | nil => simp [runs]
  | cons v r => exact runsAux_pos r v 1 (by omega)

/-- **The emitted test is membership in the transition's value list** — for every list of values (sorted or not,
    duplicates or not), every collapsed-range length, the flag on or off: the disjunction of range and equality tests
    holds of a byte exactly when the transition lists it. -/
theorem C06_condition_is_membership (enabled : Bool) (L : Nat) (hasEnd : Bool) (vals : List Nat) (x : Nat) :
    condTest (condChecks enabled L hasEnd vals) x = decide (x ∈ vals) := by
  unfold condTest condChecks
  by_cases hc : (enabled && decide (vals.length + (if hasEnd then 1 else 0) ≥ L)) = true
  · rw [if_pos hc, Bool.eq_iff_iff]
    simp only [List.any_eq_true, List.mem_flatMap, decide_eq_true_eq]
    constructor
    · rintro ⟨c, ⟨p, hp, hc⟩, ht⟩
      have hpos := runs_pos _ p hp
      have : (runChecks L p).any (Chk.test x) = true := List.any_eq_true.mpr ⟨c, hc, ht⟩
      rw [runChecks_test L p x hpos] at this
      simp only [Bool.and_eq_true, decide_eq_true_eq] at this
      have := (runs_covers x _).mp ⟨p, hp, this⟩
      exact List.mem_mergeSort.mp this
    · intro hx
      have hm : x ∈ vals.mergeSort (fun a b => decide (a ≤ b)) := List.mem_mergeSort.mpr hx
      obtain ⟨p, hp, h1, h2⟩ := (runs_covers x (vals.mergeSort (fun a b => decide (a ≤ b)))).mpr hm
      have hpos := runs_pos _ p hp
      have ht : (runChecks L p).any (Chk.test x) = true := by
        rw [runChecks_test L p x hpos]; simp [h1, h2]
      obtain ⟨c, hc, hct⟩ := List.any_eq_true.mp ht
      exact ⟨c, ⟨p, hp, hc⟩, hct⟩
  · rw [if_neg hc, Bool.eq_iff_iff]
    simp only [List.any_eq_true, List.mem_map, decide_eq_true_eq]
    constructor
    · rintro ⟨c, ⟨v, hv, rfl⟩, ht⟩
      simp only [Chk.test, beq_iff_eq] at ht
      subst ht; exact hv
    · intro hx
      exact ⟨.eq x, ⟨x, hx, rfl⟩, by simp [Chk.test]⟩

end Nmfu
