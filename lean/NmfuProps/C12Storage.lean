/-
  C12 — where strings live never changes what is parsed (refinement to a storage-free store).

  `CState.abs` forgets everything about a store that depends on the storage options: the
  allocation state of each buffer, the bytes at and beyond its length counter, the rendering of the
  log.  What is left is what a user of the generated parser can observe through the state struct:
  the state number, the scalar outputs, and for each string / raw output its length and its bytes
  below the length.  `applyA` / `runTreeA` / `feedFromA` … are the semantics on such abstract
  stores; they mention neither `dynamic` nor `onDemand` nor `deleteFrees`.

  Refinement theorems: for a machine passing `safeCheck` (C03) whose index expressions `s[i]` are
  bounds-checked (the default: the check is against the current length, so only bytes below the
  length are ever read) or absent (`idxFreeCheck`; with `-funsafe-string-indexing` an index at or
  beyond the length reads stale or uninitialised bytes, which do depend on where the buffer lives),
  from a store satisfying the C03 invariant, every API call of the
  concrete model — `start`, `feed` on any chunk from any position, `end` — returns the code and
  cursor the abstract call returns and leaves a store whose abstraction is the abstract result.
  Storage independence is the corollary: two option sets that differ only in the storage options
  refine the same abstract run.
-/
import NmfuProps.C03
import NmfuProps.C12
namespace Nmfu

/-! ### Expressions see the buffers only below their length (or not at all) -/

/-- an expression the storage-free semantics can evaluate: no index read, or bounds-checked ones -/
def exprOK (unsafeIdx : Bool) (e : IExpr) : Bool := e.idxFree || !unsafeIdx

theorem exprOK_bin (u : Bool) (op : BinOp) (f : Bool) (l r : IExpr) (h : exprOK u (.bin op f l r) = true) :
    exprOK u l = true ∧ exprOK u r = true := by
  simp only [exprOK, IExpr.idxFree, Bool.or_eq_true, Bool.and_eq_true, Bool.not_eq_true'] at h ⊢
  rcases h with h | h
  · exact ⟨Or.inl h.1, Or.inl h.2⟩
  · exact ⟨Or.inr h, Or.inr h⟩

theorem exprOK_idx (u : Bool) (i : Nat) (e : IExpr) (h : exprOK u (.idx i e) = true) :
    u = false ∧ exprOK u e = true := by
  simp only [exprOK, IExpr.idxFree, Bool.false_or, Bool.not_eq_true', Bool.or_eq_true] at h ⊢
  exact ⟨h, Or.inr h⟩

/-- Two environments that agree on scalars, lengths, `$last`, the indexing mode, and on the bytes
    below each length evaluate alike every expression that has no index read or whose index reads are
    bounds-checked. -/
theorem eval_agree (ρ1 ρ2 : Env) (ho : ρ1.outVal = ρ2.outVal) (hl : ρ1.lenVal = ρ2.lenVal)
    (hla : ρ1.last = ρ2.last) (hu : ρ1.unsafeIdx = ρ2.unsafeIdx)
    (hb : ∀ i (k : Int), 0 ≤ k → k < (ρ1.lenVal i).v → ρ1.byteAt i k.toNat = ρ2.byteAt i k.toNat) :
    ∀ e : IExpr, exprOK ρ1.unsafeIdx e = true → eval ρ1 e = eval ρ2 e := by
  intro e
  induction e with
  | lit v => intro _; rfl
  | litB b => intro _; rfl
  | litE n v => intro _; rfl
  | out i => intro _; simp [eval, ho]
  | len i => intro _; simp [eval, hl]
  | last => intro _; simp [eval, hla]
  | idx i e ih =>
    intro h
    obtain ⟨hu1, he⟩ := exprOK_idx _ i e h
    have hu2 : ρ2.unsafeIdx = false := by rw [← hu]; exact hu1
    simp only [eval, ih he, hu1, hu2, Bool.false_eq_true, if_false]
    cases hev : eval ρ2 e with
    | none => rfl
    | some iv =>
      simp only
      rw [← hl]
      by_cases hc : (decide (0 ≤ (CTy.usual iv.ty CTy.i32).wrap iv.v) &&
          decide ((CTy.usual iv.ty CTy.i32).wrap iv.v < (ρ1.lenVal i).v)) = true
      · rw [if_pos hc, if_pos hc]
        simp only [Bool.and_eq_true, decide_eq_true_eq] at hc
        rw [hb i _ hc.1 hc.2]
      · rw [if_neg hc, if_neg hc]
  | bin op f l r ihl ihr =>
    intro h
    obtain ⟨h1, h2⟩ := exprOK_bin _ op f l r h
    cases op <;> simp only [eval, ihl h1, ihr h2]

/-! ### The abstraction -/

/-- the bytes below the length counter -/
def StrBuf.content (b : StrBuf) : List (Option Nat) :=
  (List.range b.counter).map fun k => b.bytes.getD k none

structure Abs where
  state : Int
  scalars : Array Int
  fault : Option String
  nstr : Nat
  content : Nat → List (Option Nat)

def CState.abs (σ : CState) : Abs :=
  ⟨σ.state, σ.scalars, σ.fault, σ.strs.size, fun i => (σ.str i).content⟩

theorem Abs.ext' {a b : Abs} (h1 : a.state = b.state) (h2 : a.scalars = b.scalars)
    (h3 : a.fault = b.fault) (h4 : a.nstr = b.nstr) (h5 : ∀ j, a.content j = b.content j) : a = b := by
  cases a; cases b
  simp only [Abs.mk.injEq]
  exact ⟨h1, h2, h3, h4, funext h5⟩

def Abs.addFault (a : Abs) (m : String) : Abs :=
  if a.fault.isSome then a else { a with fault := some m }

def Abs.setContent (a : Abs) (i : Nat) (l : List (Option Nat)) : Abs :=
  { a with content := fun j => if j = i ∧ i < a.nstr then l else a.content j }

/-- what expressions can read of an abstract store (bytes below the length only) -/
def RtCtx.envA (c : RtCtx) (a : Abs) (inval : Nat) : Env where
  outVal := fun i => ⟨(c.ty i).cty c.ro.u8 c.ro.packed, a.scalars.getD i 0⟩
  lenVal := fun i => ⟨counterTy (c.ty i), (a.content i).length⟩
  size := fun i => (c.ty i).size
  byteAt := fun i k =>
    match (a.content i)[k]? with
    | some (some v) => some ⟨CTy.u8, v % 256⟩
    | _ => none
  last := ⟨CTy.u8, inval⟩
  unsafeIdx := c.ro.unsafeIdx

theorem content_length (b : StrBuf) : b.content.length = b.counter := by
  simp [StrBuf.content]

theorem content_getElem? (b : StrBuf) (k : Nat) (hk : k < b.counter) :
    b.content[k]? = some (b.bytes.getD k none) := by
  simp [StrBuf.content, hk]

/-- below the length, the abstract store shows the byte the concrete buffer holds -/
theorem byteAt_abs (c : RtCtx) (σ : CState) (h : Inv c σ) (i : Nat) (k : Int) (h0 : 0 ≤ k)
    (hk : k < ((c.env σ 0).lenVal i).v) :
    (c.env σ 0).byteAt i k.toNat = (c.envA σ.abs 0).byteAt i k.toNat := by
  have hk' : k.toNat < (σ.str i).counter := by
    have : ((c.env σ 0).lenVal i).v = ((σ.str i).counter : Int) := rfl
    rw [this] at hk
    omega
  have hb := h.2 i
  have hcont : ((σ.abs).content i)[k.toNat]? = some ((σ.str i).bytes.getD k.toNat none) :=
    content_getElem? (σ.str i) k.toNat hk'
  simp only [RtCtx.env, RtCtx.envA, hcont]
  cases ha : (σ.str i).alloc with
  | null => have := hb.2.2.2.2 ha; omega
  | freed => exact absurd ha hb.2.2.2.1
  | inStruct => simp only; cases (σ.str i).bytes.getD k.toNat none <;> rfl
  | heap => simp only; cases (σ.str i).bytes.getD k.toNat none <;> rfl

theorem eval_abs (c : RtCtx) (σ : CState) (hinv : Inv c σ) (e : IExpr) (h : exprOK c.ro.unsafeIdx e = true) :
    eval (c.env σ 0) e = eval (c.envA σ.abs 0) e := by
  apply eval_agree _ _ _ _ _ _ _ e h
  · rfl
  · funext i; simp [RtCtx.env, RtCtx.envA, CState.abs, content_length]
  · rfl
  · rfl
  · intro i k h0 hk; exact byteAt_abs c σ hinv i k h0 hk

/-- The abstract effect of an action event. -/
def RtCtx.applyA (c : RtCtx) (a : Abs) : AEv → Abs
  | .set i e =>
      match eval (c.envA a 0) e with
      | none => a.addFault "undefined behaviour in expression"
      | some v => { a with scalars := a.scalars.setIfInBounds i (((c.ty i).cty c.ro.u8 c.ro.packed).wrap v.v) }
  | .append i byte => a.setContent i (a.content i ++ [some (byte.getD 0 % 256)])
  | .appendC i e =>
      match eval (c.envA a 0) e with
      | none => a.addFault "undefined behaviour in expression"
      | some v => a.setContent i (a.content i ++ [some ((CTy.u8.wrap v.v).toNat % 256)])
  | .setStr i bs => a.setContent i (bs.map fun v => some (v % 256))
  | .delete i => a.setContent i []
  | _ => a

def RtCtx.answerA (c : RtCtx) (a : Abs) : Quest → Option Bool
  | .cond e =>
      match eval (c.envA a 0) e with
      | none => none
      | some v => some (v.v ≠ 0)
  | .full i => some ((a.content i).length == (c.ty i).cap)

def RtCtx.applyEvA (c : RtCtx) (a : Abs) : MEv → Abs
  | .act ev => c.applyA a ev
  | .asked (.full _) _ => a
  | .asked (.cond e) _ =>
      match c.answerA a (.cond e) with
      | none => a.addFault "undefined behaviour in condition"
      | some _ => a

def RtCtx.runTreeA (c : RtCtx) : CTree → Abs → Abs × MLeaf
  | .emit ev k, a => c.runTreeA k (c.applyEvA a (.act ev))
  | .ask q kt kf, a =>
      if c.answerA a q == some true then c.runTreeA kt (c.applyEvA a (.asked q true))
      else c.runTreeA kf (c.applyEvA a (.asked q false))
  | .leaf l, a => (a, l)

/-! ### Plumbing: updating one buffer of a store -/

def CState.updStr (σ : CState) (i : Nat) (f : StrBuf → StrBuf) : CState := σ.setStr i (f (σ.str i))

theorem setStr_setStr (σ : CState) (i : Nat) (x y : StrBuf) : (σ.setStr i x).setStr i y = σ.setStr i y := by
  simp [CState.setStr]

theorem setStr_str_self (σ : CState) (i : Nat) : σ.setStr i (σ.str i) = σ := by
  cases σ with
  | mk st sc strs fa mf lg =>
    simp only [CState.setStr, CState.str, CState.mk.injEq, true_and, and_true]
    apply Array.ext_getElem?
    intro j
    rw [Array.getElem?_setIfInBounds]
    split
    · next h =>
      subst h
      simp only [Array.getD_eq_getD_getElem?]
      by_cases hi : i < strs.size
      · simp [hi]
      · simp [hi, Array.getElem?_eq_none (by omega : strs.size ≤ i)]
    · rfl

theorem str_updStr_self (σ : CState) (i : Nat) (f : StrBuf → StrBuf) (hi : i < σ.strs.size) :
    (σ.updStr i f).str i = f (σ.str i) := by
  rw [CState.updStr, str_setStr]; simp [hi]

theorem updStr_size (σ : CState) (i : Nat) (f : StrBuf → StrBuf) : (σ.updStr i f).strs.size = σ.strs.size := by
  simp [CState.updStr, CState.setStr]

theorem updStr_updStr (σ : CState) (i : Nat) (f g : StrBuf → StrBuf) (hi : i < σ.strs.size) :
    (σ.updStr i f).updStr i g = σ.updStr i (fun b => g (f b)) := by
  have := str_updStr_self σ i f hi
  simp only [CState.updStr] at this ⊢
  rw [this, setStr_setStr]

theorem updStr_id (σ : CState) (i : Nat) : σ.updStr i (fun b => b) = σ := setStr_str_self σ i

theorem abs_updStr (σ : CState) (i : Nat) (f : StrBuf → StrBuf) :
    (σ.updStr i f).abs = σ.abs.setContent i (f (σ.str i)).content := by
  apply Abs.ext'
  · rfl
  · rfl
  · rfl
  · simp [CState.abs, Abs.setContent, CState.updStr, CState.setStr]
  · intro j
    show ((σ.setStr i (f (σ.str i))).str j).content
      = if j = i ∧ i < σ.strs.size then (f (σ.str i)).content else (σ.str j).content
    rw [str_setStr]
    by_cases h : j = i ∧ i < σ.strs.size
    · rw [if_pos h, if_pos h]
    · rw [if_neg h, if_neg h]

theorem abs_addFault (σ : CState) (m : String) : (σ.addFault m).abs = σ.abs.addFault m := by
  simp only [CState.addFault, Abs.addFault]
  split
  · next h => simp [CState.abs, h]
  · next h => simp [CState.abs, h]; rfl

/-! ### Pure buffer operations -/

def allocB (c : RtCtx) (i : Nat) (b : StrBuf) : StrBuf :=
  if c.realloc i && b.alloc == .null then
    { b with alloc := .heap, bytes := Array.replicate (c.ty i).size none }
  else b

def writeB (k v : Nat) (b : StrBuf) : StrBuf := { b with bytes := b.bytes.setIfInBounds k (some (v % 256)) }
def counterB (n : Nat) (b : StrBuf) : StrBuf := { b with counter := n }

theorem onDemandAlloc_updStr (c : RtCtx) (σ : CState) (i : Nat) :
    c.onDemandAlloc σ i = σ.updStr i (allocB c i) := by
  simp only [RtCtx.onDemandAlloc, CState.updStr, allocB]
  by_cases h1 : c.realloc i = true
  · by_cases h2 : ((σ.str i).alloc == Alloc.null) = true
    · simp [h1, h2]
    · simp [h1, h2, setStr_str_self]
  · simp [h1, setStr_str_self]

theorem writeByte_updStr (c : RtCtx) (σ : CState) (i k v : Nat)
    (hw : (σ.str i).writable = true) (hk : k < (σ.str i).bytes.size) :
    c.writeByte σ i k v = σ.updStr i (writeB k v) := by
  have hk' : ¬ (k ≥ (σ.str i).bytes.size) := by omega
  simp only [RtCtx.writeByte, hw, Bool.not_true, Bool.false_eq_true, if_false, hk', CState.updStr, writeB]

/-- content of a buffer after a byte was stored at its counter and the counter moved on -/
theorem content_store (b : StrBuf) (v : Nat) (bytes' : Array (Option Nat))
    (hlt : b.counter < b.bytes.size)
    (hb : ∀ k, k ≤ b.counter → bytes'.getD k none = (b.bytes.setIfInBounds b.counter (some v)).getD k none) (al : Alloc) :
    ({ bytes := bytes', counter := b.counter + 1, alloc := al } : StrBuf).content = b.content ++ [some v] := by
  simp only [StrBuf.content, List.range_succ, List.map_append, List.map_cons, List.map_nil]
  congr 1
  · apply List.map_congr_left
    intro k hk
    have hk' := List.mem_range.1 hk
    rw [hb k (by omega)]
    simp only [Array.getD_eq_getD_getElem?, Array.getElem?_setIfInBounds]
    have : ¬ (b.counter = k) := by omega
    simp [this]
  · rw [hb _ (Nat.le_refl _)]
    simp [Array.getD_eq_getD_getElem?, Array.getElem?_setIfInBounds, hlt]

def storeB (nt : Bool) (v : Nat) (b : StrBuf) : StrBuf :=
  let b2 := counterB (b.counter + 1) (writeB b.counter v b)
  if nt then writeB (b.counter + 1) 0 b2 else b2

theorem content_storeB (nt : Bool) (v : Nat) (b : StrBuf) (hlt : b.counter < b.bytes.size) :
    (storeB nt v b).content = b.content ++ [some (v % 256)] := by
  cases nt
  · exact content_store b (v % 256) _ hlt (fun k _ => rfl) _
  · refine content_store b (v % 256) _ hlt (fun k hk => ?_) _
    simp only [Array.getD_eq_getD_getElem?]
    rw [Array.getElem?_setIfInBounds]
    have : ¬ (b.counter + 1 = k) := by omega
    simp only [this, if_false]
    rfl

theorem content_allocB (c : RtCtx) (i : Nat) (b : StrBuf) (h0 : b.alloc = .null → b.counter = 0) :
    (allocB c i b).content = b.content := by
  simp only [allocB]
  split
  · next h =>
    simp only [Bool.and_eq_true, beq_iff_eq] at h
    simp [StrBuf.content, h0 h.2]
  · rfl

theorem idx_lt_of_size_pos (c : RtCtx) (σ : CState) (i : Nat) (h : Inv c σ) (hpos : 0 < (c.ty i).size) :
    i < σ.strs.size := by
  rcases Nat.lt_or_ge i σ.strs.size with hlt | hge
  · exact hlt
  · have hd := str_default_of_ge σ i (by omega)
    have hb := (h.2 i).2.1
    rw [hd] at hb
    have : (default : StrBuf).bytes.size = (c.ty i).size := hb rfl
    have h0 : (default : StrBuf).bytes.size = 0 := rfl
    omega

/-- The store-one-byte sequence of the append templates is an update of buffer `i` alone. -/
theorem store_updStr (c : RtCtx) (hs : c.SizesOK) (σ : CState) (i v : Nat) (h : Inv c σ)
    (hw : (σ.str i).writable = true) (hroom : (σ.str i).counter < (c.ty i).cap) :
    let b := σ.str i
    let σ1 := c.writeByte σ i b.counter v
    let σ2 := σ1.setStr i { σ1.str i with counter := b.counter + 1 }
    let σ3 := if (c.ty i).nullTerm then c.writeByte σ2 i (b.counter + 1) 0 else σ2
    σ3 = σ.updStr i (storeB (c.ty i).nullTerm v) := by
  intro b σ1 σ2 σ3
  have hsz := hs i
  have hbs : b.bytes.size = (c.ty i).size := (h.2 i).2.1 hw
  have hroom' : b.counter < (c.ty i).cap := hroom
  have hi : i < σ.strs.size := idx_lt_of_size_pos c σ i h (by omega)
  have e1 : σ1 = σ.updStr i (writeB b.counter v) :=
    writeByte_updStr c σ i b.counter v hw (by show b.counter < b.bytes.size; omega)
  have e2 : σ2 = σ.updStr i (fun x => counterB (b.counter + 1) (writeB b.counter v x)) := by
    show σ1.updStr i (counterB (b.counter + 1)) = _
    rw [e1, updStr_updStr _ _ _ _ hi]
  have hstr2 : σ2.str i = counterB (b.counter + 1) (writeB b.counter v b) := by
    rw [e2, str_updStr_self _ _ _ hi]
  show (if (c.ty i).nullTerm then c.writeByte σ2 i (b.counter + 1) 0 else σ2) = _
  by_cases hnt : (c.ty i).nullTerm = true
  · rw [if_pos hnt]
    have hlt := hsz.2 hnt
    rw [writeByte_updStr c σ2 i (b.counter + 1) 0 (by rw [hstr2]; exact hw)
      (by rw [hstr2]; simp only [counterB, writeB, Array.size_setIfInBounds]; omega)]
    rw [e2, updStr_updStr _ _ _ _ hi]
    simp only [storeB, hnt, if_true]
    rfl
  · rw [if_neg hnt, e2]
    have : (c.ty i).nullTerm = false := by simpa using hnt
    simp only [storeB, this]
    rfl

theorem Abs.setContent_self (a : Abs) (i : Nat) : a.setContent i (a.content i) = a := by
  apply Abs.ext' <;> try rfl
  intro j
  simp only [Abs.setContent]
  split
  · next h => rw [h.1]
  · rfl

theorem abs_onDemandAlloc (c : RtCtx) (σ : CState) (i : Nat) (h : Inv c σ) :
    (c.onDemandAlloc σ i).abs = σ.abs := by
  rw [onDemandAlloc_updStr, abs_updStr, content_allocB c i _ (h.2 i).2.2.2.2]
  exact Abs.setContent_self _ _

theorem abs_apply_append (c : RtCtx) (hs : c.SizesOK) (σ : CState) (isStart : Bool) (i : Nat)
    (byte : Option Nat) (h : Inv c σ) (hroom : (σ.str i).counter < (c.ty i).cap) :
    (c.apply σ isStart (.append i byte)).abs = c.applyA σ.abs (.append i byte) := by
  obtain ⟨h1, hc, hw⟩ := inv_onDemandAlloc c σ i h
  have hi : i < σ.strs.size := idx_lt_of_size_pos c σ i h (by have := (hs i).1; omega)
  have key := store_updStr c hs (c.onDemandAlloc σ i) i (byte.getD 0) h1 hw (by rw [hc]; exact hroom)
  have e : c.apply σ isStart (.append i byte)
      = (c.onDemandAlloc σ i).updStr i (storeB (c.ty i).nullTerm (byte.getD 0)) := by
    simpa [RtCtx.apply] using key
  have hsz : ((c.onDemandAlloc σ i).str i).bytes.size = (c.ty i).size := (h1.2 i).2.1 hw
  rw [e, abs_updStr, abs_onDemandAlloc c σ i h, content_storeB _ _ _ (by rw [hsz, hc]; have := (hs i).1; omega)]
  have hcont : ((c.onDemandAlloc σ i).str i).content = (σ.str i).content := by
    rw [onDemandAlloc_updStr, str_updStr_self _ _ _ hi]
    exact content_allocB c i _ (h.2 i).2.2.2.2
  rw [hcont]
  rfl

theorem abs_apply_appendC (c : RtCtx) (hs : c.SizesOK) (σ : CState) (isStart : Bool) (i : Nat)
    (e : IExpr) (he : exprOK c.ro.unsafeIdx e = true) (h : Inv c σ) (hroom : (σ.str i).counter < (c.ty i).cap) :
    (c.apply σ isStart (.appendC i e)).abs = c.applyA σ.abs (.appendC i e) := by
  obtain ⟨h1, hc, hw⟩ := inv_onDemandAlloc c σ i h
  have hi : i < σ.strs.size := idx_lt_of_size_pos c σ i h (by have := (hs i).1; omega)
  have hev : eval (c.env (c.onDemandAlloc σ i) 0) e = eval (c.envA σ.abs 0) e := by
    rw [eval_abs c _ h1 e he, abs_onDemandAlloc c σ i h]
  simp only [RtCtx.apply, RtCtx.applyA]
  rw [hev]
  cases hv : eval (c.envA σ.abs 0) e with
  | none =>
    simp only []
    rw [abs_addFault, abs_onDemandAlloc c σ i h]
  | some v =>
    simp only []
    have key := store_updStr c hs (c.onDemandAlloc σ i) i ((CTy.u8.wrap v.v).toNat) h1 hw (by rw [hc]; exact hroom)
    simp only [] at key
    rw [key]
    have hsz : ((c.onDemandAlloc σ i).str i).bytes.size = (c.ty i).size := (h1.2 i).2.1 hw
    rw [abs_updStr, abs_onDemandAlloc c σ i h, content_storeB _ _ _ (by rw [hsz, hc]; have := (hs i).1; omega)]
    have hcont : ((c.onDemandAlloc σ i).str i).content = (σ.str i).content := by
      rw [onDemandAlloc_updStr, str_updStr_self _ _ _ hi]
      exact content_allocB c i _ (h.2 i).2.2.2.2
    rw [hcont]
    rfl

theorem abs_apply_set (c : RtCtx) (σ : CState) (isStart : Bool) (i : Nat) (e : IExpr)
    (he : exprOK c.ro.unsafeIdx e = true) (h : Inv c σ) :
    (c.apply σ isStart (.set i e)).abs = c.applyA σ.abs (.set i e) := by
  simp only [RtCtx.apply, RtCtx.applyA]
  rw [eval_abs c σ h e he]
  cases eval (c.envA σ.abs 0) e with
  | none => simp only []; rw [abs_addFault]
  | some v => rfl

/-! ### String assignment -/

def allocS (c : RtCtx) (_isStart : Bool) (i : Nat) (b : StrBuf) : StrBuf := allocB c i b

theorem setStrAlloc_updStr (c : RtCtx) (σ : CState) (isStart : Bool) (i : Nat) :
    c.setStrAlloc σ isStart i = σ.updStr i (allocS c isStart i) :=
  onDemandAlloc_updStr c σ i

def fillB (vals : Nat → Nat) (ks : List Nat) (b : StrBuf) : StrBuf :=
  { b with bytes := ks.foldl (fun a k => a.setIfInBounds k (some (vals k % 256))) b.bytes }

theorem foldl_write_updStr (c : RtCtx) (i : Nat) (val : Nat → Nat) :
    ∀ (ks : List Nat) (σ : CState), i < σ.strs.size → (σ.str i).writable = true →
      (∀ k ∈ ks, k < (σ.str i).bytes.size) →
      ks.foldl (fun σ k => c.writeByte σ i k (val k)) σ = σ.updStr i (fillB val ks) := by
  intro ks
  induction ks with
  | nil => intro σ _ _ _; exact (updStr_id σ i).symm
  | cons k rest ih =>
    intro σ hi hw hk
    simp only [List.foldl_cons]
    rw [writeByte_updStr c σ i k (val k) hw (hk k (by simp))]
    have hs1 : (σ.updStr i (writeB k (val k))).str i = writeB k (val k) (σ.str i) := str_updStr_self _ _ _ hi
    rw [ih (σ.updStr i (writeB k (val k))) (by rw [updStr_size]; exact hi)
      (by rw [hs1]; exact hw)
      (by rw [hs1]; intro k' hk'; simp only [writeB, Array.size_setIfInBounds]; exact hk k' (List.mem_cons_of_mem _ hk'))]
    rw [updStr_updStr _ _ _ _ hi]
    rfl

theorem getD_foldl_range (g : Nat → Option Nat) :
    ∀ (n : Nat) (a : Array (Option Nat)) (j : Nat), j < n → n ≤ a.size →
      ((List.range n).foldl (fun a k => a.setIfInBounds k (g k)) a).getD j none = g j := by
  intro n
  induction n with
  | zero => intro a j hj; omega
  | succ n ih =>
    intro a j hj hn
    rw [List.range_succ, List.foldl_append]
    simp only [List.foldl_cons, List.foldl_nil, Array.getD_eq_getD_getElem?]
    rw [Array.getElem?_setIfInBounds]
    by_cases hjn : n = j
    · subst hjn
      have := foldl_setIfInBounds_size g (List.range n) a
      rw [if_pos rfl, if_pos (by rw [this]; omega)]
      rfl
    · simp only [hjn, if_false]
      have := ih a j (by omega) (by omega)
      simpa [Array.getD_eq_getD_getElem?] using this

theorem map_eq_range_map (bs : List Nat) (f : Nat → Option Nat) :
    (List.range bs.length).map (fun k => f (bs.getD k 0)) = bs.map f := by
  apply List.ext_getElem
  · simp
  · intro k h1 h2
    simp at h1
    simp [h1]

/-- content of a buffer whose first `n` bytes were filled and whose counter is `n` -/
theorem content_filled (bs : List Nat) (b : StrBuf) (bytes' : Array (Option Nat)) (al : Alloc)
    (hsz : bs.length ≤ b.bytes.size)
    (hb : ∀ k, k < bs.length → bytes'.getD k none = (fillB (fun k => bs.getD k 0) (List.range bs.length) b).bytes.getD k none) :
    ({ bytes := bytes', counter := bs.length, alloc := al } : StrBuf).content = bs.map fun v => some (v % 256) := by
  rw [← map_eq_range_map bs (fun v => some (v % 256))]
  simp only [StrBuf.content]
  apply List.map_congr_left
  intro k hk
  have hk' := List.mem_range.1 hk
  rw [hb k hk']
  exact getD_foldl_range (fun k => some (bs.getD k 0 % 256)) bs.length b.bytes k hk' hsz

theorem Abs.setContent_setContent (a : Abs) (i : Nat) (l l' : List (Option Nat)) :
    (a.setContent i l).setContent i l' = a.setContent i l' := by
  apply Abs.ext' <;> try rfl
  intro j
  show (if j = i ∧ i < a.nstr then l' else (if j = i ∧ i < a.nstr then l else a.content j))
    = (if j = i ∧ i < a.nstr then l' else a.content j)
  by_cases h : j = i ∧ i < a.nstr
  · rw [if_pos h, if_pos h]
  · rw [if_neg h, if_neg h, if_neg h]

theorem Abs.setContent_of_ge (a : Abs) (i : Nat) (l : List (Option Nat)) (h : ¬ i < a.nstr) :
    a.setContent i l = a := by
  apply Abs.ext' <;> try rfl
  intro j
  simp only [Abs.setContent]
  rw [if_neg (fun hh => h hh.2)]

theorem abs_updStr_chain (σ σ' : CState) (i : Nat) (l : List (Option Nat)) (f : StrBuf → StrBuf)
    (h : σ'.abs = σ.abs.setContent i l) :
    (σ'.updStr i f).abs = σ.abs.setContent i (f (σ'.str i)).content := by
  rw [abs_updStr, h, Abs.setContent_setContent]

theorem updStr_of_ge (σ : CState) (i : Nat) (f : StrBuf → StrBuf) (h : ¬ i < σ.strs.size) :
    σ.updStr i f = σ := by
  cases σ with
  | mk st sc strs fa mf lg =>
    simp only [CState.updStr, CState.setStr, CState.mk.injEq, true_and, and_true]
    exact Array.setIfInBounds_eq_of_size_le (by simpa using h)

theorem size_zero_of_ge (c : RtCtx) (σ : CState) (i : Nat) (h : Inv c σ) (hi : ¬ i < σ.strs.size) :
    (c.ty i).size = 0 := by
  rcases Nat.eq_zero_or_pos (c.ty i).size with h0 | hpos
  · exact h0
  · exact absurd (idx_lt_of_size_pos c σ i h hpos) hi

theorem abs_apply_setStr (c : RtCtx) (hs : c.SizesOK) (σ : CState) (isStart : Bool) (i : Nat)
    (bs : List Nat) (h : Inv c σ) (hfit : bs.length ≤ (c.ty i).cap) :
    (c.apply σ isStart (.setStr i bs)).abs = c.applyA σ.abs (.setStr i bs) := by
  have hsz := hs i
  by_cases hi : i < σ.strs.size
  · obtain ⟨h1, hw1⟩ := inv_setStrAlloc c σ isStart i h
    have e1 : c.setStrAlloc σ isStart i = σ.updStr i (allocS c isStart i) := setStrAlloc_updStr c σ isStart i
    have hi1 : i < (c.setStrAlloc σ isStart i).strs.size := by rw [e1, updStr_size]; exact hi
    have hb1 : ((c.setStrAlloc σ isStart i).str i).bytes.size = (c.ty i).size := (h1.2 i).2.1 hw1
    have e2 := foldl_write_updStr c i (fun k => bs.getD k 0) (List.range bs.length) _ hi1 hw1
      (fun k hk => by have := List.mem_range.1 hk; omega)
    have a1 : (c.setStrAlloc σ isStart i).abs = σ.abs.setContent i (allocS c isStart i (σ.str i)).content := by
      rw [e1, abs_updStr]
    simp only [RtCtx.apply, RtCtx.applyA]
    rw [e2]
    -- the store after the fill
    have hi2 : i < ((c.setStrAlloc σ isStart i).updStr i (fillB (fun k => bs.getD k 0) (List.range bs.length))).strs.size := by
      rw [updStr_size]; exact hi1
    have hs2 := str_updStr_self (c.setStrAlloc σ isStart i) i (fillB (fun k => bs.getD k 0) (List.range bs.length)) hi1
    have a2 := abs_updStr_chain σ _ i _ (fillB (fun k => bs.getD k 0) (List.range bs.length)) a1
    have hfillsz : (fillB (fun k => bs.getD k 0) (List.range bs.length) ((c.setStrAlloc σ isStart i).str i)).bytes.size
        = (c.ty i).size := by
      simp only [fillB]; rw [foldl_setIfInBounds_size]; exact hb1
    by_cases hnt : (c.ty i).nullTerm = true
    · rw [if_pos hnt]
      have hlt := hsz.2 hnt
      rw [writeByte_updStr c _ i bs.length 0 (by rw [hs2]; exact hw1) (by rw [hs2, hfillsz]; omega)]
      have a3 := abs_updStr_chain σ _ i _ (writeB bs.length 0) a2
      have hs3 := str_updStr_self _ i (writeB bs.length 0) hi2
      show (CState.updStr _ i (counterB bs.length)).abs = _
      rw [abs_updStr_chain σ _ i _ (counterB bs.length) a3, hs3, hs2]
      congr 1
      refine content_filled bs ((c.setStrAlloc σ isStart i).str i) _ _ (by rw [hb1]; omega) (fun k hk => ?_)
      simp only [writeB, Array.getD_eq_getD_getElem?]
      rw [Array.getElem?_setIfInBounds]
      have : ¬ (bs.length = k) := by omega
      rw [if_neg this]
    · rw [if_neg hnt]
      show (CState.updStr _ i (counterB bs.length)).abs = _
      rw [abs_updStr_chain σ _ i _ (counterB bs.length) a2, hs2]
      congr 1
      exact content_filled bs ((c.setStrAlloc σ isStart i).str i) _ _ (by rw [hb1]; omega) (fun k _ => rfl)
  · have hz := size_zero_of_ge c σ i h hi
    have hnt : (c.ty i).nullTerm = false := by
      cases hn : (c.ty i).nullTerm with
      | false => rfl
      | true => have := hsz.2 hn; omega
    have hbs : bs = [] := List.eq_nil_of_length_eq_zero (by have := hsz.1; omega)
    subst hbs
    simp only [RtCtx.apply, RtCtx.applyA, hnt, List.length_nil, List.range_zero, List.foldl_nil,
      Bool.false_eq_true, if_false]
    rw [setStrAlloc_updStr, updStr_of_ge σ i _ hi]
    show (σ.updStr i (counterB 0)).abs = _
    rw [updStr_of_ge σ i _ hi, Abs.setContent_of_ge _ _ _ hi]

theorem content_counter_zero (bytes : Array (Option Nat)) (al : Alloc) :
    ({ bytes := bytes, counter := 0, alloc := al } : StrBuf).content = [] := rfl

theorem abs_apply_delete (c : RtCtx) (hs : c.SizesOK) (σ : CState) (isStart : Bool) (i : Nat)
    (h : Inv c σ) : (c.apply σ isStart (.delete i)).abs = c.applyA σ.abs (.delete i) := by
  have hb := h.2 i
  simp only [RtCtx.apply, RtCtx.applyA]
  split
  · have hnf : ((σ.str i).alloc == Alloc.freed) = false := by
      have := hb.2.2.2.1; cases ha : (σ.str i).alloc <;> simp_all
    simp only [hnf, Bool.false_eq_true, if_false]
    exact abs_updStr σ i (fun b => { b with alloc := .null, bytes := #[], counter := 0 })
  · split
    · next hwr =>
      simp only [Bool.and_eq_true, Bool.not_eq_true'] at hwr
      have hw : (σ.str i).writable = true := by
        have hnf := hb.2.2.2.1
        have hnn : (σ.str i).alloc ≠ .null := by
          intro hn
          have hre := hb.2.2.1 hn
          simp only [RtCtx.realloc, Bool.and_eq_true] at hre
          have := hwr.2
          simp [hre.1.1, hre.2, hn] at this
        simp only [StrBuf.writable]
        cases ha : (σ.str i).alloc <;> simp_all
      have hsz : (σ.str i).bytes.size = (c.ty i).size := hb.2.1 hw
      have hlt := (hs i).2 hwr.1
      rw [writeByte_updStr c σ i 0 0 hw (by omega)]
      show (CState.updStr _ i (counterB 0)).abs = _
      rw [abs_updStr_chain σ _ i _ (counterB 0) (abs_updStr σ i (writeB 0 0))]
      rfl
    · exact abs_updStr σ i (counterB 0)

/-- The events that touch no buffer and read no expression. -/
theorem abs_apply_plain (c : RtCtx) (σ : CState) (isStart : Bool) (a : AEv)
    (ha : match a with
      | .hook _ _ => True | .brk => True | .ret _ => True | .yield _ => True | .opt _ => True
      | .raised => True | _ => False) :
    (c.apply σ isStart a).abs = c.applyA σ.abs a := by
  cases a <;> first | exact False.elim ha | rfl

/-! ### Questions, trees -/

/-- every expression of the tree is one the storage-free semantics can evaluate -/
def treeOK (u : Bool) : CTree → Bool
  | .emit (.set _ e) k => exprOK u e && treeOK u k
  | .emit (.appendC _ e) k => exprOK u e && treeOK u k
  | .emit _ k => treeOK u k
  | .ask (.cond e) kt kf => exprOK u e && treeOK u kt && treeOK u kf
  | .ask _ kt kf => treeOK u kt && treeOK u kf
  | .leaf _ => true

theorem treeOK_of_idxFree (u : Bool) (t : CTree) (h : treeIdxFree t = true) : treeOK u t = true := by
  fun_induction treeIdxFree t <;> simp_all [treeOK, exprOK, treeIdxFree]

theorem treeOK_of_checked (t : CTree) : treeOK false t = true := by
  fun_induction treeOK false t <;> simp_all [treeOK, exprOK]


theorem answer_abs_full (c : RtCtx) (σ : CState) (i : Nat) :
    c.answer σ (.full i) = c.answerA σ.abs (.full i) := by
  simp only [RtCtx.answer, RtCtx.answerA, CState.abs, content_length]

theorem answer_abs_cond (c : RtCtx) (σ : CState) (h : Inv c σ) (e : IExpr) (he : exprOK c.ro.unsafeIdx e = true) :
    c.answer σ (.cond e) = c.answerA σ.abs (.cond e) := by
  simp only [RtCtx.answer, RtCtx.answerA, eval_abs c σ h e he]
  cases eval (c.envA σ.abs 0) e with
  | none => rfl
  | some v => rfl

theorem abs_asked_full (c : RtCtx) (σ : CState) (isStart : Bool) (i : Nat) (v : Bool) :
    (c.applyEv isStart σ (.asked (.full i) v)).abs = c.applyEvA σ.abs (.asked (.full i) v) := rfl

theorem abs_asked_cond (c : RtCtx) (σ : CState) (h : Inv c σ) (isStart : Bool) (e : IExpr) (v : Bool)
    (he : exprOK c.ro.unsafeIdx e = true) :
    (c.applyEv isStart σ (.asked (.cond e) v)).abs = c.applyEvA σ.abs (.asked (.cond e) v) := by
  simp only [RtCtx.applyEv, RtCtx.applyEvA]
  rw [answer_abs_cond c σ h e he]
  cases c.answerA σ.abs (.cond e) with
  | none => simp only []; rw [abs_addFault]
  | some _ => rfl

/-- **Refinement, one call tree**: on a store satisfying the C03 invariant, a guarded tree without
    index reads runs concretely exactly as it runs on the abstraction of the store: the same
    answers, hence the same path and leaf, and the abstraction of the result is the abstract
    result. -/
theorem runTree_abs (c : RtCtx) (hs : c.SizesOK) (isStart : Bool) (t : CTree) :
    ∀ σ, guardedB c t = true → treeOK c.ro.unsafeIdx t = true → Inv c σ →
      (c.runTree isStart t σ).1.abs = (c.runTreeA t σ.abs).1 ∧
      (c.runTree isStart t σ).2 = (c.runTreeA t σ.abs).2 := by
  fun_induction guardedB c t with
  | case1 i kt j b k ihkt ihk =>
    intro σ hg hf h
    simp only [Bool.and_eq_true, beq_iff_eq] at hg
    obtain ⟨⟨hij, hgt⟩, hgk⟩ := hg
    subst hij
    simp only [treeOK, Bool.and_eq_true] at hf
    simp only [RtCtx.runTree, RtCtx.runTreeA]
    rw [← answer_abs_full c σ i]
    split
    · have := ihkt (c.applyEv isStart σ (.asked (.full i) true)) hgt hf.1 (inv_asked c σ isStart (.full i) true h)
      rwa [abs_asked_full] at this
    · next hq =>
      have hq' : (c.answer σ (.full i) == some true) = false := by simpa using hq
      have hroom := room_of_not_full c σ i h hq'
      have := ihk (c.apply σ isStart (.append i b)) hgk hf.2 (inv_apply_append c hs _ isStart i b h hroom)
      simp only [RtCtx.applyEv, RtCtx.applyEvA] at this ⊢
      rwa [abs_apply_append c hs σ isStart i b h hroom] at this
  | case2 i kt j e k ihkt ihk =>
    intro σ hg hf h
    simp only [Bool.and_eq_true, beq_iff_eq] at hg
    obtain ⟨⟨hij, hgt⟩, hgk⟩ := hg
    subst hij
    simp only [treeOK, Bool.and_eq_true] at hf
    simp only [RtCtx.runTree, RtCtx.runTreeA]
    rw [← answer_abs_full c σ i]
    split
    · have := ihkt (c.applyEv isStart σ (.asked (.full i) true)) hgt hf.1 (inv_asked c σ isStart (.full i) true h)
      rwa [abs_asked_full] at this
    · next hq =>
      have hq' : (c.answer σ (.full i) == some true) = false := by simpa using hq
      have hroom := room_of_not_full c σ i h hq'
      have := ihk (c.apply σ isStart (.appendC i e)) hgk hf.2.2 (inv_apply_appendC c hs _ isStart i e h hroom)
      simp only [RtCtx.applyEv, RtCtx.applyEvA] at this ⊢
      rwa [abs_apply_appendC c hs σ isStart i e hf.2.1 h hroom] at this
  | case3 q kt kf _ _ ihkt ihkf =>
    intro σ hg hf h
    simp only [Bool.and_eq_true] at hg
    simp only [RtCtx.runTree, RtCtx.runTreeA]
    cases q with
    | full i =>
      simp only [treeOK, Bool.and_eq_true] at hf
      rw [← answer_abs_full c σ i]
      split
      · have := ihkt (c.applyEv isStart σ (.asked (.full i) true)) hg.1 hf.1 (inv_asked c σ isStart (.full i) true h)
        rwa [abs_asked_full] at this
      · have := ihkf (c.applyEv isStart σ (.asked (.full i) false)) hg.2 hf.2 (inv_asked c σ isStart (.full i) false h)
        rwa [abs_asked_full] at this
    | cond e =>
      simp only [treeOK, Bool.and_eq_true] at hf
      rw [← answer_abs_cond c σ h e hf.1.1]
      split
      · have := ihkt (c.applyEv isStart σ (.asked (.cond e) true)) hg.1 hf.1.2 (inv_asked c σ isStart (.cond e) true h)
        rwa [abs_asked_cond c σ h isStart e true hf.1.1] at this
      · have := ihkf (c.applyEv isStart σ (.asked (.cond e) false)) hg.2 hf.2 (inv_asked c σ isStart (.cond e) false h)
        rwa [abs_asked_cond c σ h isStart e false hf.1.1] at this
  | case4 => intro σ hg; exact absurd hg (by simp)
  | case5 => intro σ hg; exact absurd hg (by simp)
  | case6 i bs k ihk =>
    intro σ hg hf h
    simp only [Bool.and_eq_true, decide_eq_true_eq] at hg
    simp only [treeOK] at hf
    simp only [RtCtx.runTree, RtCtx.runTreeA, RtCtx.applyEv, RtCtx.applyEvA]
    have := ihk (c.apply σ isStart (.setStr i bs)) hg.2 hf (inv_apply_setStr c hs σ isStart i bs h hg.1)
    rwa [abs_apply_setStr c hs σ isStart i bs h hg.1] at this
  | case7 a k _ _ _ ihk =>
    intro σ hg hf h
    simp only [RtCtx.runTree, RtCtx.runTreeA, RtCtx.applyEv, RtCtx.applyEvA]
    cases a with
    | delete i =>
      simp only [treeOK] at hf
      have := ihk (c.apply σ isStart (.delete i)) hg hf (inv_apply_delete c hs σ isStart i h)
      rwa [abs_apply_delete c hs σ isStart i h] at this
    | append _ _ => simp_all
    | appendC _ _ => simp_all
    | setStr _ _ => simp_all
    | set i e =>
      simp only [treeOK, Bool.and_eq_true] at hf
      have := ihk (c.apply σ isStart (.set i e)) hg hf.2 (inv_apply_other c σ isStart (.set i e) h trivial)
      rwa [abs_apply_set c σ isStart i e hf.1 h] at this
    | hook n arg =>
      simp only [treeOK] at hf
      have := ihk (c.apply σ isStart (.hook n arg)) hg hf (inv_apply_other c σ isStart (.hook n arg) h trivial)
      rwa [abs_apply_plain c σ isStart (.hook n arg) trivial] at this
    | brk =>
      simp only [treeOK] at hf
      have := ihk (c.apply σ isStart (.brk)) hg hf (inv_apply_other c σ isStart (.brk) h trivial)
      rwa [abs_apply_plain c σ isStart (.brk) trivial] at this
    | ret x =>
      simp only [treeOK] at hf
      have := ihk (c.apply σ isStart (.ret x)) hg hf (inv_apply_other c σ isStart (.ret x) h trivial)
      rwa [abs_apply_plain c σ isStart (.ret x) trivial] at this
    | yield x =>
      simp only [treeOK] at hf
      have := ihk (c.apply σ isStart (.yield x)) hg hf (inv_apply_other c σ isStart (.yield x) h trivial)
      rwa [abs_apply_plain c σ isStart (.yield x) trivial] at this
    | opt x =>
      simp only [treeOK] at hf
      have := ihk (c.apply σ isStart (.opt x)) hg hf (inv_apply_other c σ isStart (.opt x) h trivial)
      rwa [abs_apply_plain c σ isStart (.opt x) trivial] at this
    | raised =>
      simp only [treeOK] at hf
      have := ihk (c.apply σ isStart (.raised)) hg hf (inv_apply_other c σ isStart (.raised) h trivial)
      rwa [abs_apply_plain c σ isStart (.raised) trivial] at this
  | case8 l => intro σ _ _ _; exact ⟨rfl, rfl⟩

/-! ### API calls on abstract stores -/

def RtCtx.feedFromA (c : RtCtx) : Nat → Abs → List Nat → Nat → Abs × String × Nat
  | 0, a, _, pos => (a.addFault "feed ran out of fuel", "SPIN", pos)
  | fuel + 1, a, rest, pos =>
    match rest with
    | [] => (a.addFault "read past the end of the chunk", "OK", pos)
    | b :: _ =>
      let (a', l) := c.runTreeA (c.M.call c.semOpts a.state b) a
      match l with
      | .next s adv =>
        let a' := { a' with state := s }
        let rest'' := rest.drop adv
        if rest''.isEmpty then
          (if adv > rest.length then a'.addFault "cursor moved past the end of the chunk" else a', "OK", pos + adv)
        else c.feedFromA fuel a' rest'' (pos + adv)
      | .ret code st adv => ({ a' with state := st }, code, pos + adv)
      | .yielded code st adv => ({ a' with state := st }, "YIELD_" ++ code, pos + adv)

def RtCtx.feedA (c : RtCtx) (a : Abs) (chunk : List Nat) (pos : Nat) : Abs × String × Nat :=
  let rest := chunk.drop pos
  if c.needsEndCheck && rest.isEmpty then (a, if c.emptyFails a.state then "FAIL" else "OK", pos)
  else c.feedFromA (rest.length + 2) a rest pos

def RtCtx.endCallA (c : RtCtx) (a : Abs) : Abs × String :=
  let (a', l) := c.runTreeA (c.M.call c.semOpts a.state symEnd) a
  match l with
  | .next s _ => ({ a' with state := s }, "WEIRD")
  | .ret code st _ => ({ a' with state := st }, code)
  | .yielded code st _ => ({ a' with state := st }, "YIELD_" ++ code)

/-- Every expression of every call tree is one the storage-free semantics can evaluate (symbols
    below 257): no index read, or the indexing is bounds-checked. -/
def RtCtx.CallsIdxFree (c : RtCtx) : Prop :=
  ∀ (s : Int) (x : Nat), x < nSym → treeOK c.ro.unsafeIdx (c.M.call c.semOpts s x) = true

/-- the hypothesis on index expressions: there are none, or they are bounds-checked -/
def RtCtx.IdxOK (c : RtCtx) : Prop := c.idxFreeCheck = true ∨ c.ro.unsafeIdx = false

theorem callsIdxFree_of_check (c : RtCtx) (h : c.IdxOK) : c.CallsIdxFree := by
  intro s x hx
  by_cases hu : c.ro.unsafeIdx = false
  · rw [hu]; exact treeOK_of_checked _
  have h : c.idxFreeCheck = true := by
    rcases h with h | h
    · exact h
    · exact absurd h hu
  apply treeOK_of_idxFree
  by_cases hs : s < 0 ∨ s.toNat ≥ c.M.states.size
  · have : c.M.call c.semOpts s x = .leaf (.ret "FAIL" s 0) := by
      simp only [Machine.call, Machine.stepFuel, Machine.dispatch]
      rcases hs with hs | hs <;> simp [hs]
    rw [this]; rfl
  · have hs' : 0 ≤ s ∧ s.toNat < c.M.states.size := by omega
    simp only [RtCtx.idxFreeCheck, Bool.and_eq_true, List.all_eq_true, List.mem_range] at h
    have := h.1 s.toNat hs'.2 x hx
    rwa [Int.toNat_of_nonneg hs'.1] at this

theorem feedFrom_abs (c : RtCtx) (hs : c.SizesOK) (hg : c.CallsGuarded) (hf : c.CallsIdxFree) :
    ∀ (fuel : Nat) (σ : CState) (rest : List Nat) (pos : Nat), (∀ b ∈ rest, b < nSym) → Inv c σ →
      (c.feedFrom fuel σ rest pos).1.abs = (c.feedFromA fuel σ.abs rest pos).1 ∧
      (c.feedFrom fuel σ rest pos).2 = (c.feedFromA fuel σ.abs rest pos).2 ∧
      Inv c (c.feedFrom fuel σ rest pos).1 := by
  intro fuel
  induction fuel with
  | zero =>
    intro σ rest pos _ h
    exact ⟨abs_addFault σ _, rfl, inv_addFault c σ _ h⟩
  | succ fuel ih =>
    intro σ rest pos hb h
    cases rest with
    | nil => exact ⟨abs_addFault σ _, rfl, inv_addFault c σ _ h⟩
    | cons b rest' =>
      have hbn : b < nSym := hb b (by simp)
      have hr := runTree_abs c hs false _ σ (hg σ.state b hbn) (hf σ.state b hbn) h
      have hi := runTree_inv c hs false _ σ (hg σ.state b hbn) h
      simp only [RtCtx.feedFrom, RtCtx.feedFromA]
      have hst : σ.abs.state = σ.state := rfl
      rw [hst, ← hr.2]
      cases hl : (c.runTree false (c.M.call c.semOpts σ.state b) σ).2 with
      | next s adv =>
        simp only []
        split
        · refine ⟨?_, rfl, ?_⟩
          · split
            · rw [abs_addFault]; simp only [CState.abs] at hr ⊢; rw [← hr.1]; rfl
            · simp only [CState.abs] at hr ⊢; rw [← hr.1]; rfl
          · split
            · exact inv_addFault c _ _ (inv_state c _ _ hi)
            · exact inv_state c _ _ hi
        · have := ih { (c.runTree false (c.M.call c.semOpts σ.state b) σ).1 with state := s }
            ((b :: rest').drop adv) (pos + adv)
            (fun y hy => hb y (List.mem_of_mem_drop hy)) (inv_state c _ _ hi)
          have habs : ({ (c.runTree false (c.M.call c.semOpts σ.state b) σ).1 with state := s } : CState).abs
              = { (c.runTreeA (c.M.call c.semOpts σ.state b) σ.abs).1 with state := s } := by
            simp only [CState.abs] at hr ⊢; rw [← hr.1]; rfl
          rw [habs] at this
          exact this
      | ret code st adv =>
        simp only []
        refine ⟨?_, trivial, inv_state c _ _ hi⟩
        simp only [CState.abs] at hr ⊢; rw [← hr.1]; rfl
      | yielded code st adv =>
        simp only []
        refine ⟨?_, trivial, inv_state c _ _ hi⟩
        simp only [CState.abs] at hr ⊢; rw [← hr.1]; rfl

theorem feed_abs (c : RtCtx) (hs : c.SizesOK) (hg : c.CallsGuarded) (hf : c.CallsIdxFree)
    (σ : CState) (chunk : List Nat) (pos : Nat) (hb : ∀ b ∈ chunk, b < nSym) (h : Inv c σ) :
    (c.feed σ chunk pos).1.abs = (c.feedA σ.abs chunk pos).1 ∧
    (c.feed σ chunk pos).2 = (c.feedA σ.abs chunk pos).2 ∧
    Inv c (c.feed σ chunk pos).1 := by
  simp only [RtCtx.feed, RtCtx.feedA]
  split
  · exact ⟨rfl, rfl, h⟩
  · exact feedFrom_abs c hs hg hf _ σ _ pos (fun y hy => hb y (List.mem_of_mem_drop hy)) h

theorem endCall_abs (c : RtCtx) (hs : c.SizesOK) (hg : c.CallsGuarded) (hf : c.CallsIdxFree)
    (σ : CState) (h : Inv c σ) :
    (c.endCall σ).1.abs = (c.endCallA σ.abs).1 ∧ (c.endCall σ).2 = (c.endCallA σ.abs).2 ∧
    Inv c (c.endCall σ).1 := by
  have hx : symEnd < nSym := by decide
  have hr := runTree_abs c hs false _ σ (hg σ.state symEnd hx) (hf σ.state symEnd hx) h
  have hi := runTree_inv c hs false _ σ (hg σ.state symEnd hx) h
  simp only [RtCtx.endCall, RtCtx.endCallA]
  have hst : σ.abs.state = σ.state := rfl
  rw [hst, ← hr.2]
  cases hl : (c.runTree false (c.M.call c.semOpts σ.state symEnd) σ).2 with
  | next s adv =>
    simp only []
    refine ⟨?_, trivial, inv_state c _ _ hi⟩
    simp only [CState.abs] at hr ⊢; rw [← hr.1]; rfl
  | ret code st adv =>
    simp only []
    refine ⟨?_, trivial, inv_state c _ _ hi⟩
    simp only [CState.abs] at hr ⊢; rw [← hr.1]; rfl
  | yielded code st adv =>
    simp only []
    refine ⟨?_, trivial, inv_state c _ _ hi⟩
    simp only [CState.abs] at hr ⊢; rw [← hr.1]; rfl

/-! ### `start()` -/

/-- The abstract store after the declarations' defaults: what it depends on of the memory the state
    struct occupied before is the old scalar values (outputs without default keep them) and the
    fault flag of the model. -/
def RtCtx.initA (c : RtCtx) (sc0 : Array Int) (f0 : Option String) : Abs where
  state := c.M.start
  scalars := Array.ofFn (n := c.M.outs.size) fun i =>
      let d := c.M.outs.getD i default
      match d.defInt with
      | some v => (d.ty.cty c.ro.u8 c.ro.packed).wrap v
      | none => sc0.getD i 0
  fault := f0
  nstr := c.M.outs.size
  content := fun i =>
    if i < c.M.outs.size then
      let d := c.M.outs.getD i default
      if d.ty.isBuf then (match d.defStr with | some bs => bs.map some | none => []) else []
    else []

def RtCtx.startA (c : RtCtx) (sc0 : Array Int) (f0 : Option String) : Abs × String :=
  let (a', l) := c.runTreeA c.startTree (c.initA sc0 f0)
  match l with
  | .ret code st _ => ({ a' with state := st }, code)
  | .yielded code st _ => ({ a' with state := st }, "YIELD_" ++ code)
  | .next st _ => ({ a' with state := st }, "OK")

theorem map_some_eq_range_map (bs : List Nat) :
    (List.range bs.length).map (fun k => some (bs.getD k 0)) = bs.map some :=
  map_eq_range_map bs some

theorem initBuf_content (c : RtCtx) (h : c.safeCheck = true) (σ0 : CState) (i : Nat) (hi : i < c.M.outs.size) :
    (c.initBuf σ0 i).content =
      (let d := c.M.outs.getD i default
       if d.ty.isBuf then (match d.defStr with | some bs => bs.map some | none => []) else []) := by
  unfold RtCtx.initBuf
  simp only []
  by_cases hbuf : (c.M.outs.getD i default).ty.isBuf = true
  · rw [if_neg (by rw [hbuf]; simp), if_pos hbuf]
    obtain ⟨f2, f3, f4, f5⟩ := baseBuf_facts c σ0 i (buf_noDefInt_of_safeCheck c h i hi hbuf)
    cases hd : (c.M.outs.getD i default).defStr with
    | none =>
      show StrBuf.content (if _ then _ else _) = []
      by_cases hc : ((c.M.outs.getD i default).ty.nullTerm && (c.baseBuf σ0 i).alloc != Alloc.null) = true
      · rw [if_pos hc]; simp [StrBuf.content, f5]
      · rw [if_neg hc]; simp [StrBuf.content, f5]
    | some bs =>
      have hfit := defStr_fits_of_safeCheck c h i hi bs hd
      have hnn := baseBuf_notnull_of_default c σ0 i bs hd
      have hw : (c.baseBuf σ0 i).writable = true := by
        simp only [StrBuf.writable]
        cases ha : (c.baseBuf σ0 i).alloc <;> simp_all
      have hsz := f2 hw
      have hso := (sizesOK_of_safeCheck c h i).1
      simp only [StrBuf.content]
      rw [← map_some_eq_range_map bs]
      apply List.map_congr_left
      intro k hk
      have hk' := List.mem_range.1 hk
      have key := getD_foldl_range (fun k => some (bs.getD k 0)) bs.length (c.baseBuf σ0 i).bytes k hk'
        (by rw [hsz]; omega)
      by_cases hnt : (c.M.outs.getD i default).ty.nullTerm = true
      · rw [if_pos hnt]
        simp only [Array.getD_eq_getD_getElem?] at key ⊢
        rw [Array.getElem?_setIfInBounds, if_neg (by omega)]
        exact key
      · rw [if_neg hnt]; exact key
  · have hbuf' : (c.M.outs.getD i default).ty.isBuf = false := by simpa using hbuf
    rw [if_pos (by rw [hbuf']; rfl), if_neg hbuf]
    rfl

theorem initStore_abs (c : RtCtx) (h : c.safeCheck = true) (σ0 : CState) :
    (c.initStore σ0).abs = c.initA σ0.scalars σ0.fault := by
  apply Abs.ext'
  · rfl
  · rfl
  · rfl
  · simp [CState.abs, RtCtx.initStore, RtCtx.initA]
  · intro j
    show ((c.initStore σ0).str j).content = if j < c.M.outs.size then _ else []
    by_cases hj : j < c.M.outs.size
    · have : (c.initStore σ0).str j = c.initBuf σ0 j := by
        simp [CState.str, RtCtx.initStore, Array.getD_eq_getD_getElem?, hj]
      rw [this, if_pos hj]; exact initBuf_content c h σ0 j hj
    · have : (c.initStore σ0).str j = default := by
        simp [CState.str, RtCtx.initStore, Array.getD_eq_getD_getElem?, hj]
      rw [this, if_neg hj]; rfl

theorem start_abs (c : RtCtx) (hsafe : c.safeCheck = true) (hfree : c.IdxOK)
    (σ0 : CState) (hm : σ0.memFault = false) :
    (c.start σ0).1.abs = (c.startA σ0.scalars σ0.fault).1 ∧
    (c.start σ0).2 = (c.startA σ0.scalars σ0.fault).2 ∧ Inv c (c.start σ0).1 := by
  have hg : guardedB c c.startTree = true := by
    simp only [RtCtx.safeCheck, Bool.and_eq_true] at hsafe
    exact hsafe.2
  have hf : treeOK c.ro.unsafeIdx c.startTree = true := by
    rcases hfree with hfree | hfree
    · simp only [RtCtx.idxFreeCheck, Bool.and_eq_true] at hfree
      exact treeOK_of_idxFree _ _ hfree.2
    · rw [hfree]; exact treeOK_of_checked _
  have hs := sizesOK_of_safeCheck c hsafe
  have h0 := initStore_inv c hsafe σ0 hm
  have hr := runTree_abs c hs true c.startTree (c.initStore σ0) hg hf h0
  have hi := runTree_inv c hs true c.startTree (c.initStore σ0) hg h0
  rw [initStore_abs c hsafe σ0] at hr
  simp only [RtCtx.start, RtCtx.startA]
  rw [← hr.2]
  cases hl : (c.runTree true c.startTree (c.initStore σ0)).2 with
  | next s adv =>
    simp only []
    refine ⟨?_, trivial, inv_state c _ _ hi⟩
    simp only [CState.abs] at hr ⊢; rw [← hr.1]; rfl
  | ret code st adv =>
    simp only []
    refine ⟨?_, trivial, inv_state c _ _ hi⟩
    simp only [CState.abs] at hr ⊢; rw [← hr.1]; rfl
  | yielded code st adv =>
    simp only []
    refine ⟨?_, trivial, inv_state c _ _ hi⟩
    simp only [CState.abs] at hr ⊢; rw [← hr.1]; rfl

/-! ### Sessions: any sequence of API calls -/

inductive ApiOp where
  /-- `feed(chunk, chunk + pos .. end)`: `pos > 0` is the re-invocation after a yield code -/
  | feed (chunk : List Nat) (pos : Nat)
  | endInput

def ApiOp.bytesOK : ApiOp → Prop
  | .feed chunk _ => ∀ b ∈ chunk, b < nSym
  | .endInput => True

def RtCtx.apiStep (c : RtCtx) (σ : CState) : ApiOp → CState × String × Nat
  | .feed ch pos => c.feed σ ch pos
  | .endInput => ((c.endCall σ).1, (c.endCall σ).2, 0)

def RtCtx.apiStepA (c : RtCtx) (a : Abs) : ApiOp → Abs × String × Nat
  | .feed ch pos => c.feedA a ch pos
  | .endInput => ((c.endCallA a).1, (c.endCallA a).2, 0)

/-- the calls after `start()`: final store and the (code, cursor) each call returned -/
def RtCtx.runOps (c : RtCtx) : CState → List ApiOp → CState × List (String × Nat)
  | σ, [] => (σ, [])
  | σ, op :: rest => ((c.runOps (c.apiStep σ op).1 rest).1, (c.apiStep σ op).2 :: (c.runOps (c.apiStep σ op).1 rest).2)

def RtCtx.runOpsA (c : RtCtx) : Abs → List ApiOp → Abs × List (String × Nat)
  | a, [] => (a, [])
  | a, op :: rest => ((c.runOpsA (c.apiStepA a op).1 rest).1, (c.apiStepA a op).2 :: (c.runOpsA (c.apiStepA a op).1 rest).2)

/-- a whole session: `start()`, then the calls -/
def RtCtx.session (c : RtCtx) (σ0 : CState) (ops : List ApiOp) : CState × List (String × Nat) :=
  ((c.runOps (c.start σ0).1 ops).1, ((c.start σ0).2, 0) :: (c.runOps (c.start σ0).1 ops).2)

def RtCtx.sessionA (c : RtCtx) (sc0 : Array Int) (f0 : Option String) (ops : List ApiOp) :
    Abs × List (String × Nat) :=
  ((c.runOpsA (c.startA sc0 f0).1 ops).1, ((c.startA sc0 f0).2, 0) :: (c.runOpsA (c.startA sc0 f0).1 ops).2)

theorem apiStep_abs (c : RtCtx) (hs : c.SizesOK) (hg : c.CallsGuarded) (hf : c.CallsIdxFree)
    (σ : CState) (op : ApiOp) (hb : op.bytesOK) (h : Inv c σ) :
    (c.apiStep σ op).1.abs = (c.apiStepA σ.abs op).1 ∧ (c.apiStep σ op).2 = (c.apiStepA σ.abs op).2 ∧
    Inv c (c.apiStep σ op).1 := by
  cases op with
  | feed ch pos => exact feed_abs c hs hg hf σ ch pos hb h
  | endInput =>
    obtain ⟨h1, h2, h3⟩ := endCall_abs c hs hg hf σ h
    refine ⟨h1, ?_, h3⟩
    simp only [RtCtx.apiStep, RtCtx.apiStepA, h2]

theorem runOps_abs (c : RtCtx) (hs : c.SizesOK) (hg : c.CallsGuarded) (hf : c.CallsIdxFree) :
    ∀ (ops : List ApiOp) (σ : CState), (∀ op ∈ ops, op.bytesOK) → Inv c σ →
      (c.runOps σ ops).1.abs = (c.runOpsA σ.abs ops).1 ∧ (c.runOps σ ops).2 = (c.runOpsA σ.abs ops).2 ∧
      Inv c (c.runOps σ ops).1 := by
  intro ops
  induction ops with
  | nil => intro σ _ h; exact ⟨rfl, rfl, h⟩
  | cons op rest ih =>
    intro σ hb h
    obtain ⟨h1, h2, h3⟩ := apiStep_abs c hs hg hf σ op (hb op (by simp)) h
    obtain ⟨k1, k2, k3⟩ := ih (c.apiStep σ op).1 (fun o ho => hb o (List.mem_cons_of_mem _ ho)) h3
    simp only [RtCtx.runOps, RtCtx.runOpsA]
    rw [h1] at k1 k2
    exact ⟨k1, by rw [h2, k2], k3⟩

/-- **Refinement to the storage-free semantics.**  For a machine passing `safeCheck` whose index
    expressions are bounds-checked or absent (`IdxOK`), whatever the storage options, whatever memory the state struct occupied, for every
    sequence of API calls after `start()` — `feed` on any chunk from any cursor position, `end` —
    every call returns the code and cursor the abstract semantics returns, and the observable
    content of the state struct (state number, scalars, each buffer's length and bytes below its
    length) is the abstract store; no memory fault occurs on the way. -/
theorem C12_session_refines (c : RtCtx) (hsafe : c.safeCheck = true) (hfree : c.IdxOK)
    (σ0 : CState) (hm : σ0.memFault = false) (ops : List ApiOp) (hb : ∀ op ∈ ops, op.bytesOK) :
    (c.session σ0 ops).1.abs = (c.sessionA σ0.scalars σ0.fault ops).1 ∧
    (c.session σ0 ops).2 = (c.sessionA σ0.scalars σ0.fault ops).2 ∧
    (c.session σ0 ops).1.memFault = false := by
  have hs := sizesOK_of_safeCheck c hsafe
  have hg := callsGuarded_of_safeCheck c hsafe
  have hf := callsIdxFree_of_check c hfree
  obtain ⟨h1, h2, h3⟩ := start_abs c hsafe hfree σ0 hm
  obtain ⟨k1, k2, k3⟩ := runOps_abs c hs hg hf ops (c.start σ0).1 hb h3
  simp only [RtCtx.session, RtCtx.sessionA]
  rw [h1] at k1 k2
  exact ⟨k1, by rw [h2, k2], k3.1⟩

/-! ### The abstract semantics does not mention the storage options -/

/-- `c` with other string-storage options. -/
def RtCtx.withStorage (c : RtCtx) (d o f : Bool) : RtCtx :=
  { M := c.M, ro := { c.ro with dynamic := d, onDemand := o, deleteFrees := f } }

theorem applyA_storage (c : RtCtx) (d o f : Bool) (a : Abs) (ev : AEv) :
    (c.withStorage d o f).applyA a ev = c.applyA a ev := by
  cases ev <;> rfl

theorem answerA_storage (c : RtCtx) (d o f : Bool) (a : Abs) (q : Quest) :
    (c.withStorage d o f).answerA a q = c.answerA a q := by
  cases q <;> rfl

theorem applyEvA_storage (c : RtCtx) (d o f : Bool) (a : Abs) (e : MEv) :
    (c.withStorage d o f).applyEvA a e = c.applyEvA a e := by
  cases e with
  | act ev => exact applyA_storage c d o f a ev
  | asked q v => cases q <;> rfl

theorem runTreeA_storage (c : RtCtx) (d o f : Bool) (t : CTree) :
    ∀ a, (c.withStorage d o f).runTreeA t a = c.runTreeA t a := by
  induction t with
  | emit ev k ih => intro a; simp only [RtCtx.runTreeA, applyEvA_storage, ih]
  | ask q kt kf iht ihf =>
    intro a
    simp only [RtCtx.runTreeA, applyEvA_storage, answerA_storage, iht, ihf]
  | leaf l => intro a; rfl

theorem feedFromA_storage (c : RtCtx) (d o f : Bool) :
    ∀ (fuel : Nat) (a : Abs) (rest : List Nat) (pos : Nat),
      (c.withStorage d o f).feedFromA fuel a rest pos = c.feedFromA fuel a rest pos := by
  intro fuel
  induction fuel with
  | zero => intro a rest pos; rfl
  | succ fuel ih =>
    intro a rest pos
    cases rest with
    | nil => rfl
    | cons b rest' =>
      simp only [RtCtx.feedFromA]
      have : (c.withStorage d o f).runTreeA ((c.withStorage d o f).M.call (c.withStorage d o f).semOpts a.state b) a
          = c.runTreeA (c.M.call c.semOpts a.state b) a := runTreeA_storage c d o f _ a
      rw [this]
      split <;> simp [ih]

theorem apiStepA_storage (c : RtCtx) (d o f : Bool) (a : Abs) (op : ApiOp) :
    (c.withStorage d o f).apiStepA a op = c.apiStepA a op := by
  cases op with
  | feed ch pos =>
    simp only [RtCtx.apiStepA, RtCtx.feedA, feedFromA_storage]
    rfl
  | endInput =>
    have : (c.withStorage d o f).endCallA a = c.endCallA a := by
      simp only [RtCtx.endCallA]
      have : (c.withStorage d o f).runTreeA ((c.withStorage d o f).M.call (c.withStorage d o f).semOpts a.state symEnd) a
          = c.runTreeA (c.M.call c.semOpts a.state symEnd) a := runTreeA_storage c d o f _ a
      rw [this]
    simp only [RtCtx.apiStepA, this]

theorem runOpsA_storage (c : RtCtx) (d o f : Bool) :
    ∀ (ops : List ApiOp) (a : Abs), (c.withStorage d o f).runOpsA a ops = c.runOpsA a ops := by
  intro ops
  induction ops with
  | nil => intro a; rfl
  | cons op rest ih => intro a; simp only [RtCtx.runOpsA, apiStepA_storage, ih]

theorem sessionA_storage (c : RtCtx) (d o f : Bool) (sc0 : Array Int) (f0 : Option String)
    (ops : List ApiOp) : (c.withStorage d o f).sessionA sc0 f0 ops = c.sessionA sc0 f0 ops := by
  have hst : (c.withStorage d o f).startA sc0 f0 = c.startA sc0 f0 := by
    simp only [RtCtx.startA]
    have : (c.withStorage d o f).runTreeA (c.withStorage d o f).startTree ((c.withStorage d o f).initA sc0 f0)
        = c.runTreeA c.startTree (c.initA sc0 f0) := runTreeA_storage c d o f _ _
    rw [this]
  simp only [RtCtx.sessionA, hst, runOpsA_storage]

theorem guardedB_storage (c : RtCtx) (d o f : Bool) (t : CTree) :
    guardedB (c.withStorage d o f) t = guardedB c t := by
  fun_induction guardedB c t <;> simp_all [guardedB] <;> rfl

theorem safeCheck_storage (c : RtCtx) (d o f : Bool) : (c.withStorage d o f).safeCheck = c.safeCheck := by
  simp only [RtCtx.safeCheck, guardedB_storage]
  rfl

theorem idxFreeCheck_storage (c : RtCtx) (d o f : Bool) :
    (c.withStorage d o f).idxFreeCheck = c.idxFreeCheck := rfl

/-- **Where strings live never changes what is parsed.**  Take a machine passing `safeCheck` whose
    index expressions are bounds-checked or absent (`IdxOK`), any two settings of the storage options (in the struct, on the heap, on the
    heap on demand, freed on delete), any two initial memories of the state struct that agree on
    the scalar outputs, and any sequence of API calls: every call returns the same code and the
    same cursor under both settings, and after every such sequence the state number, the scalar
    outputs, and the length and content of every string / raw output are the same.  (Hooks read
    exactly that part of the struct, and the hook events are part of the common call trees.) -/
theorem C12_storage_independent (c : RtCtx) (d o f : Bool)
    (hsafe : c.safeCheck = true) (hfree : c.IdxOK)
    (σ0 σ0' : CState) (hm : σ0.memFault = false) (hm' : σ0'.memFault = false)
    (hsc : σ0.scalars = σ0'.scalars) (hfa : σ0.fault = σ0'.fault)
    (ops : List ApiOp) (hb : ∀ op ∈ ops, op.bytesOK) :
    ((c.withStorage d o f).session σ0' ops).2 = (c.session σ0 ops).2 ∧
    ((c.withStorage d o f).session σ0' ops).1.abs = (c.session σ0 ops).1.abs := by
  obtain ⟨h1, h2, _⟩ := C12_session_refines c hsafe hfree σ0 hm ops hb
  obtain ⟨k1, k2, _⟩ := C12_session_refines (c.withStorage d o f)
    (by rw [safeCheck_storage]; exact hsafe) hfree σ0' hm' ops hb
  rw [sessionA_storage] at k1 k2
  rw [← hsc, ← hfa] at k1 k2
  exact ⟨by rw [k2, h2], by rw [k1, h1]⟩

end Nmfu
