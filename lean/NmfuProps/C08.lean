/-
  C08 — a case statement runs exactly the clause whose pattern matched (reference side).

  The running case frame holds, for every clause pattern still alive, the derivative of the
  pattern by the bytes consumed so far.  `casePick` is the selection rule of `Src.disp` spelled
  out; the theorems say what it means in terms of the patterns' languages:

  * `C08_step_is_casePick`: one consumed symbol on a case frame with a live pattern enters the
    clause `casePick` selects, or stays in the case with the live derivatives.
  * `C08_pick_sound`: the selected clause's pattern is complete (its derivative is nullable: the
    bytes consumed are a word of the pattern, `Rx.accepts_iff`), no live pattern can continue
    (so the case keeps consuming "while any pattern can continue"), and in greedy mode no
    complete pattern has a higher priority; in non-greedy mode it is the first complete one
    (C09 shows accepted programs have only one).
  * `C08_else_only_when_nothing_matches`: the else clause / the no-match error is reached only
    when no pattern's derivative by the symbol is alive and no pattern is complete — i.e.
    (`Rx.dead_iff_no_extension`) when the input has stopped being a prefix of every pattern.
  With the equivalence certificate (C01) this transfers to the compiled machine of each program.
-/
import NmfuProps.C09
namespace Nmfu
open Rx

/-- the live derivatives after the symbol -/
def caseAlive (x : Nat) (alts : List (Rx × Nat × Nat)) : List (Rx × Nat × Nat) :=
  (alts.map fun a => (a.1.deriv x, a.2.1, a.2.2)).filter fun a => a.1.alive

/-- highest priority first-come among a list -/
def prioPick (l : List (Rx × Nat × Nat)) : Option (Rx × Nat × Nat) :=
  l.foldl (fun best a => match best with
    | none => some a
    | some b => if a.2.1 > b.2.1 then some a else some b) none

/-- the clause entered after a consumed symbol (none: keep consuming) -/
def casePick (g : Bool) (alive : List (Rx × Nat × Nat)) : Option (Rx × Nat × Nat) :=
  let done := alive.filter fun a => a.1.nullable
  let cont := alive.any fun a => a.1.canContinue
  if cont then none else if g then prioPick done else done.head?

theorem C08_step_is_casePick (c : Src.Ctx) (fuel : Nat) (pend : List AEv) (g : Bool) (pc : PerChar)
    (alts : List (Rx × Nat × Nat)) (els : Option Nat) (rest : Kont)
    (hne : (caseAlive c.x alts).isEmpty = false) :
    Src.disp c (fuel + 1) pend (.c g pc alts els :: rest) =
      Src.flushT pend (Src.perCharTree c pc
        (match casePick g (caseAlive c.x alts) with
         | some a => .leaf (.next (.run a.2.2 0 :: rest))
         | none => .leaf (.next (.c g pc (caseAlive c.x alts) els :: rest)))
        (Src.raise c fuel [] true (.c g pc alts els :: rest))) := by
  rw [Src.disp.eq_def]
  simp only []
  have hne' : (!((alts.map fun a => (a.1.deriv c.x, a.2.1, a.2.2)).filter fun a => a.1.alive).isEmpty) = true := by
    simpa [caseAlive] using hne
  rw [if_pos hne']
  rfl

theorem prioPick_spec (l : List (Rx × Nat × Nat)) :
    ∀ (init : Option (Rx × Nat × Nat)) (r : Rx × Nat × Nat),
      l.foldl (fun best a => match best with
        | none => some a
        | some b => if a.2.1 > b.2.1 then some a else some b) init = some r →
      (r ∈ l ∨ init = some r) ∧ (∀ a ∈ l, a.2.1 ≤ r.2.1) ∧ (∀ b, init = some b → b.2.1 ≤ r.2.1) := by
  induction l with
  | nil => intro init r h; simp only [List.foldl_nil] at h; subst h; simp
  | cons a rest ih =>
    intro init r h
    simp only [List.foldl_cons] at h
    cases init with
    | none =>
      obtain ⟨hm, hmax, hinit⟩ := ih (some a) r h
      refine ⟨?_, ?_, by simp⟩
      · rcases hm with hm | hm
        · exact Or.inl (List.mem_cons_of_mem _ hm)
        · simp only [Option.some.injEq] at hm; subst hm; exact Or.inl (by simp)
      · intro a' ha'
        rcases List.mem_cons.1 ha' with rfl | ha'
        · exact hinit _ rfl
        · exact hmax a' ha'
    | some b =>
      by_cases hgt : a.2.1 > b.2.1
      · simp only [hgt, if_true] at h
        obtain ⟨hm, hmax, hinit⟩ := ih (some a) r h
        refine ⟨?_, ?_, ?_⟩
        · rcases hm with hm | hm
          · exact Or.inl (List.mem_cons_of_mem _ hm)
          · simp only [Option.some.injEq] at hm; subst hm; exact Or.inl (by simp)
        · intro a' ha'
          rcases List.mem_cons.1 ha' with rfl | ha'
          · exact hinit _ rfl
          · exact hmax a' ha'
        · intro b' hb'
          simp only [Option.some.injEq] at hb'; subst hb'
          have := hinit a rfl
          omega
      · simp only [hgt, if_false] at h
        obtain ⟨hm, hmax, hinit⟩ := ih (some b) r h
        refine ⟨?_, ?_, ?_⟩
        · rcases hm with hm | hm
          · exact Or.inl (List.mem_cons_of_mem _ hm)
          · exact Or.inr hm
        · intro a' ha'
          rcases List.mem_cons.1 ha' with rfl | ha'
          · have := hinit b rfl; omega
          · exact hmax a' ha'
        · intro b' hb'
          simp only [Option.some.injEq] at hb'; subst hb'
          exact hinit _ rfl

/-- **What the selected clause is.** -/
theorem C08_pick_sound (g : Bool) (alive : List (Rx × Nat × Nat)) (a : Rx × Nat × Nat)
    (h : casePick g alive = some a) :
    a ∈ alive ∧ a.1.nullable = true ∧ (∀ b ∈ alive, b.1.canContinue = false) ∧
    (g = true → ∀ b ∈ alive, b.1.nullable = true → b.2.1 ≤ a.2.1) ∧
    (g = false → (alive.filter fun b => b.1.nullable).head? = some a) := by
  simp only [casePick] at h
  by_cases hcont : (alive.any fun a => a.1.canContinue) = true
  · simp [hcont] at h
  · have hnc : ∀ b ∈ alive, b.1.canContinue = false := by
      intro b hb
      cases hc : b.1.canContinue with
      | false => rfl
      | true => exact absurd (List.any_eq_true.2 ⟨b, hb, hc⟩) hcont
    simp only [hcont, Bool.false_eq_true, if_false] at h
    cases g with
    | true =>
      simp only [if_true, prioPick] at h
      obtain ⟨hm, hmax, _⟩ := prioPick_spec _ none a h
      have hmem : a ∈ alive.filter fun b => b.1.nullable := by
        rcases hm with hm | hm
        · exact hm
        · cases hm
      have hmem' := List.mem_filter.1 hmem
      refine ⟨hmem'.1, (by simpa using hmem'.2), hnc, ?_, (fun hf => by cases hf)⟩
      intro _ b hb hbn
      exact hmax b (List.mem_filter.2 ⟨hb, by simpa using hbn⟩)
    | false =>
      simp only [Bool.false_eq_true, if_false] at h
      have hmem : a ∈ alive.filter fun b => b.1.nullable := List.mem_of_mem_head? h
      have hmem' := List.mem_filter.1 hmem
      exact ⟨hmem'.1, (by simpa using hmem'.2), hnc, (fun hf => by cases hf), (fun _ => h)⟩

/-- In language terms: the live derivative of a pattern `r` after the consumed word `w` and the
    symbol `x` being nullable means `w ++ [x]` is a word of `r`. -/
theorem C08_complete_means_word (r : Rx) (w : List Nat) (x : Nat) :
    ((r.derivs w).deriv x).nullable = true ↔ Lang r (w ++ [x]) := by
  have : (r.derivs w).deriv x = r.derivs (w ++ [x]) := by simp [derivs, List.foldl_append]
  rw [this, derivs_nullable_iff]

/-- The else clause (or the no-match error) is reached only when nothing is alive after the symbol
    and no pattern is complete before it. -/
theorem C08_else_only_when_nothing_matches (c : Src.Ctx) (fuel : Nat) (pend : List AEv) (g : Bool)
    (pc : PerChar) (alts : List (Rx × Nat × Nat)) (els : Option Nat) (rest : Kont)
    (hdead : (caseAlive c.x alts).isEmpty = true)
    (hnone : (alts.filter fun a => a.1.nullable) = []) :
    Src.disp c (fuel + 1) pend (.c g pc alts els :: rest) =
      (match els with
       | some b => Src.disp c fuel pend (.run b 0 :: rest)
       | none => Src.raise c fuel pend false rest) := by
  rw [Src.disp.eq_def]
  simp only []
  have hne' : (!((alts.map fun a => (a.1.deriv c.x, a.2.1, a.2.2)).filter fun a => a.1.alive).isEmpty) = false := by
    simpa [caseAlive] using hdead
  rw [if_neg (by simp [hne'])]
  simp only [hnone, List.foldl_nil, List.head?_nil]
  cases g <;> (simp; try rfl) <;> (cases els <;> rfl)

/-- Nothing alive after `x` for pattern `r` with consumed word `w`: no word of `r` extends
    `w ++ [x]`. -/
theorem C08_dead_means_no_extension (r : Rx) (w : List Nat) (x : Nat) :
    ((r.derivs w).deriv x).alive = false ↔ ¬ ∃ v, Lang r (w ++ [x] ++ v) := by
  have : (r.derivs w).deriv x = r.derivs (w ++ [x]) := by simp [derivs, List.foldl_append]
  rw [this]; exact dead_iff_no_extension r (w ++ [x])

end Nmfu

namespace Nmfu
open Rx

/-! ### The match frame (C07 / C15 on the reference side): consume while a word of the pattern is
    still reachable, finish exactly at a word of the pattern, fail at the first dead byte. -/

/-- A symbol that keeps some word of the pattern reachable is consumed; the match is over at once
    when the word read is complete and nothing can follow it. -/
theorem C07_match_consumes (c : Src.Ctx) (fuel : Nat) (pend : List AEv) (r : Rx) (pc : PerChar) (rest : Kont)
    (h : (r.deriv c.x).alive = true) :
    Src.disp c (fuel + 1) pend (.m r pc :: rest) =
      Src.flushT pend (Src.perCharTree c pc
        (if (r.deriv c.x).nullable && !(r.deriv c.x).canContinue then .leaf (.next rest)
         else .leaf (.next (.m (r.deriv c.x) pc :: rest)))
        (Src.raise c fuel [] true (.m r pc :: rest))) := by
  rw [Src.disp.eq_def]; simp only [h, if_true]

/-- A symbol that no word of the pattern continues ends the match by look-ahead when what was read
    is a word of the pattern: the symbol goes to what follows. -/
theorem C07_match_lookahead_end (c : Src.Ctx) (fuel : Nat) (pend : List AEv) (r : Rx) (pc : PerChar) (rest : Kont)
    (h : (r.deriv c.x).alive = false) (hn : r.nullable = true) :
    Src.disp c (fuel + 1) pend (.m r pc :: rest) = Src.disp c fuel pend (Src.afterSkip c rest).2 := by
  rw [Src.disp.eq_def]; simp only [h, hn, Bool.false_eq_true, if_false, if_true]

/-- … and is a mismatch, raised with the symbol unconsumed, when what was read is not a word of
    the pattern: exactly the first byte after which no word of the pattern is reachable
    (`Rx.dead_iff_no_extension`). -/
theorem C07_match_mismatch (c : Src.Ctx) (fuel : Nat) (pend : List AEv) (r : Rx) (pc : PerChar) (rest : Kont)
    (h : (r.deriv c.x).alive = false) (hn : r.nullable = false) :
    Src.disp c (fuel + 1) pend (.m r pc :: rest) = Src.raise c fuel pend false rest := by
  rw [Src.disp.eq_def]; simp only [h, hn, Bool.false_eq_true, if_false]

end Nmfu
