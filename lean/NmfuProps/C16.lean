/-
  C16 — wait never fails.  In the reference semantics a running wait (`Frame.w`) answers every
  symbol, end-of-input included, by consuming it and staying in (or leaving) the wait: no path of
  its step raises a mismatch, enters a handler or fails.  With the equivalence certificate of
  NmfuProps/C01.lean this transfers to the compiled machine.
-/
import NmfuProps.C01
namespace Nmfu

/-- Dispatching any symbol on a continuation whose head is a running wait either consumes it
    (next configuration) or, when the pattern is complete and cannot continue with this symbol,
    hands the symbol to what follows: the wait itself never raises. -/
theorem C16_wait_never_raises (c : Src.Ctx) (fuel : Nat) (pend : List AEv) (r0 r : Rx) (rest : Kont)
    (hnn : r.nullable = false) :
    ∃ K', Src.disp c (fuel + 1) pend (.w r0 r :: rest) = Src.flushT pend (.leaf (.next K')) := by
  simp only [Src.disp]
  split
  · split <;> exact ⟨_, rfl⟩
  · simp only [hnn, Bool.false_eq_true, if_false]
    split
    · split <;> exact ⟨_, rfl⟩
    · exact ⟨_, rfl⟩

end Nmfu
