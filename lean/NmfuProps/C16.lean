/-
  C16 — wait never fails.  In the reference semantics a running wait (`Frame.w`) answers every
  symbol, end-of-input included, by consuming it and staying in (or leaving) the wait: no path of
  its step raises a mismatch, enters a handler or fails.  With the equivalence certificate of
  NmfuProps/C01.lean this transfers to the compiled machine.
-/
import NmfuProps.C01
namespace Nmfu

/-- Dispatching any symbol on a continuation whose head is a running wait either consumes it
    (next configuration) or — when the pattern is complete here, possibly as the empty match at a
    restart — hands the symbol to what follows: the wait itself never raises, whatever the symbol
    (end-of-input included) and whatever handlers enclose it. -/
theorem C16_wait_never_raises (c : Src.Ctx) (fuel : Nat) (pend : List AEv) (r0 r : Rx) (rest : Kont) :
    (∃ K', Src.disp c (fuel + 1) pend (.w r0 r :: rest) = Src.flushT pend (.leaf (.next K'))) ∨
    Src.disp c (fuel + 1) pend (.w r0 r :: rest) = Src.disp c fuel pend rest := by
  simp only [Src.disp]
  split
  · left; split <;> exact ⟨_, rfl⟩
  · split
    · right; rfl
    · split
      · left; split <;> exact ⟨_, rfl⟩
      · split
        · right; rfl
        · left; exact ⟨_, rfl⟩

/-- A pattern that cannot match the empty string is only ever left by consuming: every symbol is
    consumed by the wait. -/
theorem C16_wait_consumes (c : Src.Ctx) (fuel : Nat) (pend : List AEv) (r0 r : Rx) (rest : Kont)
    (hnn : r.nullable = false) (h0 : r0.nullable = false) :
    ∃ K', Src.disp c (fuel + 1) pend (.w r0 r :: rest) = Src.flushT pend (.leaf (.next K')) := by
  rcases C16_wait_never_raises c fuel pend r0 r rest with h | h
  · exact h
  · simp only [Src.disp, hnn, h0, Bool.false_eq_true, if_false] at h ⊢
    split
    · split <;> exact ⟨_, rfl⟩
    · split
      · split <;> exact ⟨_, rfl⟩
      · exact ⟨_, rfl⟩

end Nmfu
