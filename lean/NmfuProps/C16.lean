/-
  C16 — wait never fails.  In the reference semantics a running wait (`Frame.w`) answers every
  symbol, end-of-input included, by consuming it and staying in (or leaving) the wait, or by
  completing: no path of its step raises a mismatch, and so none enters a no-match handler or
  fails.  (The only condition a wait can raise is out-of-space, and only from the per-byte
  actions of an enclosing `foreach … do` that appends.)  With the equivalence certificate of
  NmfuProps/C01.lean this transfers to the compiled machine.
-/
import NmfuProps.C01
namespace Nmfu

/-- what a wait does with a symbol it consumes: nothing extra at end-of-input, the enclosing
    foreach's per-byte actions otherwise (out-of-space of those being the only raise) -/
def Src.waitConsume (c : Src.Ctx) (fuel : Nat) (pend : List AEv) (r0 r : Rx) (pc : PerChar)
    (rest : Kont) (K' : Kont) : STree :=
  if c.x = symEnd && !c.o.waitEndForeach then Src.flushT pend (.leaf (.next K'))
  else Src.flushT pend (Src.perCharTree c pc (.leaf (.next K')) (Src.raise c fuel [] true (.w r0 r pc :: rest)))

/-- Dispatching any symbol on a continuation whose head is a running wait either consumes it
    (next configuration `K'`) or — when the pattern is complete here, possibly as the empty match
    at a restart — hands the symbol to what follows: the wait itself never raises a mismatch,
    whatever the symbol (end-of-input included) and whatever handlers enclose it. -/
theorem C16_wait_never_raises (c : Src.Ctx) (fuel : Nat) (pend : List AEv) (r0 r : Rx) (pc : PerChar)
    (rest : Kont) :
    (∃ K', Src.disp c (fuel + 1) pend (.w r0 r pc :: rest) = Src.waitConsume c fuel pend r0 r pc rest K') ∨
    Src.disp c (fuel + 1) pend (.w r0 r pc :: rest) = Src.disp c fuel pend rest := by
  simp only [Src.disp, Src.waitConsume]
  split
  · left; exact ⟨_, rfl⟩
  · split
    · right; rfl
    · split
      · left; exact ⟨_, rfl⟩
      · split
        · right; rfl
        · left; exact ⟨_, rfl⟩

/-- Without an enclosing foreach a consumed symbol costs nothing and raises nothing. -/
theorem waitConsume_plain (c : Src.Ctx) (fuel : Nat) (pend : List AEv) (r0 r : Rx) (rest K' : Kont) :
    Src.waitConsume c fuel pend r0 r {} rest K' = Src.flushT pend (.leaf (.next K')) := by
  simp [Src.waitConsume, Src.perCharTree, Src.pcActs]

/-- A pattern that cannot match the empty string is only ever left by consuming: every symbol is
    consumed by the wait. -/
theorem C16_wait_consumes (c : Src.Ctx) (fuel : Nat) (pend : List AEv) (r0 r : Rx) (pc : PerChar)
    (rest : Kont) (hnn : r.nullable = false) (h0 : r0.nullable = false) :
    ∃ K', Src.disp c (fuel + 1) pend (.w r0 r pc :: rest) = Src.waitConsume c fuel pend r0 r pc rest K' := by
  simp only [Src.disp, Src.waitConsume, hnn, h0, Bool.false_eq_true, if_false]
  split
  · exact ⟨_, rfl⟩
  · split
    · exact ⟨_, rfl⟩
    · exact ⟨_, rfl⟩

end Nmfu
