/-
  Correctness of the regular-expression machinery: denotation `Lang`, and
  `nullable`, `deriv`, `alive`, `accepts` against it — for every expression and every word over
  the 257 symbols.
-/
import NmfuModel.Rx
namespace Nmfu
namespace Rx

/-- The language of a regular expression. -/
inductive Lang : Rx → List Nat → Prop where
  | eps : Lang .eps []
  | cls {s : List Nat} {x : Nat} : x ∈ s → Lang (.cls s) [x]
  | seq {a b : Rx} {u v : List Nat} : Lang a u → Lang b v → Lang (.seq a b) (u ++ v)
  | altL {a b : Rx} {w : List Nat} : Lang a w → Lang (.alt a b) w
  | altR {a b : Rx} {w : List Nat} : Lang b w → Lang (.alt a b) w
  | starNil {a : Rx} : Lang (.star a) []
  | starCons {a : Rx} {u v : List Nat} : Lang a u → Lang (.star a) v → Lang (.star a) (u ++ v)

theorem nullable_iff (r : Rx) : r.nullable = true ↔ Lang r [] := by
  induction r with
  | empty => simp [nullable]; intro h; cases h
  | eps => simp [nullable]; exact Lang.eps
  | cls s => simp [nullable]; intro h; cases h
  | seq a b iha ihb =>
    simp only [nullable, Bool.and_eq_true, iha, ihb]
    constructor
    · intro ⟨h1, h2⟩; exact Lang.seq (u := []) (v := []) h1 h2
    · intro h
      generalize hw : ([] : List Nat) = w at h
      cases h with
      | seq h1 h2 =>
        rename_i u v
        have : u = [] ∧ v = [] := List.append_eq_nil_iff.1 hw.symm
        obtain ⟨rfl, rfl⟩ := this
        exact ⟨h1, h2⟩
  | alt a b iha ihb =>
    simp only [nullable, Bool.or_eq_true, iha, ihb]
    constructor
    · rintro (h | h)
      · exact Lang.altL h
      · exact Lang.altR h
    · intro h
      cases h with
      | altL h => exact Or.inl h
      | altR h => exact Or.inr h
  | star a _ => simp [nullable]; exact Lang.starNil

theorem lang_mkSeq (a b : Rx) (w : List Nat) : Lang (mkSeq a b) w ↔ Lang (.seq a b) w := by
  unfold mkSeq
  split
  · constructor
    · intro h; cases h
    · intro h; cases h with | seq h1 _ => cases h1
  · constructor
    · intro h; cases h
    · intro h; cases h with | seq _ h2 => cases h2
  · constructor
    · intro h; exact Lang.seq (u := []) Lang.eps h
    · intro h
      cases h with
      | seq h1 h2 => cases h1; simpa using h2
  · constructor
    · intro h; have := Lang.seq (v := []) h Lang.eps; simpa using this
    · intro h
      cases h with
      | seq h1 h2 => cases h2; simpa using h1
  · exact Iff.rfl

theorem lang_alts (r : Rx) (w : List Nat) : (∃ x ∈ alts r, Lang x w) ↔ Lang r w := by
  induction r with
  | empty => simp [alts]; intro h; cases h
  | eps => simp [alts]
  | cls s => simp [alts]
  | seq a b _ _ => simp [alts]
  | star a _ => simp [alts]
  | alt a b iha ihb =>
    simp only [alts, List.mem_append]
    constructor
    · rintro ⟨x, hx | hx, hl⟩
      · exact Lang.altL (iha.1 ⟨x, hx, hl⟩)
      · exact Lang.altR (ihb.1 ⟨x, hx, hl⟩)
    · intro h
      cases h with
      | altL h => obtain ⟨x, hx, hl⟩ := iha.2 h; exact ⟨x, Or.inl hx, hl⟩
      | altR h => obtain ⟨x, hx, hl⟩ := ihb.2 h; exact ⟨x, Or.inr hx, hl⟩

theorem lang_ofAlts (l : List Rx) (w : List Nat) : Lang (ofAlts l) w ↔ ∃ x ∈ l, Lang x w := by
  induction l with
  | nil => simp [ofAlts]; intro h; cases h
  | cons r rest ih =>
    cases rest with
    | nil => simp [ofAlts]
    | cons r2 rest2 =>
      simp only [ofAlts, List.mem_cons]
      constructor
      · intro h
        cases h with
        | altL h => exact ⟨r, Or.inl rfl, h⟩
        | altR h =>
          obtain ⟨x, hx, hl⟩ := ih.1 h
          exact ⟨x, Or.inr (by simpa using hx), hl⟩
      · rintro ⟨x, hx, hl⟩
        rcases hx with rfl | hx
        · exact Lang.altL hl
        · exact Lang.altR (ih.2 ⟨x, by simpa using hx, hl⟩)

theorem lang_mkAlt (a b : Rx) (w : List Nat) : Lang (mkAlt a b) w ↔ Lang (.alt a b) w := by
  unfold mkAlt
  rw [lang_ofAlts]
  constructor
  · rintro ⟨x, hx, hl⟩
    have hx' : x ∈ alts a ++ alts b := by simpa [List.mem_eraseDups] using hx
    rcases List.mem_append.1 hx' with h | h
    · exact Lang.altL ((lang_alts a w).1 ⟨x, h, hl⟩)
    · exact Lang.altR ((lang_alts b w).1 ⟨x, h, hl⟩)
  · intro h
    cases h with
    | altL h =>
      obtain ⟨x, hx, hl⟩ := (lang_alts a w).2 h
      exact ⟨x, by simpa [List.mem_eraseDups] using Or.inl hx, hl⟩
    | altR h =>
      obtain ⟨x, hx, hl⟩ := (lang_alts b w).2 h
      exact ⟨x, by simpa [List.mem_eraseDups] using Or.inr hx, hl⟩

theorem lang_star_cons_iff (a : Rx) (x : Nat) (w : List Nat) :
    Lang (.star a) (x :: w) ↔ ∃ u v, w = u ++ v ∧ Lang a (x :: u) ∧ Lang (.star a) v := by
  constructor
  · intro h
    generalize hr : Rx.star a = r at h
    generalize hw : x :: w = w' at h
    induction h generalizing w with
    | eps => cases hr
    | cls _ => cases hr
    | seq _ _ => cases hr
    | altL _ => cases hr
    | altR _ => cases hr
    | starNil => cases hw
    | @starCons a' u v h1 h2 _ ih2 =>
      cases hr
      cases u with
      | nil =>
        simp only [List.nil_append] at hw
        exact ih2 w rfl hw
      | cons y u' =>
        simp only [List.cons_append, List.cons.injEq] at hw
        obtain ⟨rfl, rfl⟩ := hw
        exact ⟨u', v, rfl, h1, h2⟩
  · rintro ⟨u, v, rfl, h1, h2⟩
    have := Lang.starCons h1 h2
    simpa using this

theorem deriv_iff (r : Rx) : ∀ (x : Nat) (w : List Nat), Lang (r.deriv x) w ↔ Lang r (x :: w) := by
  induction r with
  | empty => intro x w; simp only [deriv]; constructor <;> (intro h; cases h)
  | eps => intro x w; simp only [deriv]; constructor <;> (intro h; cases h)
  | cls s =>
    intro x w
    simp only [deriv]
    split
    · next hc =>
      constructor
      · intro h; cases h; exact Lang.cls (by simpa using hc)
      · intro h; cases h; exact Lang.eps
    · next hc =>
      constructor
      · intro h; cases h
      · intro h; cases h with | cls hx => exact absurd (by simpa using hx) hc
  | seq a b iha ihb =>
    intro x w
    have key : Lang (.seq a b) (x :: w) ↔
        (∃ u v, w = u ++ v ∧ Lang a (x :: u) ∧ Lang b v) ∨ (Lang a [] ∧ Lang b (x :: w)) := by
      constructor
      · intro h
        generalize hw : x :: w = w' at h
        cases h with
        | @seq _ _ u v h1 h2 =>
          cases u with
          | nil => right; simp only [List.nil_append] at hw; subst hw; exact ⟨h1, h2⟩
          | cons y u' =>
            simp only [List.cons_append, List.cons.injEq] at hw
            obtain ⟨rfl, rfl⟩ := hw
            left; exact ⟨u', v, rfl, h1, h2⟩
      · rintro (⟨u, v, rfl, h1, h2⟩ | ⟨h1, h2⟩)
        · have := Lang.seq h1 h2; simpa using this
        · have := Lang.seq h1 h2; simpa using this
    simp only [deriv]
    split
    · next hn =>
      rw [lang_mkAlt]
      constructor
      · intro h
        cases h with
        | altL h =>
          rw [lang_mkSeq] at h
          cases h with
          | @seq _ _ u v h1 h2 =>
            rw [key]; left; exact ⟨u, v, rfl, (iha x u).1 h1, h2⟩
        | altR h => rw [key]; right; exact ⟨(nullable_iff a).1 hn, (ihb x w).1 h⟩
      · intro h
        rw [key] at h
        rcases h with ⟨u, v, rfl, h1, h2⟩ | ⟨_, h2⟩
        · exact Lang.altL ((lang_mkSeq _ _ _).2 (Lang.seq ((iha x u).2 h1) h2))
        · exact Lang.altR ((ihb x w).2 h2)
    · next hn =>
      rw [lang_mkSeq]
      constructor
      · intro h
        cases h with
        | @seq _ _ u v h1 h2 => rw [key]; left; exact ⟨u, v, rfl, (iha x u).1 h1, h2⟩
      · intro h
        rw [key] at h
        rcases h with ⟨u, v, rfl, h1, h2⟩ | ⟨h1, _⟩
        · exact Lang.seq ((iha x u).2 h1) h2
        · exact absurd ((nullable_iff a).2 h1) hn
  | alt a b iha ihb =>
    intro x w
    simp only [deriv]
    rw [lang_mkAlt]
    constructor
    · intro h
      cases h with
      | altL h => exact Lang.altL ((iha x w).1 h)
      | altR h => exact Lang.altR ((ihb x w).1 h)
    · intro h
      cases h with
      | altL h => exact Lang.altL ((iha x w).2 h)
      | altR h => exact Lang.altR ((ihb x w).2 h)
  | star a iha =>
    intro x w
    simp only [deriv]
    rw [lang_mkSeq, lang_star_cons_iff]
    constructor
    · intro h
      cases h with
      | @seq _ _ u v h1 h2 => exact ⟨u, v, rfl, (iha x u).1 h1, h2⟩
    · rintro ⟨u, v, rfl, h1, h2⟩
      exact Lang.seq ((iha x u).2 h1) h2

/-- **Derivative acceptance is language membership**, for every expression and word. -/
theorem accepts_iff (r : Rx) (w : List Nat) : r.accepts w = true ↔ Lang r w := by
  induction w generalizing r with
  | nil => simpa [accepts, derivs] using nullable_iff r
  | cons x w ih =>
    have := ih (r.deriv x)
    simp only [accepts, derivs, List.foldl_cons] at this ⊢
    rw [this, deriv_iff]

/-- `alive` decides non-emptiness of the language. -/
theorem alive_iff (r : Rx) : r.alive = true ↔ ∃ w, Lang r w := by
  induction r with
  | empty => simp [alive]; intro w h; cases h
  | eps => simp [alive]; exact ⟨[], Lang.eps⟩
  | cls s =>
    simp only [alive, Bool.not_eq_true', List.isEmpty_eq_false_iff]
    constructor
    · intro h
      cases s with
      | nil => exact absurd rfl h
      | cons x _ => exact ⟨[x], Lang.cls (by simp)⟩
    · rintro ⟨w, h⟩
      cases h with | cls hx => intro he; subst he; simp at hx
  | seq a b iha ihb =>
    simp only [alive, Bool.and_eq_true, iha, ihb]
    constructor
    · rintro ⟨⟨u, hu⟩, ⟨v, hv⟩⟩; exact ⟨u ++ v, Lang.seq hu hv⟩
    · rintro ⟨w, h⟩
      cases h with | seq h1 h2 => exact ⟨⟨_, h1⟩, ⟨_, h2⟩⟩
  | alt a b iha ihb =>
    simp only [alive, Bool.or_eq_true, iha, ihb]
    constructor
    · rintro (⟨w, h⟩ | ⟨w, h⟩)
      · exact ⟨w, Lang.altL h⟩
      · exact ⟨w, Lang.altR h⟩
    · rintro ⟨w, h⟩
      cases h with
      | altL h => exact Or.inl ⟨w, h⟩
      | altR h => exact Or.inr ⟨w, h⟩
  | star a _ => simp [alive]; exact ⟨[], Lang.starNil⟩

/-- After `w`, no member of the language is reachable iff the derivative is dead: the first byte
    at which a compiled matcher may report a mismatch. -/
theorem dead_iff_no_extension (r : Rx) (w : List Nat) :
    (r.derivs w).alive = false ↔ ¬ ∃ v, Lang r (w ++ v) := by
  have h : ∀ (w : List Nat) (r : Rx) (v : List Nat), Lang (r.derivs w) v ↔ Lang r (w ++ v) := by
    intro w
    induction w with
    | nil => intro r v; simp [derivs]
    | cons x w ih =>
      intro r v
      have := ih (r.deriv x) v
      simp only [derivs, List.foldl_cons, List.cons_append] at this ⊢
      rw [this, deriv_iff]
  rw [← Bool.not_eq_true, alive_iff]
  constructor
  · rintro hn ⟨v, hv⟩; exact hn ⟨v, (h w r v).2 hv⟩
  · rintro hn ⟨v, hv⟩; exact hn ⟨v, (h w r v).1 hv⟩

end Rx
end Nmfu
