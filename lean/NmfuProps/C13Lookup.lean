/-
  C13 — the binding mechanism, name by name.

  Textual expansion of a call `m(args)` replaces, in the body of `m`, every occurrence of a
  parameter by its argument; a name the body uses that is not a parameter of `m` stays in the text
  and means whatever it means where the call stands (a parameter of the calling macro, or a global).
  `C13_lookup_is_textual` says the stack walk of `_lookup_named_entity` computes exactly that: the
  frame of the innermost call decides if it mentions the name at all — its binding under the kind
  asked for, or an undefined reference when the macro binds the name under another kind — and
  otherwise the answer is the answer in the context of the call (the rest of the stack).  Bound
  values are never looked up again (`bind_arguments_for` resolves arguments in the caller's context
  when the call is made), so this is the whole story for one name.
-/
import NmfuModel.MacroLookup
namespace Nmfu

theorem C13_lookup_is_textual (globals : List (Nat × String)) (stack : List MFrame) (f : MFrame)
    (k : Nat) (x : String) :
    lookStack globals (stack ++ [f]) k x = (frameLook f k x).getD (lookStack globals stack k x) := by
  simp only [lookStack, List.reverse_append, List.reverse_cons, List.reverse_nil, List.nil_append,
    List.cons_append, lookRev]
  cases frameLook f k x <;> rfl

/-- a call whose macro does not mention the name is transparent for it -/
theorem C13_lookup_transparent (globals : List (Nat × String)) (stack : List MFrame) (f : MFrame)
    (k : Nat) (x : String) (h : ∀ e ∈ f, e.1.2 ≠ x) :
    lookStack globals (stack ++ [f]) k x = lookStack globals stack k x := by
  rw [C13_lookup_is_textual]
  have h1 : f.find? (fun e => e.1.1 == k && e.1.2 == x) = none := by
    apply List.find?_eq_none.2
    intro e he
    simp [h e he]
  have h2 : f.any (fun e => e.1.2 == x) = false := by
    apply List.any_eq_false.2
    intro e he
    simp [h e he]
  simp [frameLook, h1, h2]

/-- the innermost binding under the kind asked for wins, whatever the callers bind -/
theorem C13_lookup_innermost_wins (globals : List (Nat × String)) (stack : List MFrame) (f : MFrame)
    (k : Nat) (x : String) (v : Nat) (e : (Nat × String) × Nat)
    (h : f.find? (fun e => e.1.1 == k && e.1.2 == x) = some e) (hv : e.2 = v) :
    lookStack globals (stack ++ [f]) k x = .val v := by
  rw [C13_lookup_is_textual]
  simp [frameLook, h, hv]

/-- a parameter of the innermost macro shadows every other meaning of its name -/
theorem C13_parameter_shadows (globals : List (Nat × String)) (stack : List MFrame) (f : MFrame)
    (k : Nat) (x : String)
    (h1 : f.find? (fun e => e.1.1 == k && e.1.2 == x) = none) (h2 : f.any (fun e => e.1.2 == x) = true) :
    lookStack globals (stack ++ [f]) k x = .undefined := by
  rw [C13_lookup_is_textual]
  simp [frameLook, h1, h2]

/-- non-vacuity: a pass-through (`two(y, …)` inside `one(out y)`) and a shadowing parameter -/
example : lookStack [(1, "a"), (4, "h")] [[((1, "y"), 7)], [((1, "x"), 7), ((10, "e"), 9)]] 1 "x" = .val 7 := by decide
example : lookStack [(1, "a"), (4, "h")] [[((1, "y"), 7)], [((1, "x"), 7), ((10, "e"), 9)]] 1 "y" = .val 7 := by decide
example : lookStack [(1, "a"), (4, "h")] [[((1, "y"), 7)], [((4, "a"), 3)]] 1 "a" = .undefined := by decide
example : lookStack [(1, "a"), (4, "h")] [[((1, "y"), 7)]] 1 "a" = .global "a" := by decide
example : lookStack [(1, "a"), (4, "h")] [] 10 "a" = .undefined := by decide

end Nmfu
