/-
  C03 — generated parsers are memory-safe and respect output capacities (model level).

  For every machine whose call trees pass the decidable check `guardedB` (every append is the
  not-full branch of its own out-of-space test, every string constant fits its output — what the
  code generator's templates and its compile-time length check are there to ensure; the harness
  evaluates it on every exported machine), every store satisfying the invariant `Inv`, every
  input and every chunking:
  * no memory fault occurs: no write through a NULL or freed buffer, no write outside a buffer,
    no double free (`C03_no_memory_fault`);
  * every length counter stays within the capacity of its output — N-1 for a terminated string of
    declared size N, N for an unterminated one, sizeof for a raw output
    (`C03_counters_within_capacity`);
  in each of the storage modes (in struct, heap, heap on demand, freed on delete).
-/
import NmfuProps.C10
namespace Nmfu

/-- What the invariant says about one buffer. -/
def BufP (c : RtCtx) (i : Nat) (b : StrBuf) : Prop :=
  b.counter ≤ (c.ty i).cap ∧
  (b.writable = true → b.bytes.size = (c.ty i).size) ∧
  (b.alloc = .null → c.realloc i = true) ∧
  b.alloc ≠ .freed ∧
  (b.alloc = .null → b.counter = 0)

/-- Declared sizes leave room for the terminator. -/
def RtCtx.SizesOK (c : RtCtx) : Prop :=
  ∀ i, (c.ty i).cap ≤ (c.ty i).size ∧ ((c.ty i).nullTerm = true → (c.ty i).cap < (c.ty i).size)

def Inv (c : RtCtx) (σ : CState) : Prop :=
  σ.memFault = false ∧ ∀ i, BufP c i (σ.str i)

theorem str_setStr (σ : CState) (i j : Nat) (b : StrBuf) :
    (σ.setStr i b).str j = if j = i ∧ i < σ.strs.size then b else σ.str j := by
  simp only [CState.str, CState.setStr, Array.getD_eq_getD_getElem?, Array.getElem?_setIfInBounds]
  by_cases h : i = j
  · subst h
    by_cases h2 : i < σ.strs.size
    · simp [h2]
    · simp [h2]
  · have : ¬ (j = i) := fun e => h e.symm
    simp [h, this]

theorem memFault_setStr (σ : CState) (i : Nat) (b : StrBuf) :
    (σ.setStr i b).memFault = σ.memFault := rfl

theorem inv_setStr (c : RtCtx) (σ : CState) (i : Nat) (b : StrBuf)
    (h : Inv c σ) (hb : BufP c i b) : Inv c (σ.setStr i b) := by
  refine ⟨h.1, fun j => ?_⟩
  rw [str_setStr]
  split
  · next hj => rw [hj.1]; exact hb
  · exact h.2 j

theorem addFault_str (σ : CState) (m : String) (j : Nat) : (σ.addFault m).str j = σ.str j := by
  simp only [CState.addFault]; split <;> rfl

theorem addFault_memFault (σ : CState) (m : String) : (σ.addFault m).memFault = σ.memFault := by
  simp only [CState.addFault]; split <;> rfl

theorem inv_addFault (c : RtCtx) (σ : CState) (m : String) (h : Inv c σ) : Inv c (σ.addFault m) :=
  ⟨by rw [addFault_memFault]; exact h.1, fun j => by rw [addFault_str]; exact h.2 j⟩

/-- A write inside a writable buffer succeeds and keeps the invariant. -/
theorem inv_writeByte (c : RtCtx) (σ : CState) (i k v : Nat) (h : Inv c σ)
    (hw : (σ.str i).writable = true) (hk : k < (c.ty i).size) :
    Inv c (c.writeByte σ i k v) ∧
    ((c.writeByte σ i k v).str i).counter = (σ.str i).counter ∧
    ((c.writeByte σ i k v).str i).alloc = (σ.str i).alloc := by
  have hsz := (h.2 i).2.1 hw
  have hk' : ¬ (k ≥ (σ.str i).bytes.size) := by omega
  simp only [RtCtx.writeByte, hw, Bool.not_true, Bool.false_eq_true, if_false, hk']
  refine ⟨inv_setStr c σ i _ h ?_, ?_, ?_⟩
  · refine ⟨(h.2 i).1, ?_, (h.2 i).2.2.1, (h.2 i).2.2.2⟩
    intro _
    simp [hsz]
  · rw [str_setStr]; split <;> rfl
  · rw [str_setStr]; split <;> rfl

theorem str_default_of_ge (σ : CState) (i : Nat) (h : ¬ i < σ.strs.size) : σ.str i = default := by
  simp [CState.str, Array.getD_eq_getD_getElem?, Array.getElem?_eq_none (by omega : σ.strs.size ≤ i)]

/-- The on-demand guard keeps the invariant, does not change the counter, and leaves the buffer
    writable. -/
theorem inv_onDemandAlloc (c : RtCtx) (σ : CState) (i : Nat) (h : Inv c σ) :
    Inv c (c.onDemandAlloc σ i) ∧
    ((c.onDemandAlloc σ i).str i).counter = (σ.str i).counter ∧
    ((c.onDemandAlloc σ i).str i).writable = true := by
  have hb := h.2 i
  by_cases hnull : (σ.str i).alloc = .null
  · have hre := hb.2.2.1 hnull
    have hin : i < σ.strs.size := by
      rcases Nat.lt_or_ge i σ.strs.size with hlt | hge
      · exact hlt
      · rw [str_default_of_ge σ i (by omega)] at hnull
        exact absurd hnull (by decide)
    simp only [RtCtx.onDemandAlloc, hre, if_true, hnull, beq_self_eq_true]
    refine ⟨inv_setStr c σ i _ h ?_, ?_, ?_⟩
    · refine ⟨hb.1, ?_, ?_, ?_⟩
      · intro _; simp
      · intro h'; exact absurd h' (by simp)
      · simp
    · rw [str_setStr]; simp [hin]
    · rw [str_setStr]; simp [hin, StrBuf.writable]
  · have hw : (σ.str i).writable = true := by
      have := hb.2.2.2
      simp only [StrBuf.writable]
      cases ha : (σ.str i).alloc <;> simp_all
    have hne : ((σ.str i).alloc == Alloc.null) = false := by
      cases ha : (σ.str i).alloc <;> simp_all
    simp only [RtCtx.onDemandAlloc, hne]
    split <;> exact ⟨h, rfl, hw⟩

theorem absurd_null_of_writable {b : StrBuf} {P : Prop} (hw : b.writable = true) (hn : b.alloc = .null) : P := by
  simp [StrBuf.writable, hn] at hw

theorem inv_setCounter (c : RtCtx) (σ : CState) (i n : Nat) (h : Inv c σ) (hn : n ≤ (c.ty i).cap)
    (hn0 : (σ.str i).alloc = .null → n = 0) :
    Inv c (σ.setStr i { σ.str i with counter := n }) ∧
    ((σ.setStr i { σ.str i with counter := n }).str i).writable = (σ.str i).writable := by
  have hb := h.2 i
  refine ⟨inv_setStr c σ i _ h ⟨hn, hb.2.1, hb.2.2.1, hb.2.2.2.1, hn0⟩, ?_⟩
  rw [str_setStr]; split <;> rfl

/-- Storing one byte at the counter, given room for it. -/
theorem inv_store (c : RtCtx) (hs : c.SizesOK) (σ : CState) (i v : Nat) (h : Inv c σ)
    (hw : (σ.str i).writable = true) (hroom : (σ.str i).counter < (c.ty i).cap) :
    let b := σ.str i
    let σ1 := c.writeByte σ i b.counter v
    let σ2 := σ1.setStr i { σ1.str i with counter := b.counter + 1 }
    let σ3 := if (c.ty i).nullTerm then c.writeByte σ2 i (b.counter + 1) 0 else σ2
    Inv c σ3 := by
  intro b σ1 σ2 σ3
  have hsz := hs i
  have hbdef : b.counter = (σ.str i).counter := rfl
  obtain ⟨h1, hc1, ha1⟩ := inv_writeByte c σ i b.counter v h hw (by omega)
  have hw1 : (σ1.str i).writable = true := by
    simp only [StrBuf.writable] at hw ⊢; rw [ha1]; exact hw
  obtain ⟨h2, hw2⟩ := inv_setCounter c σ1 i (b.counter + 1) h1 (by omega) (absurd_null_of_writable hw1)
  show Inv c (if (c.ty i).nullTerm then c.writeByte σ2 i (b.counter + 1) 0 else σ2)
  split
  · next hnt =>
    exact (inv_writeByte c σ2 i (b.counter + 1) 0 h2 (by rw [hw2]; exact hw1) (by have := hsz.2 hnt; omega)).1
  · exact h2

theorem inv_apply_append (c : RtCtx) (hs : c.SizesOK) (σ : CState) (isStart : Bool) (i : Nat)
    (byte : Option Nat) (h : Inv c σ) (hroom : (σ.str i).counter < (c.ty i).cap) :
    Inv c (c.apply σ isStart (.append i byte)) := by
  obtain ⟨h1, hc, hw⟩ := inv_onDemandAlloc c σ i h
  have := inv_store c hs (c.onDemandAlloc σ i) i (byte.getD 0) h1 hw (by rw [hc]; exact hroom)
  simpa [RtCtx.apply] using this

theorem inv_apply_appendC (c : RtCtx) (hs : c.SizesOK) (σ : CState) (isStart : Bool) (i : Nat)
    (e : IExpr) (h : Inv c σ) (hroom : (σ.str i).counter < (c.ty i).cap) :
    Inv c (c.apply σ isStart (.appendC i e)) := by
  obtain ⟨h1, hc, hw⟩ := inv_onDemandAlloc c σ i h
  simp only [RtCtx.apply]
  split
  · exact inv_addFault c _ _ h1
  · next v _ =>
    have := inv_store c hs (c.onDemandAlloc σ i) i ((CTy.u8.wrap v.v).toNat) h1 hw (by rw [hc]; exact hroom)
    simpa using this

theorem inv_setStrAlloc (c : RtCtx) (σ : CState) (isStart : Bool) (i : Nat) (h : Inv c σ) :
    Inv c (c.setStrAlloc σ isStart i) ∧ ((c.setStrAlloc σ isStart i).str i).writable = true := by
  obtain ⟨h1, _, hw⟩ := inv_onDemandAlloc c σ i h
  exact ⟨h1, hw⟩

theorem inv_foldl_write (c : RtCtx) (i : Nat) (val : Nat → Nat) :
    ∀ (ks : List Nat) (σ : CState), Inv c σ → (σ.str i).writable = true →
      (∀ k ∈ ks, k < (c.ty i).size) →
      Inv c (ks.foldl (fun σ k => c.writeByte σ i k (val k)) σ) ∧
      ((ks.foldl (fun σ k => c.writeByte σ i k (val k)) σ).str i).writable = true := by
  intro ks
  induction ks with
  | nil => intro σ h hw _; exact ⟨h, hw⟩
  | cons k rest ih =>
    intro σ h hw hk
    simp only [List.foldl_cons]
    obtain ⟨h1, _, ha1⟩ := inv_writeByte c σ i k (val k) h hw (hk k (by simp))
    have hw1 : ((c.writeByte σ i k (val k)).str i).writable = true := by
      simp only [StrBuf.writable] at hw ⊢; rw [ha1]; exact hw
    exact ih _ h1 hw1 (fun k' hk' => hk k' (List.mem_cons_of_mem _ hk'))

theorem inv_apply_setStr (c : RtCtx) (hs : c.SizesOK) (σ : CState) (isStart : Bool) (i : Nat)
    (bs : List Nat) (h : Inv c σ) (hfit : bs.length ≤ (c.ty i).cap) :
    Inv c (c.apply σ isStart (.setStr i bs)) := by
  have hsz := hs i
  obtain ⟨h1, hw1⟩ := inv_setStrAlloc c σ isStart i h
  obtain ⟨h2, hw2⟩ := inv_foldl_write c i (fun k => bs.getD k 0) (List.range bs.length) _ h1 hw1
    (fun k hk => by have := List.mem_range.1 hk; omega)
  simp only [RtCtx.apply]
  split
  · next hnt =>
    have hlt := hsz.2 hnt
    obtain ⟨h3, _, ha3⟩ := inv_writeByte c _ i bs.length 0 h2 hw2 (by omega)
    refine (inv_setCounter c _ i bs.length h3 hfit ?_).1
    rw [ha3]; exact absurd_null_of_writable hw2
  · exact (inv_setCounter c _ i bs.length h2 hfit (absurd_null_of_writable hw2)).1

theorem inv_apply_delete (c : RtCtx) (hs : c.SizesOK) (σ : CState) (isStart : Bool) (i : Nat)
    (h : Inv c σ) : Inv c (c.apply σ isStart (.delete i)) := by
  have hb := h.2 i
  simp only [RtCtx.apply]
  split
  · next hcond =>
    simp only [Bool.and_eq_true] at hcond
    have hnf : ((σ.str i).alloc == Alloc.freed) = false := by
      have := hb.2.2.2; cases ha : (σ.str i).alloc <;> simp_all
    simp only [hnf, Bool.false_eq_true, if_false]
    refine inv_setStr c σ i _ h ⟨by simp, ?_, ?_, by simp⟩
    · intro h'; simp [StrBuf.writable] at h'
    · intro _; simp [RtCtx.realloc, hcond.1.1.1, hcond.1.1.2, hcond.2]
  · split
    · next hwr =>
      simp only [Bool.and_eq_true, Bool.not_eq_true'] at hwr
      have hw : (σ.str i).writable = true := by
        have hnf := hb.2.2.2
        have hnn : (σ.str i).alloc ≠ .null := by
          intro hn
          have hre := hb.2.2.1 hn
          simp only [RtCtx.realloc, Bool.and_eq_true] at hre
          have := hwr.2
          simp [hre.1.1, hre.2, hn] at this
        simp only [StrBuf.writable]
        cases ha : (σ.str i).alloc <;> simp_all
      obtain ⟨h1, _, _⟩ := inv_writeByte c σ i 0 0 h hw (by have := (hs i).2 hwr.1; omega)
      exact (inv_setCounter c _ i 0 h1 (by omega) (fun _ => rfl)).1
    · exact (inv_setCounter c _ i 0 h (by omega) (fun _ => rfl)).1

theorem inv_log (c : RtCtx) (σ : CState) (l : Array String) (h : Inv c σ) : Inv c { σ with log := l } :=
  ⟨h.1, fun j => h.2 j⟩

theorem inv_scalars (c : RtCtx) (σ : CState) (l : Array Int) (h : Inv c σ) : Inv c { σ with scalars := l } :=
  ⟨h.1, fun j => h.2 j⟩

/-- The events that do not touch buffers. -/
theorem inv_apply_other (c : RtCtx) (σ : CState) (isStart : Bool) (a : AEv) (h : Inv c σ)
    (ha : match a with
      | .append _ _ => False | .appendC _ _ => False | .setStr _ _ => False | .delete _ => False
      | _ => True) : Inv c (c.apply σ isStart a) := by
  cases a with
  | hook n arg => exact inv_log c σ _ h
  | set i e =>
    simp only [RtCtx.apply]
    split
    · exact inv_addFault c σ _ h
    · exact inv_scalars c σ _ h
  | brk => exact h
  | ret _ => exact h
  | yield _ => exact h
  | opt _ => exact h
  | raised => exact h
  | append _ _ => exact False.elim ha
  | appendC _ _ => exact False.elim ha
  | setStr _ _ => exact False.elim ha
  | delete _ => exact False.elim ha

theorem inv_asked (c : RtCtx) (σ : CState) (isStart : Bool) (q : Quest) (v : Bool) (h : Inv c σ) :
    Inv c (c.applyEv isStart σ (.asked q v)) := by
  cases q with
  | full i => exact h
  | cond e =>
    simp only [RtCtx.applyEv]
    split
    · exact inv_addFault c σ _ h
    · exact h

theorem room_of_not_full (c : RtCtx) (σ : CState) (i : Nat) (h : Inv c σ)
    (hq : (c.answer σ (.full i) == some true) = false) : (σ.str i).counter < (c.ty i).cap := by
  have hle := (h.2 i).1
  simp only [RtCtx.answer] at hq
  have : (σ.str i).counter ≠ (c.ty i).cap := by
    intro heq
    simp [heq] at hq
  omega

theorem runTree_inv (c : RtCtx) (hs : c.SizesOK) (isStart : Bool) (t : CTree) :
    ∀ σ, guardedB c t = true → Inv c σ → Inv c (c.runTree isStart t σ).1 := by
  fun_induction guardedB c t with
  | case1 i kt j b k ihkt ihk =>
    intro σ hg h
    simp only [Bool.and_eq_true, beq_iff_eq] at hg
    obtain ⟨⟨hij, hgt⟩, hgk⟩ := hg
    subst hij
    simp only [RtCtx.runTree]
    split
    · exact ihkt _ hgt (inv_asked c σ isStart _ true h)
    · next hq =>
      have hq' : (c.answer σ (.full i) == some true) = false := by simpa using hq
      have hroom := room_of_not_full c σ i h hq'
      apply ihk _ hgk
      exact inv_apply_append c hs _ isStart i b h hroom
  | case2 i kt j e k ihkt ihk =>
    intro σ hg h
    simp only [Bool.and_eq_true, beq_iff_eq] at hg
    obtain ⟨⟨hij, hgt⟩, hgk⟩ := hg
    subst hij
    simp only [RtCtx.runTree]
    split
    · exact ihkt _ hgt (inv_asked c σ isStart _ true h)
    · next hq =>
      have hq' : (c.answer σ (.full i) == some true) = false := by simpa using hq
      have hroom := room_of_not_full c σ i h hq'
      apply ihk _ hgk
      exact inv_apply_appendC c hs _ isStart i e h hroom
  | case3 q kt kf _ _ ihkt ihkf =>
    intro σ hg h
    simp only [Bool.and_eq_true] at hg
    simp only [RtCtx.runTree]
    split
    · exact ihkt _ hg.1 (inv_asked c σ isStart _ true h)
    · exact ihkf _ hg.2 (inv_asked c σ isStart _ false h)
  | case4 => intro σ hg; exact absurd hg (by simp)
  | case5 => intro σ hg; exact absurd hg (by simp)
  | case6 i bs k ihk =>
    intro σ hg h
    simp only [Bool.and_eq_true, decide_eq_true_eq] at hg
    simp only [RtCtx.runTree, RtCtx.applyEv]
    exact ihk _ hg.2 (inv_apply_setStr c hs σ isStart i bs h hg.1)
  | case7 a k _ _ _ ihk =>
    intro σ hg h
    simp only [RtCtx.runTree, RtCtx.applyEv]
    apply ihk _ hg
    cases a with
    | delete i => exact inv_apply_delete c hs σ isStart i h
    | append _ _ => simp_all
    | appendC _ _ => simp_all
    | setStr _ _ => simp_all
    | hook n arg => exact inv_apply_other c σ isStart _ h trivial
    | set i e => exact inv_apply_other c σ isStart _ h trivial
    | brk => exact inv_apply_other c σ isStart _ h trivial
    | ret x => exact inv_apply_other c σ isStart _ h trivial
    | yield x => exact inv_apply_other c σ isStart _ h trivial
    | opt x => exact inv_apply_other c σ isStart _ h trivial
    | raised => exact inv_apply_other c σ isStart _ h trivial
  | case8 l => intro σ _ h; exact h

theorem inv_state (c : RtCtx) (σ : CState) (s : Int) (h : Inv c σ) : Inv c { σ with state := s } :=
  ⟨h.1, fun j => h.2 j⟩

theorem inv_note (c : RtCtx) (σ : CState) (m : String) (h : Inv c σ) : Inv c (σ.note m) :=
  ⟨h.1, fun j => h.2 j⟩

/-- Every call-level tree of the machine is guarded (for symbols below 257). -/
def RtCtx.CallsGuarded (c : RtCtx) : Prop :=
  ∀ (s : Int) (x : Nat), x < nSym → guardedB c (c.M.call c.semOpts s x) = true

theorem callsGuarded_of_safeCheck (c : RtCtx) (h : c.safeCheck = true) : c.CallsGuarded := by
  intro s x hx
  by_cases hs : s < 0 ∨ s.toNat ≥ c.M.states.size
  · have : c.M.call c.semOpts s x = .leaf (.ret "FAIL" s 0) := by
      simp only [Machine.call, Machine.stepFuel, Machine.dispatch]
      rcases hs with hs | hs <;> simp [hs]
    rw [this]; rfl
  · have hs' : 0 ≤ s ∧ s.toNat < c.M.states.size := by omega
    simp only [RtCtx.safeCheck, Bool.and_eq_true, List.all_eq_true, List.mem_range] at h
    have := h.1.2 s.toNat hs'.2 x hx
    rwa [Int.toNat_of_nonneg hs'.1] at this

theorem sizesOK_of_safeCheck (c : RtCtx) (h : c.safeCheck = true) : c.SizesOK := by
  intro i
  by_cases hi : i < c.M.outs.size
  · simp only [RtCtx.safeCheck, Bool.and_eq_true, List.all_eq_true, List.mem_range] at h
    have := (h.1.1 i hi).1
    simp only [Bool.and_eq_true, decide_eq_true_eq, Bool.or_eq_true, Bool.not_eq_true'] at this
    refine ⟨this.1.1, fun hnt => ?_⟩
    rcases this.1.2 with h2 | h2
    · simp only [RtCtx.ty] at hnt; rw [hnt] at h2; exact absurd h2 (by simp)
    · exact h2
  · have : c.ty i = OutTy.bool := by
      simp [RtCtx.ty, Array.getD_eq_getD_getElem?, Array.getElem?_eq_none (by omega : c.M.outs.size ≤ i)]
      rfl
    rw [this]
    simp [OutTy.cap, OutTy.size, OutTy.nullTerm]

def FeedRes.st : FeedRes → CState
  | .exhausted σ _ => σ
  | .returned σ _ _ => σ

theorem feedL_inv (c : RtCtx) (hs : c.SizesOK) (hg : c.CallsGuarded) :
    ∀ (inp : List Nat) (σ : CState) (pos : Nat), (∀ b ∈ inp, b < nSym) → Inv c σ →
      Inv c (c.feedL σ inp pos).st := by
  intro inp
  induction inp with
  | nil => intro σ pos _ h; simpa [RtCtx.feedL, FeedRes.st] using h
  | cons b rest ih =>
    intro σ pos hb h
    have h1 := runTree_inv c hs false _ σ (hg σ.state b (hb b (by simp))) h
    simp only [RtCtx.feedL]
    split
    · exact ih _ _ (fun y hy => hb y (List.mem_cons_of_mem _ hy)) (inv_state c _ _ h1)
    · exact inv_state c _ _ h1
    · exact inv_state c _ _ h1

theorem runAll_inv (c : RtCtx) (hs : c.SizesOK) (hg : c.CallsGuarded) :
    ∀ (fuel : Nat) (σ : CState) (inp : List Nat) (off : Nat), (∀ b ∈ inp, b < nSym) → Inv c σ →
      Inv c (c.runAll fuel σ inp off).σ := by
  intro fuel
  induction fuel with
  | zero =>
    intro σ inp off hb h
    have := feedL_inv c hs hg inp σ off hb h
    simp only [RtCtx.runAll]
    cases heq : c.feedL σ inp off with
    | exhausted σ' p => rw [heq] at this; exact this
    | returned σ' code p =>
      rw [heq] at this
      simp only [FeedRes.st] at this
      simp only
      split
      · exact inv_note c _ _ (inv_note c _ _ this)
      · exact inv_note c _ _ this
  | succ fuel ih =>
    intro σ inp off hb h
    have := feedL_inv c hs hg inp σ off hb h
    simp only [RtCtx.runAll]
    cases heq : c.feedL σ inp off with
    | exhausted σ' p => rw [heq] at this; exact this
    | returned σ' code p =>
      rw [heq] at this
      simp only [FeedRes.st] at this
      simp only
      split
      · exact ih _ _ _ (fun y hy => hb y (List.mem_of_mem_drop hy)) (inv_note c _ _ this)
      · exact inv_note c _ _ this

theorem runChunks_inv (c : RtCtx) (hs : c.SizesOK) (hg : c.CallsGuarded) :
    ∀ (cs : List (List Nat)) (fuel : Nat) (σ : CState) (off : Nat),
      (∀ ch ∈ cs, ∀ b ∈ ch, b < nSym) → Inv c σ → Inv c (c.runChunks fuel σ cs off).σ := by
  intro cs
  induction cs with
  | nil => intro fuel σ off _ h; exact h
  | cons ch rest ih =>
    intro fuel σ off hb h
    have h1 := runAll_inv c hs hg fuel σ ch off (hb ch (by simp)) h
    simp only [RtCtx.runChunks]
    split
    · exact h1
    · exact ih _ _ _ (fun ch' hc' => hb ch' (List.mem_cons_of_mem _ hc')) h1

/-- **No memory fault.**  For a machine passing `safeCheck`, from any store satisfying the
    invariant, on every input under every chunking (yields re-invoked): no write goes through a
    NULL or freed buffer or outside a buffer, and nothing is freed twice. -/
theorem C03_no_memory_fault (c : RtCtx) (hsafe : c.safeCheck = true)
    (cs : List (List Nat)) (fuel : Nat) (σ : CState) (off : Nat)
    (hb : ∀ ch ∈ cs, ∀ b ∈ ch, b < nSym) (h : Inv c σ) :
    (c.runChunks fuel σ cs off).σ.memFault = false :=
  (runChunks_inv c (sizesOK_of_safeCheck c hsafe) (callsGuarded_of_safeCheck c hsafe) cs fuel σ off hb h).1

/-- **Counters stay within capacity** (and buffers keep their declared size), same quantifiers. -/
theorem C03_counters_within_capacity (c : RtCtx) (hsafe : c.safeCheck = true)
    (cs : List (List Nat)) (fuel : Nat) (σ : CState) (off : Nat)
    (hb : ∀ ch ∈ cs, ∀ b ∈ ch, b < nSym) (h : Inv c σ) (i : Nat) :
    ((c.runChunks fuel σ cs off).σ.str i).counter ≤ (c.ty i).cap :=
  ((runChunks_inv c (sizesOK_of_safeCheck c hsafe) (callsGuarded_of_safeCheck c hsafe) cs fuel σ off hb h).2 i).1

/-- `end()` keeps the invariant as well. -/
theorem C03_end_safe (c : RtCtx) (hsafe : c.safeCheck = true) (σ : CState) (h : Inv c σ) :
    Inv c (c.endCall σ).1 := by
  have h1 := runTree_inv c (sizesOK_of_safeCheck c hsafe) false _ σ
    (callsGuarded_of_safeCheck c hsafe σ.state symEnd (by decide)) h
  simp only [RtCtx.endCall]
  split <;> exact inv_state c _ _ h1

/-! ### `start()` establishes the invariant -/

theorem foldl_setIfInBounds_size (vals : Nat → Option Nat) :
    ∀ (ks : List Nat) (a : Array (Option Nat)),
      (ks.foldl (fun a k => a.setIfInBounds k (vals k)) a).size = a.size := by
  intro ks
  induction ks with
  | nil => intro a; rfl
  | cons k rest ih => intro a; simp only [List.foldl_cons]; rw [ih]; simp

theorem defStr_fits_of_safeCheck (c : RtCtx) (h : c.safeCheck = true) (i : Nat) (hi : i < c.M.outs.size)
    (bs : List Nat) (hd : (c.M.outs.getD i default).defStr = some bs) : bs.length ≤ (c.ty i).cap := by
  simp only [RtCtx.safeCheck, Bool.and_eq_true, List.all_eq_true, List.mem_range] at h
  have := (h.1.1 i hi).1.2
  rw [hd] at this
  simpa [RtCtx.ty] using this

theorem buf_noDefInt_of_safeCheck (c : RtCtx) (h : c.safeCheck = true) (i : Nat) (hi : i < c.M.outs.size)
    (hb : (c.M.outs.getD i default).ty.isBuf = true) : (c.M.outs.getD i default).defInt = none := by
  simp only [RtCtx.safeCheck, Bool.and_eq_true, List.all_eq_true, List.mem_range] at h
  have := (h.1.1 i hi).2
  simp only [Bool.or_eq_true, Bool.not_eq_true', Option.isNone_iff_eq_none] at this
  rcases this with h1 | h1
  · rw [hb] at h1; cases h1
  · exact h1

/-- changing the bytes (same size) and the counter (within capacity) keeps the buffer invariant -/
theorem bufP_update (c : RtCtx) (i : Nat) (b : StrBuf) (bytes' : Array (Option Nat)) (n : Nat)
    (hsz : bytes'.size = b.bytes.size) (hn : n ≤ (c.ty i).cap)
    (h2 : b.writable = true → b.bytes.size = (c.ty i).size)
    (h3 : b.alloc = .null → c.realloc i = true) (h4 : b.alloc ≠ .freed)
    (h5 : b.alloc = .null → n = 0) :
    BufP c i { b with bytes := bytes', counter := n } :=
  ⟨hn, fun hw => by rw [hsz]; exact h2 hw, h3, h4, h5⟩

theorem baseBuf_facts (c : RtCtx) (σ0 : CState) (i : Nat)
    (hdi : (c.M.outs.getD i default).defInt = none) :
    ((c.baseBuf σ0 i).writable = true → (c.baseBuf σ0 i).bytes.size = (c.ty i).size) ∧
    ((c.baseBuf σ0 i).alloc = .null → c.realloc i = true) ∧
    (c.baseBuf σ0 i).alloc ≠ .freed ∧ (c.baseBuf σ0 i).counter = 0 := by
  have hty : (c.M.outs.getD i default).ty.size = (c.ty i).size := rfl
  unfold RtCtx.baseBuf
  simp only []
  by_cases hdyn : c.isDyn i = true
  · rw [if_pos hdyn]
    cases hd : (c.M.outs.getD i default).defStr with
    | some bs =>
      rw [if_pos (by simp)]
      exact ⟨(fun _ => by simpa using hty), (fun hn => by cases hn), (by simp), rfl⟩
    | none =>
      rw [if_neg (by simp)]
      by_cases hod : c.ro.onDemand = true
      · rw [if_pos hod]
        refine ⟨(fun hw => by simp [StrBuf.writable] at hw), (fun _ => ?_), (by simp), rfl⟩
        simp only [RtCtx.realloc, hod, hdyn, RtCtx.hasDefault, hd, hdi, Option.isSome_none, Bool.or_self,
          Bool.not_false, Bool.true_or, Bool.and_self]
      · rw [if_neg hod]
        exact ⟨(fun _ => by simpa using hty), (fun hn => by cases hn), (by simp), rfl⟩
  · rw [if_neg hdyn]
    refine ⟨(fun _ => ?_), (fun hn => by cases hn), (by simp), rfl⟩
    show (if _ then _ else _ : Array (Option Nat)).size = _
    by_cases hsz : (σ0.strs.getD i default).bytes.size = (c.M.outs.getD i default).ty.size
    · rw [if_pos hsz, hsz]; exact hty
    · rw [if_neg hsz]; simpa using hty

theorem baseBuf_notnull_of_default (c : RtCtx) (σ0 : CState) (i : Nat) (bs : List Nat)
    (hd : (c.M.outs.getD i default).defStr = some bs) : (c.baseBuf σ0 i).alloc ≠ .null := by
  unfold RtCtx.baseBuf
  simp only [hd]
  by_cases hdyn : c.isDyn i = true
  · rw [if_pos hdyn]; simp
  · rw [if_neg hdyn]; simp

/-- Every buffer `start()` sets up satisfies the buffer invariant. -/
theorem initBuf_ok (c : RtCtx) (h : c.safeCheck = true) (σ0 : CState) (i : Nat) (hi : i < c.M.outs.size) :
    BufP c i (c.initBuf σ0 i) := by
  unfold RtCtx.initBuf
  simp only []
  by_cases hbuf : (c.M.outs.getD i default).ty.isBuf = true
  · rw [if_neg (by rw [hbuf]; simp)]
    obtain ⟨f2, f3, f4, f5⟩ := baseBuf_facts c σ0 i (buf_noDefInt_of_safeCheck c h i hi hbuf)
    cases hd : (c.M.outs.getD i default).defStr with
    | none =>
      show BufP c i (if _ then _ else _)
      by_cases hc : ((c.M.outs.getD i default).ty.nullTerm && (c.baseBuf σ0 i).alloc != Alloc.null) = true
      · rw [if_pos hc]
        exact bufP_update c i (c.baseBuf σ0 i) ((c.baseBuf σ0 i).bytes.setIfInBounds 0 (some 0)) (c.baseBuf σ0 i).counter
          (by simp) (by rw [f5]; omega) f2 f3 f4 (fun _ => f5)
      · rw [if_neg hc]
        exact ⟨(by rw [f5]; omega), f2, f3, f4, fun _ => f5⟩
    | some bs =>
      have hfit := defStr_fits_of_safeCheck c h i hi bs hd
      refine bufP_update c i (c.baseBuf σ0 i) _ bs.length ?_ hfit f2 f3 f4
        (fun hn => absurd hn (baseBuf_notnull_of_default c σ0 i bs hd))
      by_cases hnt : (c.M.outs.getD i default).ty.nullTerm = true
      · rw [if_pos hnt]
        simp only [Array.size_setIfInBounds]
        exact foldl_setIfInBounds_size (fun k => some (bs.getD k 0)) _ _
      · rw [if_neg hnt]
        exact foldl_setIfInBounds_size (fun k => some (bs.getD k 0)) _ _
  · have hbuf' : (c.M.outs.getD i default).ty.isBuf = false := by simpa using hbuf
    rw [if_pos (by rw [hbuf']; rfl)]
    have hsz : (c.ty i).size = 0 := by
      have : (c.M.outs.getD i default).ty = c.ty i := rfl
      rw [this] at hbuf'
      cases hc : c.ty i <;> simp_all [OutTy.isBuf, OutTy.size]
    refine ⟨(by simp [show (default : StrBuf).counter = 0 from rfl]), ?_, ?_, ?_⟩
    · intro _; simp [show (default : StrBuf).bytes = #[] from rfl, hsz]
    · intro hn; exact absurd hn (by simp [show (default : StrBuf).alloc = .inStruct from rfl])
    · simp [show (default : StrBuf).alloc = .inStruct from rfl]

theorem default_buf_ok (c : RtCtx) (i : Nat) (hi : ¬ i < c.M.outs.size) : BufP c i default := by
  have hty : c.ty i = OutTy.bool := by
    simp [RtCtx.ty, Array.getD_eq_getD_getElem?, Array.getElem?_eq_none (by omega : c.M.outs.size ≤ i)]
    rfl
  refine ⟨by simp [show (default : StrBuf).counter = 0 from rfl], ?_, ?_, ?_⟩
  · intro _; simp [show (default : StrBuf).bytes = #[] from rfl, hty, OutTy.size]
  · intro hn; exact absurd hn (by simp [show (default : StrBuf).alloc = .inStruct from rfl])
  · simp [show (default : StrBuf).alloc = .inStruct from rfl]

theorem initStore_inv (c : RtCtx) (h : c.safeCheck = true) (σ0 : CState) (hm : σ0.memFault = false) :
    Inv c (c.initStore σ0) := by
  refine ⟨hm, fun i => ?_⟩
  by_cases hi : i < c.M.outs.size
  · have : (c.initStore σ0).str i = c.initBuf σ0 i := by
      simp [CState.str, RtCtx.initStore, Array.getD_eq_getD_getElem?, hi]
    rw [this]; exact initBuf_ok c h σ0 i hi
  · have : (c.initStore σ0).str i = default := by
      simp [CState.str, RtCtx.initStore, Array.getD_eq_getD_getElem?, hi]
    rw [this]; exact default_buf_ok c i hi

/-- **`start()` establishes the invariant**: for a machine passing `safeCheck`, whatever the state
    struct held before (its memory-fault flag aside), after `start()` every buffer satisfies the
    buffer invariant and no memory fault has occurred — the hypothesis `Inv` of
    `C03_no_memory_fault` is what every session begins with. -/
theorem C03_start_establishes_inv (c : RtCtx) (hsafe : c.safeCheck = true) (σ0 : CState)
    (hm : σ0.memFault = false) : Inv c (c.start σ0).1 := by
  have hg : guardedB c c.startTree = true := by
    simp only [RtCtx.safeCheck, Bool.and_eq_true] at hsafe
    exact hsafe.2
  have h1 := runTree_inv c (sizesOK_of_safeCheck c hsafe) true c.startTree (c.initStore σ0) hg
    (initStore_inv c hsafe σ0 hm)
  simp only [RtCtx.start]
  split <;> exact inv_state c _ _ h1

/-- From a fresh struct through `start()` and any chunked input: no memory fault. -/
theorem C03_session_safe (c : RtCtx) (hsafe : c.safeCheck = true) (σ0 : CState) (hm : σ0.memFault = false)
    (cs : List (List Nat)) (fuel : Nat) (hb : ∀ ch ∈ cs, ∀ b ∈ ch, b < nSym) :
    (c.runChunks fuel (c.start σ0).1 cs 0).σ.memFault = false :=
  C03_no_memory_fault c hsafe cs fuel _ 0 hb (C03_start_establishes_inv c hsafe σ0 hm)

end Nmfu
