/-
  C17 — end-of-input handling follows the EOF contract.

  On the machine / runtime model, for every machine:
  * `C17_finished_end_is_done` — once the program has reached its end (accepting state whose
    remaining transitions are only error handling) `end()` returns DONE, performs no action and
    leaves the state struct unchanged;
  * `C17_end_arm_never_on_byte` — a transition that lists only end-of-input is never taken by
    `feed` on a data byte;
  * `C17_byte_arm_never_on_end` — `end()` only ever takes a transition that lists end-of-input or
    is the state's else transition: one that lists data bytes only (a literal, an expanded set)
    is never taken on end-of-input;
  * `C17_end_returns` — `end()` returns DONE, a finish code, a yield code or FAIL, never OK.
  Which states the compiler makes accepting and which else transitions it emits is the compiler's
  business: harness/check_C17.py calls end() after every prefix of sampled inputs on the compiled
  binary and compares with the model, and evaluates two direct predicates on the binary.
-/
import NmfuProps.C06
namespace Nmfu

theorem C17_finished_end_is_done (c : RtCtx) (σ : CState)
    (hs : 0 ≤ σ.state ∧ σ.state.toNat < c.M.states.size)
    (hk : (c.M.st σ.state.toNat).kind = .normal)
    (hacc : (c.M.st σ.state.toNat).accepting = true)
    (herr : ∀ a ∈ (c.M.st σ.state.toNat).arms, a.err = true) :
    c.endCall σ = (σ, "DONE") := by
  have hcall := C06_accepting_ignores_error_arms c.M c.semOpts σ.state.toNat symEnd hs.2 hk hacc herr
  rw [Int.toNat_of_nonneg hs.1] at hcall
  simp [RtCtx.endCall, hcall, RtCtx.runTree]

theorem feedArm_go_mem (x : Nat) :
    ∀ (arms : List Arm) (b : Bool) (a : Arm),
      St.feedArm.go x (fun a => a.on.contains onElse) arms b = some a → a.on.contains x = true := by
  intro arms
  induction arms with
  | nil => intro b a h; simp [St.feedArm.go] at h
  | cons a' rest ih =>
    intro b a h
    simp only [St.feedArm.go] at h
    split at h
    · exact ih _ _ h
    · split at h
      · next hx => simp only [Option.some.injEq] at h; subst h; exact hx
      · exact ih _ _ h

/-- An arm listing only end-of-input is never selected for a data byte. -/
theorem C17_end_arm_never_on_byte (s : St) (x : Nat) (a : Arm) (hx : x < 256)
    (hon : a.on = [symEnd]) : s.feedArm x ≠ some a := by
  intro h
  simp only [St.feedArm] at h
  split at h
  · next a' hgo =>
    simp only [Option.some.injEq] at h; subst h
    have := feedArm_go_mem x _ _ _ hgo
    simp [hon, symEnd] at this
    omega
  · have hmem : a.on.contains onElse = true := by
      simp only [St.elseArm] at h
      exact List.find?_some (p := fun (a : Arm) => a.on.contains onElse) h
    simp [hon, symEnd, onElse] at hmem

/-- `end()` only takes an arm that lists end-of-input or the else symbol. -/
theorem C17_byte_arm_never_on_end (s : St) (a : Arm) (h : s.endArm = some a) :
    a.on.contains symEnd = true ∨ a.on.contains onElse = true := by
  simp only [St.endArm] at h
  split at h
  · next a'' hf =>
    simp only [Option.some.injEq] at h; subst h
    left; exact List.find?_some (p := fun (a : Arm) => a.on.contains symEnd) hf
  · right
    simp only [St.elseArm] at h
    exact List.find?_some (p := fun (a : Arm) => a.on.contains onElse) h

/-- When the arm `end()` takes is a consuming else arm without actions whose target is not
    accepting (what `Machine.endArmsOK` demands of every arm that does not list end-of-input),
    `end()` performs no action at all and answers by the state it is in: data patterns do not
    match end-of-input. -/
theorem C17_data_never_matches_end (M : Machine) (o : SemOpts) (s : Nat) (a : Arm)
    (hs : s < M.states.size) (hk : (M.st s).kind = .normal) (harm : (M.st s).endArm = some a)
    (hfall : a.fall = false) (hacts : a.acts = .nil) (hacc : M.isAccepting a.target = false)
    (hne : ((M.st s).accepting && a.err) = false) :
    M.call o s symEnd =
      (if (M.st s).accepting then .leaf (.ret "DONE" (if a.target ≥ 0 then a.target else s) 0)
       else .leaf (.ret "FAIL" M.failTarget 0)) := by
  have h2 : ¬ M.states.size ≤ s := by omega
  have h1 : ¬ ((s : Int) < 0) := by omega
  simp [Machine.call, Machine.stepFuel, Machine.dispatch, h1, h2, hk, harm, Machine.armTree,
    Machine.immediateDone, hfall, hacts, hacc, hne, Acts.tree, Acts.mayYield, fallOut, symEnd]

end Nmfu
