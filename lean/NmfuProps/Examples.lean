/-
  Non-vacuity: a machine the real nmfu compiled — exported by harness/export.py from

      out str[3] s; hook full;
      parser { try { s += /a+/; ";"; } catch (outofspace) { full(); wait ";"; } "!"; }

  at -O1 with EOF support, transcribed below — satisfies the decidable hypotheses of the runtime
  theorems (the kernel evaluates them), and sessions on it behave as the program reads.  The check
  scripts evaluate the same predicates on every exported machine with compiled code; the harness
  compares this transcription with a fresh export on every run (check_C06).
-/
import NmfuProps.C03
import NmfuProps.C04
import NmfuProps.C17
import NmfuProps.C02
import NmfuProps.C12Storage
namespace Nmfu

private def arm (on : List Nat) (target : Int) (fall err : Bool) (acts : Acts := .nil) : Arm :=
  { on := on, cond := .else_, target := target, fall := fall, err := err, acts := acts }

private def app : Acts := .cons (.append 3 0) .nil
private def hk : Acts := .cons (.hook "full") .nil

def exMachine : Machine where
  states := #[
    { kind := .normal, accepting := false, arms := [arm [257] 7 true true, arm [97] 1 false false app] },
    { kind := .normal, accepting := false, arms := [arm [257] 7 true true, arm [97] 1 false false app, arm [59] 2 false false] },
    { kind := .normal, accepting := false, arms := [arm [257] 7 true true, arm [33] 6 false false] },
    { kind := .normal, accepting := false, arms := [arm [257] 4 false true hk, arm [59] 5 false false hk] },
    { kind := .normal, accepting := false, arms := [arm [257] 4 false true, arm [59] 5 false false] },
    { kind := .normal, accepting := false, arms := [arm [257] 7 true true, arm [33] 6 false false] },
    { kind := .normal, accepting := true, arms := [] },
    { kind := .fail, accepting := false, arms := [] }]
  start := 0
  outs := #[{ name := "s", ty := .str 3 true, defInt := none, defStr := none }]
  startActs := .nil
  hooks := ["full"]
  finishCodes := []
  yieldCodes := []

def exCtx : RtCtx := { M := exMachine, ro := {} }
def exCtxOnDemand : RtCtx := { M := exMachine, ro := { dynamic := true, onDemand := true, deleteFrees := true } }

/-- hypotheses of C03 (memory safety), in two storage modes -/
example : exCtx.safeCheck = true := by decide +kernel
example : exCtxOnDemand.safeCheck = true := by decide +kernel
/-- hypothesis of C02 / C10 (every call tree ends in a leaf the feed loop understands) -/
example : exMachine.leavesOK {} = true := by decide +kernel
/-- hypothesis of C04 (no dispatch runs into its move budget) -/
example : exCtx.noSpinCheck = true := by decide +kernel
/-- hypothesis of `C10_end_fail_is_final` (a FAIL from `end()` leaves the fail state behind) -/
example : exMachine.endFailOK {} = true := by decide +kernel
/-- hypothesis of `C10_end_fail_then_empty_chunk` (… exactly the index the empty-chunk test names) -/
example : exMachine.endFailExact {} = true := by decide +kernel
/-- hypotheses of `C10_fail_is_final` (FAIL leaves `failTarget`, everything else a state of the table; the
    empty-chunk test names `failTarget`), the start state is good, and a session that fails: `b`, then an
    empty chunk, `a`, `end()` — every call after the FAIL answers FAIL -/
example : exMachine.failClosed {} = true := by decide +kernel
example : ({ exCtx with ro := { zeroLen := true, eof := true } } : RtCtx).emptyFails exMachine.failTarget = true := by decide +kernel
example : exCtx.startClosed = true := by decide +kernel
example : (({ exCtx with ro := { zeroLen := true, eof := true } } : RtCtx).session {} [.feed [98] 0, .feed [] 0, .feed [97] 0, .endInput]).2
    = [("OK", 0), ("FAIL", 0), ("FAIL", 0), ("FAIL", 0), ("FAIL", 0)] := by decide +kernel
/-- hypothesis of C17 (no data-pattern arm is taken on end-of-input) -/
example : exMachine.endArmsOK = true := by decide +kernel

/-- the session `aa;!` : two bytes stored, DONE at the last byte -/
example : (let r := exCtx.runChunks 4 (exCtx.start {}).1 [[97, 97, 59, 33]] 0
           (r.σ.memFault, (r.σ.str 0).counter, r.σ.state)) = (false, 2, 6) := by decide +kernel

/-- the session `aaa;!` in two chunks: the third `a` finds the buffer full, the handler calls the
    hook (one log line) and waits for `;`; the second log line is the DONE code at offset 4 -/
example : (let r := exCtx.runChunks 4 (exCtx.start {}).1 [[97, 97], [97, 59, 33]] 0
           (r.σ.memFault, (r.σ.str 0).counter, r.σ.state, r.σ.log.size)) = (false, 2, 6, 2) := by decide +kernel

/-- hypothesis of `C12_storage_independent` (no expression indexes into a buffer), and the second
    context is the first one with other storage options -/
example : exCtx.idxFreeCheck = true := by decide +kernel
example : exCtxOnDemand = exCtx.withStorage true true true := rfl

/-- the session `aaa;!` then `end()`, in the struct and on the heap on demand with freeing: the
    codes and cursors of `start`, `feed`, `end`, and the two bytes that were stored -/
example : (exCtx.session {} [.feed [97, 97, 97, 59, 33] 0, .endInput]).2
    = [("OK", 0), ("DONE", 4), ("DONE", 0)] := by decide +kernel
example : (exCtxOnDemand.session {} [.feed [97, 97, 97, 59, 33] 0, .endInput]).2
    = [("OK", 0), ("DONE", 4), ("DONE", 0)] := by decide +kernel
example : (exCtxOnDemand.session {} [.feed [97, 97] 0, .feed [97, 59, 33] 0]).1.abs.content 0
    = [some 97, some 97] := by decide +kernel

end Nmfu
