/-
  C13 — macros behave exactly like their textual expansion (behavioural part).

  The machine compiled from the program with macros and the machine compiled from its expansion
  (produced by an expander independent of nmfu's binding code) are compared by the equivalence
  certificate; the theorem is its soundness at the two machines: same events on every input under
  every outcome of every data test.  The binding mechanism itself (argument stack, early / late
  binding) is not modelled in Lean: equality of verdicts and the diagnosed-error cases are
  evaluated on the implementation by harness/check_C13.py.
-/
import NmfuProps.C20
namespace Nmfu

theorem C13_expansion_equivalent (withMacros expanded : Machine) (o : SemOpts) (V : List (PS Nat Nat AEv Quest))
    (h : certOK (withMacros.sm o) (expanded.sm o) nSym V = true) (ω : Oracle AEv Quest) (w : List Nat)
    (hw : ∀ x ∈ w, x < nSym) :
    Comparable ((withMacros.sm o).events ω w) ((expanded.sm o).events ω w) ∧
    ((withMacros.sm o).finalCfg ω w = none → (expanded.sm o).finalCfg ω w = none →
      (withMacros.sm o).events ω w = (expanded.sm o).events ω w) :=
  C05_optimised_equivalent withMacros expanded o V h ω w hw

end Nmfu
