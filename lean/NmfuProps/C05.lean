/-
  C05 — optimisation levels and flags never change parser behaviour.

  The theorem below is `certOK_sound`/`certOK_lag_one` instantiated at compiled machines: if the
  certificate check succeeds for the machines the compiler built at two optimisation settings,
  then on every input (bytes and end-of-input) and under every outcome of every data test the two
  parsers perform the same sequence of actions (hook calls, appends, assignments, yields, breaks,
  result codes), one of them at most one input step ahead of the other, and the same sequence
  once both have returned a terminal code.  `harness/check_C05.py` evaluates `certOK` (compiled
  Lean) on the machines exported from the current /repo/nmfu.py.
-/
import NmfuModel.Mach
import NmfuProps.EquivSound
namespace Nmfu

theorem C05_optimised_equivalent (A B : Machine) (o : SemOpts) (V : List (PS Nat Nat AEv Quest))
    (h : certOK (A.sm o) (B.sm o) nSym V = true) (ω : Oracle AEv Quest) (w : List Nat)
    (hw : ∀ x ∈ w, x < nSym) :
    Comparable ((A.sm o).events ω w) ((B.sm o).events ω w) ∧
    ((A.sm o).finalCfg ω w = none → (B.sm o).finalCfg ω w = none →
      (A.sm o).events ω w = (B.sm o).events ω w) :=
  certOK_sound h (by decide) ω w hw

theorem C05_lag_at_most_one_step (A B : Machine) (o : SemOpts) (V : List (PS Nat Nat AEv Quest))
    (h : certOK (A.sm o) (B.sm o) nSym V = true) (ω : Oracle AEv Quest) (w : List Nat) (x : Nat)
    (hw : ∀ y ∈ w, y < nSym) (hx : x < nSym) :
    (A.sm o).events ω w <+: (B.sm o).events ω (w ++ [x]) ∧
    (B.sm o).events ω w <+: (A.sm o).events ω (w ++ [x]) :=
  certOK_lag_one h ω w x hw hx

/-! Non-vacuity: two different machines for `"a"; h();` — one calls the hook on the arm that
consumes `a`, the other on a fall-through taken at the next symbol — have a valid certificate,
and a machine calling another hook has none among the obvious candidates. -/

def exFail : St := ⟨.fail, false, []⟩
def exEager : Machine :=
  { states := #[⟨.normal, false, [⟨[97], .else_, 1, false, false, .cons (.hook "h") .nil⟩,
                                  ⟨[onElse], .else_, 2, true, true, .nil⟩]⟩,
                ⟨.normal, false, [⟨[onElse], .else_, 2, true, true, .nil⟩]⟩, exFail],
    start := 0, outs := #[], startActs := .nil, hooks := ["h"], finishCodes := [], yieldCodes := [] }
def exLazy : Machine :=
  { states := #[⟨.normal, false, [⟨[97], .else_, 1, false, false, .nil⟩,
                                  ⟨[onElse], .else_, 3, true, true, .nil⟩]⟩,
                ⟨.normal, false, [⟨[onElse], .else_, 2, true, false, .cons (.hook "h") .nil⟩]⟩,
                ⟨.normal, false, [⟨[onElse], .else_, 3, true, true, .nil⟩]⟩, exFail],
    start := 0, outs := #[], startActs := .nil, hooks := ["h"], finishCodes := [], yieldCodes := [] }

def exOpts : SemOpts := { strictDone := false, substLast := false }
def exCert : List (PS Nat Nat AEv Quest) :=
  [⟨some 0, some 0, [], false⟩, ⟨none, none, [], false⟩,
   ⟨some 1, some 1, [.act (.hook "h" none)], true⟩]

/-- The hypothesis of `C05_optimised_equivalent` is satisfiable by two genuinely different
    machines (the hook sits on the consuming arm in one and on the next fall-through in the
    other). -/
example : certOK (exEager.sm exOpts) (exLazy.sm exOpts) nSym exCert = true := by decide +kernel

/-- ... and is not satisfied when the two machines call different hooks. -/
def exOther : Machine :=
  { exEager with states := #[⟨.normal, false, [⟨[97], .else_, 1, false, false, .cons (.hook "g") .nil⟩,
                        ⟨[onElse], .else_, 2, true, true, .nil⟩]⟩,
                ⟨.normal, false, [⟨[onElse], .else_, 2, true, true, .nil⟩]⟩, exFail] }
example : stepCheck (exOther.sm exOpts) (exLazy.sm exOpts)
    ⟨some 1, some 1, [.act (.hook "g" none)], true⟩ 98 = none := by decide +kernel

end Nmfu
