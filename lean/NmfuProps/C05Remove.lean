/-
  C05, second pass inside the model: `_optimize_remove_inaccessible`, mirrored by `Machine.removeInaccessible`
  = `Machine.removeStates reachable` (NmfuModel/Opt.lean; compared with the real pass on every invocation).

  `C05_remove_states_preserves`: for EVERY machine and every set of states closed under reference
  (`Machine.closedUnder`, decidable, evaluated on each snapshot with the set the mirror computed), removing the other
  states and renumbering leaves every dispatch tree the same up to the renumbering of successor states.
  Proof: a simulation `Sim` through the mutual recursion of actions (`Act.tree_sim` / `Acts.tree_sim` /
  `Branches.tree_sim`), the arm body (`armTree_sim`), condition chains (`chain_sim`) and the budgeted dispatch
  (`dispatch_sim`), for any renumbering that finds every kept state, renamed, at its new index (`RenOK`);
  `removeStates_renOK` shows the concrete rank-based renumbering is one.
-/
import NmfuModel.Opt
import NmfuProps.C05Opt
namespace Nmfu

def Tree.mapL {A Q L L' : Type} (f : L → L') : Tree A Q L → Tree A Q L'
  | .emit a k => .emit a (k.mapL f)
  | .ask q a b => .ask q (a.mapL f) (b.mapL f)
  | .leaf l => .leaf (f l)

/-- erase the state a returning leaf carries (`Machine.step` ignores it: the call is over) -/
def eraseRet : MLeaf → MLeaf
  | .ret c _ adv => .ret c 0 adv
  | l => l

def renLeaf (ρ : Int → Int) : MLeaf → MLeaf
  | .next s adv => .next (ρ s) adv
  | .ret c _ adv => .ret c 0 adv
  | .yielded c s adv => .yielded c (ρ s) adv

/-- the tree of the renumbered machine is the tree of the original with successor states renumbered -/
def Sim (ρ : Int → Int) (T' T : CTree) : Prop := T'.mapL eraseRet = T.mapL (renLeaf ρ)

theorem Sim.emit {ρ : Int → Int} {T' T : CTree} (e : AEv) (h : Sim ρ T' T) : Sim ρ (.emit e T') (.emit e T) := by
  simp only [Sim, Tree.mapL] at *; rw [h]
theorem Sim.ask {ρ : Int → Int} {A' A B' B : CTree} (q : Quest) (h1 : Sim ρ A' A) (h2 : Sim ρ B' B) :
    Sim ρ (.ask q A' B') (.ask q A B) := by
  simp only [Sim, Tree.mapL] at *; rw [h1, h2]
theorem Sim.ret {ρ : Int → Int} (c : String) (s' s : Int) (adv : Nat) : Sim ρ (.leaf (.ret c s' adv)) (.leaf (.ret c s adv)) := by
  simp [Sim, Tree.mapL, eraseRet, renLeaf]
theorem Sim.next {ρ : Int → Int} (s : Int) (adv : Nat) : Sim ρ (.leaf (.next (ρ s) adv)) (.leaf (.next s adv)) := by
  simp [Sim, Tree.mapL, eraseRet, renLeaf]
theorem Sim.yielded {ρ : Int → Int} (c : String) (s : Int) (adv : Nat) :
    Sim ρ (.leaf (.yielded c (ρ s) adv)) (.leaf (.yielded c s adv)) := by
  simp [Sim, Tree.mapL, eraseRet, renLeaf]

section
variable (ren : Array Int) (good : Int → Prop)

mutual
  theorem Act.tree_sim (o : SemOpts) (x adv advBase : Nat) (re re' : Int → Nat → CTree) (oc oc' : Int → CTree)
      (hre : ∀ h n, good h → Sim (renT ren) (re' (renT ren h) n) (re h n))
      (hoc : ∀ h, good h → Sim (renT ren) (oc' (renT ren h)) (oc h)) :
      ∀ (a : Act) (st : Int) (kN kS kN' kS' : Int → CTree),
        (∀ t ∈ a.targets, good t) → good st →
        (∀ s, good s → Sim (renT ren) (kN' (renT ren s)) (kN s)) →
        (∀ s, good s → Sim (renT ren) (kS' (renT ren s)) (kS s)) →
        Sim (renT ren) ((a.rename ren).tree ⟨o, x, adv, advBase, re', oc'⟩ (renT ren st) kN' kS')
          (a.tree ⟨o, x, adv, advBase, re, oc⟩ st kN kS)
    | .finish none, st, _, _, _, _, _, _, _, _ => by simp only [Act.rename, Act.tree]; exact Sim.ret _ _ _ _
    | .finish (some c), st, _, _, _, _, _, _, _, _ => by simp only [Act.rename, Act.tree]; exact Sim.ret _ _ _ _
    | .yield c, st, _, _, _, _, _, _, _, _ => by simp only [Act.rename, Act.tree]; exact Sim.yielded _ _ _
    | .hook n, st, kN, kS, kN', kS', _, hst, hN, _ => by
        simp only [Act.rename, Act.tree]; exact Sim.emit _ (hN st hst)
    | .append oos out, st, kN, kS, kN', kS', ht, hst, hN, _ => by
        simp only [Act.rename, Act.tree]
        exact Sim.ask _ (hre oos _ (ht oos (by simp [Act.targets]))) (Sim.emit _ (hN st hst))
    | .appendC oos out each e, st, kN, kS, kN', kS', ht, hst, hN, _ => by
        simp only [Act.rename, Act.tree]
        have hg := ht oos (by simp [Act.targets])
        refine Sim.ask _ ?_ (Sim.emit _ (hN st hst))
        split
        · exact hre oos _ hg
        · exact hoc oos hg
    | .set out e, st, kN, kS, kN', kS', _, hst, hN, _ => by
        simp only [Act.rename, Act.tree]
        split
        · exact hN st hst
        · exact Sim.emit _ (hN st hst)
    | .setStr out bs, st, kN, kS, kN', kS', _, hst, hN, _ => by
        simp only [Act.rename, Act.tree]
        split
        · exact hN st hst
        · exact Sim.emit _ (hN st hst)
    | .delete out, st, kN, kS, kN', kS', _, hst, hN, _ => by
        simp only [Act.rename, Act.tree]
        split
        · exact hN st hst
        · exact Sim.emit _ (hN st hst)
    | .brk e after, st, kN, kS, kN', kS', ht, hst, _, hS => by
        simp only [Act.rename, Act.tree]
        have he : good e := ht e (by simp [Act.targets])
        exact Acts.tree_sim o x adv advBase re re' oc oc' hre hoc after st _ kS _ kS'
          (fun t h => ht t (by simp [Act.targets, h])) hst (fun _ _ => hS e he) hS
    | .cond bs, st, kN, kS, kN', kS', ht, hst, hN, hS => by
        simp only [Act.rename, Act.tree]
        exact Branches.tree_sim o x adv advBase re re' oc oc' hre hoc bs st kN kS kN' kS'
          (fun t h => ht t (by simp [Act.targets, h])) hst hN hS
  theorem Acts.tree_sim (o : SemOpts) (x adv advBase : Nat) (re re' : Int → Nat → CTree) (oc oc' : Int → CTree)
      (hre : ∀ h n, good h → Sim (renT ren) (re' (renT ren h) n) (re h n))
      (hoc : ∀ h, good h → Sim (renT ren) (oc' (renT ren h)) (oc h)) :
      ∀ (a : Acts) (st : Int) (kN kS kN' kS' : Int → CTree),
        (∀ t ∈ a.targets, good t) → good st →
        (∀ s, good s → Sim (renT ren) (kN' (renT ren s)) (kN s)) →
        (∀ s, good s → Sim (renT ren) (kS' (renT ren s)) (kS s)) →
        Sim (renT ren) ((a.rename ren).tree ⟨o, x, adv, advBase, re', oc'⟩ (renT ren st) kN' kS')
          (a.tree ⟨o, x, adv, advBase, re, oc⟩ st kN kS)
    | .nil, st, kN, kS, kN', kS', _, hst, hN, _ => by simp only [Acts.rename, Acts.tree]; exact hN st hst
    | .cons a r, st, kN, kS, kN', kS', ht, hst, hN, hS => by
        simp only [Acts.rename, Acts.tree]
        exact Act.tree_sim o x adv advBase re re' oc oc' hre hoc a st _ kS _ kS'
          (fun t h => ht t (by simp [Acts.targets, h])) hst
          (fun s hs => Acts.tree_sim o x adv advBase re re' oc oc' hre hoc r s kN kS kN' kS'
            (fun t h => ht t (by simp [Acts.targets, h])) hs hN hS) hS
  theorem Branches.tree_sim (o : SemOpts) (x adv advBase : Nat) (re re' : Int → Nat → CTree) (oc oc' : Int → CTree)
      (hre : ∀ h n, good h → Sim (renT ren) (re' (renT ren h) n) (re h n))
      (hoc : ∀ h, good h → Sim (renT ren) (oc' (renT ren h)) (oc h)) :
      ∀ (a : Branches) (st : Int) (kN kS kN' kS' : Int → CTree),
        (∀ t ∈ a.targets, good t) → good st →
        (∀ s, good s → Sim (renT ren) (kN' (renT ren s)) (kN s)) →
        (∀ s, good s → Sim (renT ren) (kS' (renT ren s)) (kS s)) →
        Sim (renT ren) ((a.rename ren).tree ⟨o, x, adv, advBase, re', oc'⟩ (renT ren st) kN' kS')
          (a.tree ⟨o, x, adv, advBase, re, oc⟩ st kN kS)
    | .nil, st, kN, kS, kN', kS', _, hst, hN, _ => by simp only [Branches.rename, Branches.tree]; exact hN st hst
    | .cons .else_ body rest, st, kN, kS, kN', kS', ht, hst, hN, hS => by
        simp only [Branches.rename, Branches.tree]
        exact Acts.tree_sim o x adv advBase re re' oc oc' hre hoc body st kN kS kN' kS'
          (fun t h => ht t (by simp [Branches.targets, h])) hst hN hS
    | .cons (.const true) body rest, st, kN, kS, kN', kS', ht, hst, hN, hS => by
        simp only [Branches.rename, Branches.tree]
        exact Acts.tree_sim o x adv advBase re re' oc oc' hre hoc body st kN kS kN' kS'
          (fun t h => ht t (by simp [Branches.targets, h])) hst hN hS
    | .cons (.const false) body rest, st, kN, kS, kN', kS', ht, hst, hN, hS => by
        simp only [Branches.rename, Branches.tree]
        exact Branches.tree_sim o x adv advBase re re' oc oc' hre hoc rest st kN kS kN' kS'
          (fun t h => ht t (by simp [Branches.targets, h])) hst hN hS
    | .cons (.expr e) body rest, st, kN, kS, kN', kS', ht, hst, hN, hS => by
        simp only [Branches.rename, Branches.tree]
        exact Sim.ask _
          (Acts.tree_sim o x adv advBase re re' oc oc' hre hoc body st kN kS kN' kS'
            (fun t h => ht t (by simp [Branches.targets, h])) hst hN hS)
          (Branches.tree_sim o x adv advBase re re' oc oc' hre hoc rest st kN kS kN' kS'
            (fun t h => ht t (by simp [Branches.targets, h])) hst hN hS)
end
end

/-! ### renaming does not touch what the dispatch looks at -/

mutual
  theorem Act.rename_mayYield (ren : Array Int) : ∀ a : Act, (a.rename ren).mayYield = a.mayYield
    | .finish _ => rfl
    | .yield _ => rfl
    | .hook _ => rfl
    | .append _ _ => rfl
    | .appendC _ _ _ _ => rfl
    | .set _ _ => rfl
    | .setStr _ _ => rfl
    | .delete _ => rfl
    | .brk _ _ => rfl
    | .cond bs => by simp only [Act.rename, Act.mayYield]; exact Branches.rename_mayYield ren bs
  theorem Acts.rename_mayYield (ren : Array Int) : ∀ a : Acts, (a.rename ren).mayYield = a.mayYield
    | .nil => rfl
    | .cons a r => by simp only [Acts.rename, Acts.mayYield, Act.rename_mayYield ren a, Acts.rename_mayYield ren r]
  theorem Branches.rename_mayYield (ren : Array Int) : ∀ a : Branches, (a.rename ren).mayYield = a.mayYield
    | .nil => rfl
    | .cons _ b r => by simp only [Branches.rename, Branches.mayYield, Acts.rename_mayYield ren b, Branches.rename_mayYield ren r]
end

@[simp] theorem Arm.rename_on (ren : Array Int) (a : Arm) : (a.rename ren).on = a.on := rfl
@[simp] theorem Arm.rename_fall (ren : Array Int) (a : Arm) : (a.rename ren).fall = a.fall := rfl
@[simp] theorem Arm.rename_err (ren : Array Int) (a : Arm) : (a.rename ren).err = a.err := rfl
@[simp] theorem Arm.rename_cond (ren : Array Int) (a : Arm) : (a.rename ren).cond = a.cond := rfl
@[simp] theorem Arm.rename_target (ren : Array Int) (a : Arm) : (a.rename ren).target = renT ren a.target := rfl
@[simp] theorem Arm.rename_acts (ren : Array Int) (a : Arm) : (a.rename ren).acts = a.acts.rename ren := rfl
@[simp] theorem St.rename_kind (ren : Array Int) (s : St) : (s.rename ren).kind = s.kind := rfl
@[simp] theorem St.rename_accepting (ren : Array Int) (s : St) : (s.rename ren).accepting = s.accepting := rfl
@[simp] theorem St.rename_arms (ren : Array Int) (s : St) : (s.rename ren).arms = s.arms.map (Arm.rename ren) := rfl

theorem go_rename (ren : Array Int) (x : Nat) (arms : List Arm) (seen : Bool) :
    St.feedArm.go x (fun a => a.on.contains onElse) (arms.map (Arm.rename ren)) seen =
      (St.feedArm.go x (fun a => a.on.contains onElse) arms seen).map (Arm.rename ren) := by
  induction arms generalizing seen with
  | nil => simp [St.feedArm.go]
  | cons a r ih =>
    simp only [List.map_cons, St.feedArm.go, Arm.rename_on]
    by_cases h1 : (a.on.contains onElse && !seen) = true
    · simp only [h1, if_true]; exact ih true
    · simp only [h1, if_false]
      by_cases h2 : a.on.contains x = true
      · have h2' : x ∈ a.on := by simpa using h2
        simp [h2']
      · simp only [h2]; simpa using ih seen

theorem elseArm_rename (ren : Array Int) (s : St) : (s.rename ren).elseArm = s.elseArm.map (Arm.rename ren) := by
  simp only [St.elseArm, St.rename_arms, List.find?_map]
  rfl

theorem feedArm_rename (ren : Array Int) (s : St) (x : Nat) :
    (s.rename ren).feedArm x = (s.feedArm x).map (Arm.rename ren) := by
  simp only [St.feedArm, elseArm_rename, St.rename_arms, go_rename]
  cases St.feedArm.go x (fun a => a.on.contains onElse) s.arms false <;> simp

theorem endArm_rename (ren : Array Int) (s : St) : (s.rename ren).endArm = s.endArm.map (Arm.rename ren) := by
  simp only [St.endArm, elseArm_rename, St.rename_arms, List.find?_map]
  have : ((fun a : Arm => a.on.contains symEnd) ∘ Arm.rename ren) = (fun a : Arm => a.on.contains symEnd) := rfl
  rw [this]
  cases List.find? (fun a : Arm => a.on.contains symEnd) s.arms <;> simp

theorem go_mem (x : Nat) (arms : List Arm) (seen : Bool) (a : Arm)
    (h : St.feedArm.go x (fun a => a.on.contains onElse) arms seen = some a) : a ∈ arms := by
  induction arms generalizing seen with
  | nil => simp [St.feedArm.go] at h
  | cons b r ih =>
    simp only [St.feedArm.go] at h
    by_cases h1 : (b.on.contains onElse && !seen) = true
    · simp only [h1, if_true] at h; exact List.mem_cons_of_mem _ (ih true h)
    · simp only [h1] at h
      by_cases h2 : b.on.contains x = true
      · simp only [h2, if_true] at h
        have : b = a := by simpa using h
        rw [this]; simp
      · simp only [h2] at h
        exact List.mem_cons_of_mem _ (ih seen (by simpa using h))

theorem feedArm_mem (s : St) (x : Nat) (a : Arm) (h : s.feedArm x = some a) : a ∈ s.arms := by
  simp only [St.feedArm] at h
  split at h
  · rename_i b hb; cases h; exact go_mem x s.arms false _ hb
  · exact List.mem_of_find?_eq_some h

/-! ### the simulation -/

/-- a state reference the renumbering handles: "no state" (negative) or a kept state of the table -/
def Good (M : Machine) (keep : Array Bool) (t : Int) : Prop :=
  t < 0 ∨ (t.toNat < M.states.size ∧ keep.getD t.toNat false = true)

/-- what the renumbered machine has to satisfy: every kept state is found, renamed, at its new index -/
structure RenOK (M M' : Machine) (ren : Array Int) (keep : Array Bool) : Prop where
  kept : ∀ t : Int, 0 ≤ t → t.toNat < M.states.size → keep.getD t.toNat false = true →
    0 ≤ renT ren t ∧ (renT ren t).toNat < M'.states.size ∧ M'.st (renT ren t).toNat = (M.st t.toNat).rename ren

/-- every state a kept state refers to — as a transition target, as the target of an out-of-space redirect, as
    the end of a loop a break leaves — is kept (decidable; `Machine.closedUnder`) -/
def RefClosed (M : Machine) (keep : Array Bool) : Prop :=
  ∀ i, i < M.states.size → keep.getD i false = true → ∀ a ∈ (M.st i).arms,
    (Good M keep a.target ∨ (a.acts.finishFirst = true ∧ a.acts.mayYield = false)) ∧ ∀ t ∈ a.acts.targets, Good M keep t

theorem renT_neg (ren : Array Int) (t : Int) (h : t < 0) : renT ren t = -1 := by simp [renT, h]

section
variable {M M' : Machine} {ren : Array Int} {keep : Array Bool} (hR : RenOK M M' ren keep)
include hR

theorem good_nonneg_iff (t : Int) (h : Good M keep t) : (0 ≤ renT ren t) ↔ (0 ≤ t) := by
  rcases h with h | ⟨h1, h2⟩
  · rw [renT_neg ren t h]; omega
  · by_cases h0 : 0 ≤ t
    · have := (hR.kept t h0 h1 h2).1; simp [this, h0]
    · have : t < 0 := by omega
      rw [renT_neg ren t this]; omega

theorem isAccepting_ren (t : Int) (h : Good M keep t) : M'.isAccepting (renT ren t) = M.isAccepting t := by
  by_cases h0 : 0 ≤ t
  · rcases h with h | ⟨h1, h2⟩
    · omega
    · have := hR.kept t h0 h1 h2
      simp only [Machine.isAccepting, this.2.2, St.rename_accepting]
      simp [this.1, h0]
  · have hneg : t < 0 := by omega
    simp only [Machine.isAccepting, renT_neg ren t hneg]
    have : ¬ (t ≥ 0) := by omega
    simp [this]

theorem immediateDone_ren (o : SemOpts) (a : Arm) (e : Bool) (h : Good M keep a.target) :
    M'.immediateDone o (a.rename ren) e = M.immediateDone o a e := by
  simp only [Machine.immediateDone, Arm.rename_target, Arm.rename_fall, isAccepting_ren hR a.target h]
  have hnn := good_nonneg_iff hR a.target h
  by_cases h0 : 0 ≤ a.target
  · rcases h with h | ⟨h1, h2⟩
    · omega
    · have := hR.kept a.target h0 h1 h2
      have hall : (M'.st (renT ren a.target).toNat).arms.all (·.err) = (M.st a.target.toNat).arms.all (·.err) := by
        rw [this.2.2]; simp [List.all_map, Function.comp_def]
      rw [hall]
      have h1' : (renT ren a.target ≥ 0) = True := by simp [this.1]
      have h2' : (a.target ≥ 0) = True := by simp [h0]
      simp only [h1', h2']
  · have hneg : a.target < 0 := by omega
    have h1' : ¬ (renT ren a.target ≥ 0) := by rw [renT_neg ren _ hneg]; omega
    have h2' : ¬ (a.target ≥ 0) := by omega
    simp [h1', h2']

omit hR in
theorem fallOut_sim (f' f : Int) (acc : Bool) (x : Nat) (s' s : Int) (adv : Nat) :
    Sim (renT ren) (fallOut f' acc x s' adv) (fallOut f acc x s adv) := by
  unfold fallOut
  split
  · exact Sim.ret _ _ _ _
  · split <;> exact Sim.ret _ _ _ _

theorem armTree_sim (o : SemOpts) (s : Int) (hs : Good M keep s) (src : St) (a : Arm)
    (ha : Good M keep a.target) (hat : ∀ t ∈ a.acts.targets, Good M keep t) (x adv : Nat)
    (re re' : Int → Nat → CTree)
    (hre : ∀ h n, Good M keep h → Sim (renT ren) (re' (renT ren h) n) (re h n)) :
    Sim (renT ren) (M'.armTree o (renT ren s) (src.rename ren) (a.rename ren) x adv re')
      (M.armTree o s src a x adv re) := by
  have hnn := good_nonneg_iff hR a.target ha
  have hinit : (if (a.rename ren).target ≥ 0 then (a.rename ren).target else renT ren s) =
      renT ren (if a.target ≥ 0 then a.target else s) := by
    simp only [Arm.rename_target]
    by_cases h0 : 0 ≤ a.target
    · have : 0 ≤ renT ren a.target := hnn.mpr h0
      simp [h0, this]
    · have h1 : ¬ (0 ≤ renT ren a.target) := fun h => h0 (hnn.mp h)
      simp [h0, h1]
  have hgi : Good M keep (if a.target ≥ 0 then a.target else s) := by
    split
    · exact ha
    · exact hs
  simp only [Machine.armTree, immediateDone_ren hR o a _ ha, Arm.rename_acts, Acts.rename_mayYield,
    Arm.rename_fall, hinit, St.rename_accepting]
  have htg : ((a.rename ren).target ≥ 0) = (a.target ≥ 0) := by
    simp only [Arm.rename_target]; exact propext ⟨hnn.mp, hnn.mpr⟩
  simp only [htg]
  apply Acts.tree_sim ren (Good M keep) o x _ adv re re' _ _ hre _ a.acts _ _ _ _ _ hat hgi
  · -- epilogue
    intro st hst
    split
    · split
      · exact hre st _ hst
      · exact fallOut_sim _ _ _ _ _ _ _
    · split
      · exact Sim.ret _ _ _ _
      · split
        · exact fallOut_sim _ _ _ _ _ _ _
        · split
          · exact Sim.next _ _
          · exact fallOut_sim _ _ _ _ _ _ _
  · -- epilogue after a break
    intro st hst
    rw [isAccepting_ren hR st hst]
    split
    · exact Sim.ret _ _ _ _
    · split
      · split
        · exact hre st _ hst
        · exact fallOut_sim _ _ _ _ _ _ _
      · split
        · exact Sim.ret _ _ _ _
        · split
          · exact fallOut_sim _ _ _ _ _ _ _
          · split
            · exact Sim.next _ _
            · exact fallOut_sim _ _ _ _ _ _ _
  · -- out-of-space of a constant append
    intro h hh
    split
    · exact Sim.next _ _
    · exact hre h _ hh

end


theorem Acts.tree_sim_finishFirst (ren : Array Int) (good : Int → Prop)
    (o : SemOpts) (x adv advBase : Nat) (re re' : Int → Nat → CTree) (oc oc' : Int → CTree)
    (hre : ∀ h n, good h → Sim (renT ren) (re' (renT ren h) n) (re h n))
    (hoc : ∀ h, good h → Sim (renT ren) (oc' (renT ren h)) (oc h)) :
    ∀ (a : Acts) (st st' : Int) (kN kS kN' kS' : Int → CTree),
      a.finishFirst = true → (∀ t ∈ a.targets, good t) →
      Sim (renT ren) ((a.rename ren).tree ⟨o, x, adv, advBase, re', oc'⟩ st' kN' kS')
        (a.tree ⟨o, x, adv, advBase, re, oc⟩ st kN kS)
  | .nil, _, _, _, _, _, _, hf, _ => by simp [Acts.finishFirst] at hf
  | .cons (.finish none) r, _, _, _, _, _, _, _, _ => by
      simp only [Acts.rename, Act.rename, Acts.tree, Act.tree]; exact Sim.ret _ _ _ _
  | .cons (.finish (some c)) r, _, _, _, _, _, _, _, _ => by
      simp only [Acts.rename, Act.rename, Acts.tree, Act.tree]; exact Sim.ret _ _ _ _
  | .cons (.hook n) r, st, st', kN, kS, kN', kS', hf, ht => by
      simp only [Acts.rename, Act.rename, Acts.tree, Act.tree]
      exact Sim.emit _ (Acts.tree_sim_finishFirst ren good o x adv advBase re re' oc oc' hre hoc r st st' kN kS kN' kS'
        (by simpa [Acts.finishFirst] using hf) (fun t h => ht t (by simp [Acts.targets, h])))
  | .cons (.append oos out) r, st, st', kN, kS, kN', kS', hf, ht => by
      simp only [Acts.rename, Act.rename, Acts.tree, Act.tree]
      exact Sim.ask _ (hre oos _ (ht oos (by simp [Acts.targets, Act.targets])))
        (Sim.emit _ (Acts.tree_sim_finishFirst ren good o x adv advBase re re' oc oc' hre hoc r st st' kN kS kN' kS'
          (by simpa [Acts.finishFirst] using hf) (fun t h => ht t (by simp [Acts.targets, h]))))
  | .cons (.appendC oos out each e) r, st, st', kN, kS, kN', kS', hf, ht => by
      simp only [Acts.rename, Act.rename, Acts.tree, Act.tree]
      have hg := ht oos (by simp [Acts.targets, Act.targets])
      refine Sim.ask _ ?_ (Sim.emit _ (Acts.tree_sim_finishFirst ren good o x adv advBase re re' oc oc' hre hoc r st st' kN kS kN' kS'
          (by simpa [Acts.finishFirst] using hf) (fun t h => ht t (by simp [Acts.targets, h]))))
      split
      · exact hre oos _ hg
      · exact hoc oos hg
  | .cons (.set out e) r, st, st', kN, kS, kN', kS', hf, ht => by
      simp only [Acts.rename, Act.rename, Acts.tree, Act.tree]
      have ih := Acts.tree_sim_finishFirst ren good o x adv advBase re re' oc oc' hre hoc r st st' kN kS kN' kS'
          (by simpa [Acts.finishFirst] using hf) (fun t h => ht t (by simp [Acts.targets, h]))
      split
      · exact ih
      · exact Sim.emit _ ih
  | .cons (.setStr out bs) r, st, st', kN, kS, kN', kS', hf, ht => by
      simp only [Acts.rename, Act.rename, Acts.tree, Act.tree]
      have ih := Acts.tree_sim_finishFirst ren good o x adv advBase re re' oc oc' hre hoc r st st' kN kS kN' kS'
          (by simpa [Acts.finishFirst] using hf) (fun t h => ht t (by simp [Acts.targets, h]))
      split
      · exact ih
      · exact Sim.emit _ ih
  | .cons (.delete out) r, st, st', kN, kS, kN', kS', hf, ht => by
      simp only [Acts.rename, Act.rename, Acts.tree, Act.tree]
      have ih := Acts.tree_sim_finishFirst ren good o x adv advBase re re' oc oc' hre hoc r st st' kN kS kN' kS'
          (by simpa [Acts.finishFirst] using hf) (fun t h => ht t (by simp [Acts.targets, h]))
      split
      · exact ih
      · exact Sim.emit _ ih
  | .cons (.yield _) r, _, _, _, _, _, _, hf, _ => by simp [Acts.finishFirst] at hf
  | .cons (.brk _ _) r, _, _, _, _, _, _, hf, _ => by simp [Acts.finishFirst] at hf
  | .cons (.cond _) r, _, _, _, _, _, _, hf, _ => by simp [Acts.finishFirst] at hf

/-- the arm body of a transition that finishes first: where it nominally leads does not matter -/
theorem armTree_sim_finishFirst {M M' : Machine} {ren : Array Int} {keep : Array Bool}
    (o : SemOpts) (s s' : Int) (src : St) (a : Arm)
    (hf : a.acts.finishFirst = true) (hy : a.acts.mayYield = false)
    (hat : ∀ t ∈ a.acts.targets, Good M keep t) (x adv : Nat)
    (re re' : Int → Nat → CTree)
    (hre : ∀ h n, Good M keep h → Sim (renT ren) (re' (renT ren h) n) (re h n)) :
    Sim (renT ren) (M'.armTree o s' (src.rename ren) (a.rename ren) x adv re')
      (M.armTree o s src a x adv re) := by
  simp only [Machine.armTree, Arm.rename_acts, Acts.rename_mayYield, hy, Bool.false_and, Arm.rename_fall,
    Bool.false_eq_true, if_false]
  apply Acts.tree_sim_finishFirst ren (Good M keep) o x adv adv re re' _ _ hre _ a.acts _ _ _ _ _ _ hf hat
  intro h hh
  split
  · exact Sim.next _ _
  · exact hre h _ hh


section
variable {M M' : Machine} {ren : Array Int} {keep : Array Bool} (hR : RenOK M M' ren keep)
include hR

theorem chain_sim (o : SemOpts) (s : Int) (hs : Good M keep s) (x adv : Nat) (st : St)
    (re re' : Int → Nat → CTree)
    (hre : ∀ h n, Good M keep h → Sim (renT ren) (re' (renT ren h) n) (re h n)) (arms : List Arm)
    (harms : ∀ a ∈ arms, (Good M keep a.target ∨ (a.acts.finishFirst = true ∧ a.acts.mayYield = false)) ∧
      ∀ t ∈ a.acts.targets, Good M keep t) :
    Sim (renT ren) (Machine.dispatch.chain M' o (renT ren s) x adv (st.rename ren) re' (arms.map (Arm.rename ren)))
      (Machine.dispatch.chain M o s x adv st re arms) := by
  induction arms with
  | nil => simp only [List.map_nil, Machine.dispatch.chain]; exact Sim.ret _ _ _ _
  | cons a r ih =>
    have ha := harms a (by simp)
    have ihr := ih (fun b hb => harms b (by simp [hb]))
    have hat : Sim (renT ren) (M'.armTree o (renT ren s) (st.rename ren) (a.rename ren) x adv re')
        (M.armTree o s st a x adv re) := by
      rcases ha.1 with hg | ⟨hf, hy⟩
      · exact armTree_sim hR o s hs st a hg ha.2 x adv re re' hre
      · exact armTree_sim_finishFirst o s _ st a hf hy ha.2 x adv re re' hre
    simp only [List.map_cons, Machine.dispatch.chain, Arm.rename_cond]
    split
    · exact hat
    · exact hat
    · exact ihr
    · exact Sim.ask _ hat ihr

theorem dispatch_sim (hC : RefClosed M keep) (o : SemOpts) :
    ∀ (fuel : Nat) (s : Int) (x adv : Nat), Good M keep s →
      Sim (renT ren) (M'.dispatch o fuel (renT ren s) x adv) (M.dispatch o fuel s x adv) := by
  intro fuel
  induction fuel with
  | zero => intro s x adv _; simp only [Machine.dispatch]; exact Sim.ret _ _ _ _
  | succ fuel ih =>
    intro s x adv hs
    have hre : ∀ h n, Good M keep h →
        Sim (renT ren) ((fun s' adv' => M'.dispatch o fuel s' x adv') (renT ren h) n)
          ((fun s' adv' => M.dispatch o fuel s' x adv') h n) := fun h n hh => ih h x n hh
    by_cases h0 : 0 ≤ s
    · rcases hs with hneg | ⟨h1, h2⟩
      · omega
      · have hk := hR.kept s h0 h1 h2
        have hgs : Good M keep s := Or.inr ⟨h1, h2⟩
        have hc := hC s.toNat h1 h2
        have c1 : ¬ (s < 0 ∨ s.toNat ≥ M.states.size) := by omega
        have c2 : ¬ (renT ren s < 0 ∨ (renT ren s).toNat ≥ M'.states.size) := by omega
        simp only [Machine.dispatch, Bool.or_eq_true, decide_eq_true_eq, c1, c2, if_false, hk.2.2,
          St.rename_kind, St.rename_accepting]
        cases hkind : (M.st s.toNat).kind with
        | fail => exact Sim.ret _ _ _ _
        | cond =>
          simp only [St.rename_arms]
          exact chain_sim hR o s hgs x adv (M.st s.toNat) _ _ hre (M.st s.toNat).arms hc
        | normal =>
          simp only
          have harm : (if x = symEnd then ((M.st s.toNat).rename ren).endArm else ((M.st s.toNat).rename ren).feedArm x)
              = (if x = symEnd then (M.st s.toNat).endArm else (M.st s.toNat).feedArm x).map (Arm.rename ren) := by
            split
            · exact endArm_rename ren _
            · exact feedArm_rename ren _ x
          rw [harm]
          cases harmv : (if x = symEnd then (M.st s.toNat).endArm else (M.st s.toNat).feedArm x) with
          | none => simp only [Option.map_none]; exact fallOut_sim _ _ _ _ _ _ _
          | some a =>
            have hmem : a ∈ (M.st s.toNat).arms := by
              split at harmv
              · simp only [St.endArm] at harmv
                split at harmv
                · rename_i b hb; cases harmv; exact List.mem_of_find?_eq_some hb
                · exact List.mem_of_find?_eq_some harmv
              · exact feedArm_mem _ _ _ harmv
            have ha := hc a hmem
            simp only [Option.map_some, Arm.rename_err]
            by_cases hacc : ((M.st s.toNat).accepting && a.err) = true
            · simp only [hacc, if_true]; exact Sim.ret _ _ _ _
            · simp only [hacc, if_false]
              rcases ha.1 with hg | ⟨hf, hy⟩
              · exact armTree_sim hR o s hgs (M.st s.toNat) a hg ha.2 x adv
                  (fun s' adv' => M.dispatch o fuel s' x adv') (fun s' adv' => M'.dispatch o fuel s' x adv') hre
              · exact armTree_sim_finishFirst o s _ (M.st s.toNat) a hf hy ha.2 x adv
                  (fun s' adv' => M.dispatch o fuel s' x adv') (fun s' adv' => M'.dispatch o fuel s' x adv') hre
    · have hneg : s < 0 := by omega
      have c1 : (s < 0 ∨ s.toNat ≥ M.states.size) := Or.inl hneg
      have c2 : (renT ren s < 0 ∨ (renT ren s).toNat ≥ M'.states.size) := by
        rw [renT_neg ren s hneg]; left; omega
      simp only [Machine.dispatch, Bool.or_eq_true, decide_eq_true_eq, c1, c2, if_true]
      exact Sim.ret _ _ _ _

end


/-! ### the concrete renumbering (`renumber`, `Machine.removeStates` of NmfuModel/Opt.lean) -/

theorem filter_mid {α : Type} (p : α → Bool) (l1 : List α) (a : α) (l2 : List α) (hp : p a = true) :
    ((l1 ++ a :: l2).filter p)[(l1.filter p).length]? = some a := by
  simp [List.filter_append, List.filter_cons, hp]

theorem range_split (n i : Nat) (h : i < n) :
    List.range n = List.range i ++ i :: List.range' (i + 1) (n - i - 1) := by
  have h1 : List.range n = List.range' 0 n := List.range_eq_range' (n := n)
  have h2 : List.range i = List.range' 0 i := List.range_eq_range' (n := i)
  rw [h1, h2]
  have : n = i + ((n - i - 1) + 1) := by omega
  conv => lhs; rw [this]
  rw [← List.range'_append_1]
  simp [List.range'_succ]

theorem kept_at_rank (keep : Array Bool) (n i : Nat) (h : i < n) (hk : keptB keep i = true) :
    ((List.range n).filter (keptB keep))[rank keep i]? = some i := by
  rw [range_split n i h]
  exact filter_mid (keptB keep) (List.range i) i _ hk

theorem renT_renumber (keep : Array Bool) (n : Nat) (t : Int) (h0 : 0 ≤ t) (h1 : t.toNat < n)
    (hk : keep.getD t.toNat false = true) : renT (renumber keep n) t = (rank keep t.toNat : Int) := by
  have : ¬ t < 0 := by omega
  simp only [renT, this, if_false, renumber]
  have hk' : keep[t.toNat]?.getD false = true := by simpa [Array.getD_eq_getD_getElem?] using hk
  simp [Array.getD_eq_getD_getElem?, h1, keptB, hk']

theorem removeStates_renOK (M : Machine) (keep : Array Bool) :
    RenOK M (M.removeStates keep) (renumber keep M.states.size) keep := by
  constructor
  intro t h0 h1 hk
  have hr := renT_renumber keep M.states.size t h0 h1 hk
  have hat := kept_at_rank keep M.states.size t.toNat h1 hk
  have hlt : rank keep t.toNat < ((List.range M.states.size).filter (keptB keep)).length := by
    by_cases hh : rank keep t.toNat < ((List.range M.states.size).filter (keptB keep)).length
    · exact hh
    · rw [List.getElem?_eq_none (by omega)] at hat; cases hat
  rw [hr]
  refine ⟨by omega, ?_, ?_⟩
  · simp only [Machine.removeStates, Int.toNat_natCast, List.size_toArray, List.length_map]
    exact hlt
  · simp only [Machine.st, Machine.removeStates, Int.toNat_natCast, Array.getD_eq_getD_getElem?,
      List.getElem?_toArray, List.getElem?_map, hat, Option.map_some, Option.getD_some]

/-! ### the decidable hypothesis -/

theorem goodB_iff (M : Machine) (keep : Array Bool) (t : Int) : goodB M keep t = true ↔ Good M keep t := by
  simp [goodB, Good]

theorem closedUnder_sound (M : Machine) (keep : Array Bool) (h : M.closedUnder keep = true) : RefClosed M keep := by
  intro i hi hk a ha
  simp only [Machine.closedUnder, List.all_eq_true, List.mem_range, Bool.or_eq_true, Bool.not_eq_true',
    Bool.and_eq_true] at h
  rcases h i hi with h | h
  · rw [hk] at h; cases h
  · have := h a ha
    refine ⟨?_, fun t ht => (goodB_iff M keep t).mp (this.2 t ht)⟩
    rcases this.1 with h1 | h1
    · exact Or.inl ((goodB_iff M keep _).mp h1)
    · exact Or.inr h1

/-- **Removing states that no kept state refers to preserves behaviour, up to the renumbering.**  For every
    machine and every set `keep` of states closed under reference (`closedUnder`, decidable): from every kept
    state (and from "no state"), on every byte and on end-of-input, with any budget of non-consuming moves, the
    dispatch of the machine with the other states removed is the dispatch of the original machine with successor
    states renumbered — same events, same questions, same result codes, same cursor advances (`Sim`; the state a
    *returning* leaf mentions is not compared: the call is over and `Machine.step` ignores it). -/
theorem C05_remove_states_preserves (M : Machine) (keep : Array Bool) (hC : M.closedUnder keep = true)
    (o : SemOpts) (fuel : Nat) (s : Int) (x adv : Nat) (hs : goodB M keep s = true) :
    Sim (renT (renumber keep M.states.size))
      ((M.removeStates keep).dispatch o fuel (renT (renumber keep M.states.size) s) x adv)
      (M.dispatch o fuel s x adv) :=
  dispatch_sim (removeStates_renOK M keep) (closedUnder_sound M keep hC) o fuel s x adv ((goodB_iff M keep s).mp hs)


/-! ### budgets: each machine's own bound on non-consuming moves -/

/-- no path of the tree ends in the move budget running out -/
def NoSpin : CTree → Prop
  | .emit _ k => NoSpin k
  | .ask _ a b => NoSpin a ∧ NoSpin b
  | .leaf (.ret c _ _) => c ≠ "SPIN"
  | .leaf _ => True

/-- `T₁` is `T₀` unless `T₀` ran out of budget somewhere -/
def Mono (T₁ T₀ : CTree) : Prop := NoSpin T₀ → T₁ = T₀

theorem Mono.refl (T : CTree) : Mono T T := fun _ => rfl
theorem Mono.emit {T₁ T₀ : CTree} (e : AEv) (h : Mono T₁ T₀) : Mono (.emit e T₁) (.emit e T₀) := by
  intro hn; simp only [NoSpin] at hn; rw [h hn]
theorem Mono.ask {A₁ A₀ B₁ B₀ : CTree} (q : Quest) (h1 : Mono A₁ A₀) (h2 : Mono B₁ B₀) :
    Mono (.ask q A₁ B₁) (.ask q A₀ B₀) := by
  intro hn; simp only [NoSpin] at hn; rw [h1 hn.1, h2 hn.2]

mutual
  theorem Act.tree_mono (o : SemOpts) (x adv advBase : Nat) (re₀ re₁ : Int → Nat → CTree) (oc₀ oc₁ : Int → CTree)
      (hre : ∀ h n, Mono (re₁ h n) (re₀ h n)) (hoc : ∀ h, Mono (oc₁ h) (oc₀ h)) :
      ∀ (a : Act) (st : Int) (kN₀ kS₀ kN₁ kS₁ : Int → CTree),
        (∀ s, Mono (kN₁ s) (kN₀ s)) → (∀ s, Mono (kS₁ s) (kS₀ s)) →
        Mono (a.tree ⟨o, x, adv, advBase, re₁, oc₁⟩ st kN₁ kS₁) (a.tree ⟨o, x, adv, advBase, re₀, oc₀⟩ st kN₀ kS₀)
    | .finish none, st, _, _, _, _, _, _ => by simp only [Act.tree]; exact Mono.refl _
    | .finish (some c), st, _, _, _, _, _, _ => by simp only [Act.tree]; exact Mono.refl _
    | .yield c, st, _, _, _, _, _, _ => by simp only [Act.tree]; exact Mono.refl _
    | .hook n, st, _, _, _, _, hN, _ => by simp only [Act.tree]; exact Mono.emit _ (hN st)
    | .append oos out, st, _, _, _, _, hN, _ => by
        simp only [Act.tree]; exact Mono.ask _ (hre oos _) (Mono.emit _ (hN st))
    | .appendC oos out each e, st, _, _, _, _, hN, _ => by
        simp only [Act.tree]
        refine Mono.ask _ ?_ (Mono.emit _ (hN st))
        split
        · exact hre oos _
        · exact hoc oos
    | .set out e, st, _, _, _, _, hN, _ => by
        simp only [Act.tree]
        split
        · exact hN st
        · exact Mono.emit _ (hN st)
    | .setStr out bs, st, _, _, _, _, hN, _ => by
        simp only [Act.tree]
        split
        · exact hN st
        · exact Mono.emit _ (hN st)
    | .delete out, st, _, _, _, _, hN, _ => by
        simp only [Act.tree]
        split
        · exact hN st
        · exact Mono.emit _ (hN st)
    | .brk e after, st, _, kS₀, _, kS₁, _, hS => by
        simp only [Act.tree]
        exact Acts.tree_mono o x adv advBase re₀ re₁ oc₀ oc₁ hre hoc after st _ kS₀ _ kS₁ (fun _ => hS e) hS
    | .cond bs, st, kN₀, kS₀, kN₁, kS₁, hN, hS => by
        simp only [Act.tree]
        exact Branches.tree_mono o x adv advBase re₀ re₁ oc₀ oc₁ hre hoc bs st kN₀ kS₀ kN₁ kS₁ hN hS
  theorem Acts.tree_mono (o : SemOpts) (x adv advBase : Nat) (re₀ re₁ : Int → Nat → CTree) (oc₀ oc₁ : Int → CTree)
      (hre : ∀ h n, Mono (re₁ h n) (re₀ h n)) (hoc : ∀ h, Mono (oc₁ h) (oc₀ h)) :
      ∀ (a : Acts) (st : Int) (kN₀ kS₀ kN₁ kS₁ : Int → CTree),
        (∀ s, Mono (kN₁ s) (kN₀ s)) → (∀ s, Mono (kS₁ s) (kS₀ s)) →
        Mono (a.tree ⟨o, x, adv, advBase, re₁, oc₁⟩ st kN₁ kS₁) (a.tree ⟨o, x, adv, advBase, re₀, oc₀⟩ st kN₀ kS₀)
    | .nil, st, _, _, _, _, hN, _ => by simp only [Acts.tree]; exact hN st
    | .cons a r, st, kN₀, kS₀, kN₁, kS₁, hN, hS => by
        simp only [Acts.tree]
        exact Act.tree_mono o x adv advBase re₀ re₁ oc₀ oc₁ hre hoc a st _ kS₀ _ kS₁
          (fun s => Acts.tree_mono o x adv advBase re₀ re₁ oc₀ oc₁ hre hoc r s kN₀ kS₀ kN₁ kS₁ hN hS) hS
  theorem Branches.tree_mono (o : SemOpts) (x adv advBase : Nat) (re₀ re₁ : Int → Nat → CTree) (oc₀ oc₁ : Int → CTree)
      (hre : ∀ h n, Mono (re₁ h n) (re₀ h n)) (hoc : ∀ h, Mono (oc₁ h) (oc₀ h)) :
      ∀ (a : Branches) (st : Int) (kN₀ kS₀ kN₁ kS₁ : Int → CTree),
        (∀ s, Mono (kN₁ s) (kN₀ s)) → (∀ s, Mono (kS₁ s) (kS₀ s)) →
        Mono (a.tree ⟨o, x, adv, advBase, re₁, oc₁⟩ st kN₁ kS₁) (a.tree ⟨o, x, adv, advBase, re₀, oc₀⟩ st kN₀ kS₀)
    | .nil, st, _, _, _, _, hN, _ => by simp only [Branches.tree]; exact hN st
    | .cons .else_ body rest, st, kN₀, kS₀, kN₁, kS₁, hN, hS => by
        simp only [Branches.tree]
        exact Acts.tree_mono o x adv advBase re₀ re₁ oc₀ oc₁ hre hoc body st kN₀ kS₀ kN₁ kS₁ hN hS
    | .cons (.const true) body rest, st, kN₀, kS₀, kN₁, kS₁, hN, hS => by
        simp only [Branches.tree]
        exact Acts.tree_mono o x adv advBase re₀ re₁ oc₀ oc₁ hre hoc body st kN₀ kS₀ kN₁ kS₁ hN hS
    | .cons (.const false) body rest, st, kN₀, kS₀, kN₁, kS₁, hN, hS => by
        simp only [Branches.tree]
        exact Branches.tree_mono o x adv advBase re₀ re₁ oc₀ oc₁ hre hoc rest st kN₀ kS₀ kN₁ kS₁ hN hS
    | .cons (.expr e) body rest, st, kN₀, kS₀, kN₁, kS₁, hN, hS => by
        simp only [Branches.tree]
        exact Mono.ask _
          (Acts.tree_mono o x adv advBase re₀ re₁ oc₀ oc₁ hre hoc body st kN₀ kS₀ kN₁ kS₁ hN hS)
          (Branches.tree_mono o x adv advBase re₀ re₁ oc₀ oc₁ hre hoc rest st kN₀ kS₀ kN₁ kS₁ hN hS)
end

theorem armTree_mono (M : Machine) (o : SemOpts) (si : Int) (src : St) (a : Arm) (x adv : Nat)
    (re₀ re₁ : Int → Nat → CTree) (hre : ∀ h n, Mono (re₁ h n) (re₀ h n)) :
    Mono (M.armTree o si src a x adv re₁) (M.armTree o si src a x adv re₀) := by
  simp only [Machine.armTree]
  apply Acts.tree_mono o x _ adv re₀ re₁ _ _ hre
  · intro h
    split
    · exact Mono.refl _
    · exact hre h _
  · intro st
    split
    · split
      · exact hre st _
      · exact Mono.refl _
    · exact Mono.refl _
  · intro st
    split
    · exact Mono.refl _
    · split
      · split
        · exact hre st _
        · exact Mono.refl _
      · exact Mono.refl _

theorem chain_mono (M : Machine) (o : SemOpts) (s : Int) (x adv : Nat) (st : St)
    (re₀ re₁ : Int → Nat → CTree) (hre : ∀ h n, Mono (re₁ h n) (re₀ h n)) (arms : List Arm) :
    Mono (Machine.dispatch.chain M o s x adv st re₁ arms) (Machine.dispatch.chain M o s x adv st re₀ arms) := by
  induction arms with
  | nil => simp only [Machine.dispatch.chain]; exact Mono.refl _
  | cons a r ih =>
    have hat := armTree_mono M o s st a x adv re₀ re₁ hre
    simp only [Machine.dispatch.chain]
    split
    · exact hat
    · exact hat
    · exact ih
    · exact Mono.ask _ hat ih

/-- **One more move in the budget changes nothing** unless the budget had run out. -/
theorem dispatch_mono (M : Machine) (o : SemOpts) :
    ∀ (fuel : Nat) (s : Int) (x adv : Nat), Mono (M.dispatch o (fuel + 1) s x adv) (M.dispatch o fuel s x adv) := by
  intro fuel
  induction fuel with
  | zero => intro s x adv hn; simp [Machine.dispatch, NoSpin] at hn
  | succ fuel ih =>
    intro s x adv
    have hre : ∀ h n, Mono ((fun s' adv' => M.dispatch o (fuel + 1) s' x adv') h n)
        ((fun s' adv' => M.dispatch o fuel s' x adv') h n) := fun h n => ih h x n
    rw [Machine.dispatch]
    conv => rhs; rw [Machine.dispatch]
    split
    · exact Mono.refl _
    · simp only
      split
      · exact Mono.refl _
      · exact chain_mono M o s x adv _ _ _ hre _
      · split
        · split
          · exact Mono.refl _
          · exact armTree_mono M o s _ _ x adv _ _ hre
        · exact Mono.refl _

theorem dispatch_mono_le (M : Machine) (o : SemOpts) (f : Nat) (s : Int) (x adv : Nat)
    (h : NoSpin (M.dispatch o f s x adv)) : ∀ k, M.dispatch o (f + k) s x adv = M.dispatch o f s x adv := by
  intro k
  induction k with
  | zero => rfl
  | succ k ih =>
    have := dispatch_mono M o (f + k) s x adv (by rw [ih]; exact h)
    rw [show f + (k + 1) = (f + k) + 1 by omega, this, ih]

theorem removeStates_size_le (M : Machine) (keep : Array Bool) : (M.removeStates keep).states.size ≤ M.states.size := by
  simp only [Machine.removeStates, List.size_toArray, List.length_map]
  calc _ ≤ (List.range M.states.size).length := List.length_filter_le _ _
    _ = M.states.size := List.length_range

/-- **The removal theorem at the level of one `feed` / `end()` dispatch with each machine's own budget**: if the
    smaller machine's call does not run out of its (smaller) budget on any path of its tree, it is the original machine's
    call with successor states renumbered. -/
theorem C05_remove_states_call (M : Machine) (keep : Array Bool) (hC : M.closedUnder keep = true)
    (o : SemOpts) (s : Int) (x : Nat) (hs : goodB M keep s = true)
    (hn : NoSpin ((M.removeStates keep).call o (renT (renumber keep M.states.size) s) x)) :
    Sim (renT (renumber keep M.states.size))
      ((M.removeStates keep).call o (renT (renumber keep M.states.size) s) x) (M.call o s x) := by
  have hle := removeStates_size_le M keep
  have hsim := C05_remove_states_preserves M keep hC o M.stepFuel s x 0 hs
  simp only [Machine.call] at hn ⊢
  have hk : M.stepFuel = (M.removeStates keep).stepFuel + (M.stepFuel - (M.removeStates keep).stepFuel) := by
    simp only [Machine.stepFuel]; omega
  have h1 := dispatch_mono_le (M.removeStates keep) o (M.removeStates keep).stepFuel _ x 0 hn
    (M.stepFuel - (M.removeStates keep).stepFuel)
  rw [← hk] at h1
  rw [h1] at hsim
  exact hsim

/-! ### the two passes together -/

/-- **One round of the default optimisation level**, for every machine: simplifying the else-transitions of a
    deterministic table and then removing any set of states closed under reference leaves every dispatch the same up
    to the renumbering — the two theorems compose (the harness checks that the snapshots of a compilation form such a
    chain, `pass_chains`). -/
theorem C05_O1_round_preserves (M : Machine) (hd : M.deterministic = true) (keep : Array Bool)
    (hC : M.simplifyElse.closedUnder keep = true) (o : SemOpts) (fuel : Nat) (s : Int) (x adv : Nat)
    (hs : goodB M.simplifyElse keep s = true) :
    Sim (renT (renumber keep M.simplifyElse.states.size))
      ((M.simplifyElse.removeStates keep).dispatch o fuel (renT (renumber keep M.simplifyElse.states.size) s) x adv)
      (M.dispatch o fuel s x adv) := by
  have h := C05_remove_states_preserves M.simplifyElse keep hC o fuel s x adv hs
  rw [Machine.simplifyElse_dispatch M hd o fuel s x adv] at h
  exact h

/-! ### the hypothesis is satisfiable and the theorem is not about the identity -/

/-- three states, the middle one referred to by nobody: `0 -a-> 2`, `1 -b-> 0` (unreachable), `2` accepting -/
def removeExample : Machine :=
  { states := #[⟨.normal, false, [⟨[97], .else_, 2, false, false, .cons (.hook "h") .nil⟩]⟩,
                ⟨.normal, false, [⟨[98], .else_, 0, false, false, .nil⟩]⟩,
                ⟨.normal, true, []⟩],
    start := 0, outs := #[], startActs := .nil, hooks := ["h"], finishCodes := [], yieldCodes := [] }

example : removeExample.reachable = #[true, false, true] ∧
    removeExample.closedUnder removeExample.reachable = true ∧
    removeExample.removeInaccessible.states.size = 2 ∧
    ((removeExample.removeInaccessible.st 0).arms.map (·.target)) = [1] ∧
    renT (renumber removeExample.reachable 3) 2 = 1 := by
  decide +kernel

/-- a transition that finishes first may name a dropped state: `0 -a-> finish (nominally 1)`, state 1 dropped -/
def finishExample : Machine :=
  { states := #[⟨.normal, false, [⟨[97], .else_, 1, false, false, .cons (.finish none) .nil⟩]⟩,
                ⟨.normal, false, []⟩],
    start := 0, outs := #[], startActs := .nil, hooks := [], finishCodes := [], yieldCodes := [] }

example : finishExample.reachable = #[true, false] ∧ finishExample.closedUnder finishExample.reachable = true ∧
    ((finishExample.removeInaccessible.st 0).arms.map (·.target)) = [-1] := by
  decide +kernel

/-- … and a set that is *not* closed (state 0 kept, its target 2 dropped) is rejected by the check -/
example : removeExample.closedUnder #[true, false, false] = false := by decide +kernel

end Nmfu
