import NmfuProps.EquivSound
import NmfuProps.RtBridge
import NmfuProps.C05
import NmfuProps.C06
import NmfuProps.C02
import NmfuProps.C10
import NmfuProps.C17
import NmfuProps.C12
