import NmfuProps.EquivSound
