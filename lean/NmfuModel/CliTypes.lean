namespace Nmfu

structure FlagInfo where
  id : Nat
  name : String
  default : Bool
  implies : List Nat
  excl : List Nat
  deriving Repr, DecidableEq, Inhabited

end Nmfu
