/-
  The label discipline of the emitted `feed` and `end` functions: which labels the templates
  emit (`_generate_feed_implementation`, `_generate_end_implementation`) and which gotos
  (`_generate_transition_body`, `_generate_action_implementation`), as functions of the machine.
  `skipaction_*` labels are local to one arm body (emitted iff the body contains a break) and are
  left out on both sides.
-/
import NmfuModel.Mach
namespace Nmfu

mutual
  /-- `get_target_override_mode() == NONE` -/
  def Act.overrideNone : Act → Bool
    | .finish _ => false
    | .append _ _ => false
    | .appendC _ _ _ _ => false
    | .brk _ _ => false
    | .cond bs => bs.overrideNone
    | _ => true
  def Branches.overrideNone : Branches → Bool
    | .nil => true
    | .cons _ body rest => body.overrideNone && rest.overrideNone
  def Acts.overrideNone : Acts → Bool
    | .nil => true
    | .cons a rest => a.overrideNone && rest.overrideNone
end

mutual
  /-- the action templates contain `goto repeatswitch` (an out-of-space redirect) -/
  def Act.hasRedirect : Act → Bool
    | .append _ _ => true
    | .appendC _ _ _ _ => true
    | .brk _ after => after.hasRedirect
    | .cond bs => bs.hasRedirect
    | _ => false
  def Branches.hasRedirect : Branches → Bool
    | .nil => false
    | .cons _ body rest => body.hasRedirect || rest.hasRedirect
  def Acts.hasRedirect : Acts → Bool
    | .nil => false
    | .cons a rest => a.hasRedirect || rest.hasRedirect
end

/-- `_transition_will_directly_jump` -/
def Machine.directJump (M : Machine) (strict : Bool) (a : Arm) (exclFall : Bool) : Bool :=
  !(a.fall && !exclFall) && !(M.isAccepting a.target && !strict) && a.acts.overrideNone

def Machine.allArms (M : Machine) : List Arm := M.states.toList.flatMap (·.arms)

def fallLabel (t : Nat) : String := "fall_" ++ toString t
def jptoLabel (t : Nat) : String := "jpto_" ++ toString t

/-- Labels of `feed`. -/
def Machine.feedLabels (M : Machine) (strict : Bool) : List String :=
  "repeatswitch" :: (List.range M.states.size).flatMap fun (idx : Nat) =>
    (if M.allArms.any (fun a => a.target == (idx : Int) && a.fall && M.directJump strict a true)
      then [fallLabel idx] else []) ++
    (if M.allArms.any (fun a => a.target == (idx : Int) && M.directJump strict a false)
      then [jptoLabel idx] else [])

/-- Labels of `end`. -/
def Machine.endLabels (M : Machine) : List String :=
  "repeatswitch" :: (List.range M.states.size).flatMap fun (idx : Nat) =>
    if M.allArms.any (fun a => a.target == (idx : Int) && a.fall) then [fallLabel idx] else []

/-- Gotos in the body of one arm. -/
def Machine.armGotos (M : Machine) (o : SemOpts) (a : Arm) (fromEnd : Bool) : List String :=
  (if a.acts.hasRedirect then ["repeatswitch"] else []) ++
  (if a.fall then
     (if a.target ≥ 0 then
        [if M.directJump o.strictDone a true then fallLabel a.target.toNat else "repeatswitch"]
      else [])
   else if M.immediateDone o a fromEnd then []
   else if fromEnd then []
   else if a.target ≥ 0 then
     [if M.directJump o.strictDone a false then jptoLabel a.target.toNat else "repeatswitch"]
   else [])

/-- The arms whose bodies `feed` emits for a state. -/
def St.feedEmitted (s : St) : List Arm :=
  match s.kind with
  | .fail => []
  | .cond => s.arms
  | .normal =>
    let live := if s.accepting then s.arms.filter (fun a => !a.err) else s.arms
    let elseArm := match s.elseArm with
      | some a => if s.accepting && a.err then none else some a
      | none => none
    -- arms with at least one byte to test (the first else arm aside), then the else arm
    (live.filter fun a => a.on.any (· < 256)) ++ (match elseArm with | some a => [a] | none => [])

def St.endEmitted (s : St) : List Arm :=
  match s.kind with
  | .fail => []
  | .cond => s.arms
  | .normal => match s.endArm with | some a => (if s.accepting && a.err then [] else [a]) | none => []

def Machine.feedGotos (M : Machine) (o : SemOpts) : List String :=
  M.states.toList.flatMap fun s => s.feedEmitted.flatMap fun a => M.armGotos o a false

def Machine.endGotos (M : Machine) (o : SemOpts) : List String :=
  M.states.toList.flatMap fun s => s.endEmitted.flatMap fun a => M.armGotos o a true

end Nmfu
