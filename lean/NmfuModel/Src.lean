/-
  Reference semantics of the nmfu statement language — the "procedural reading" of
  docs/user-ref/parser.md, formalised independently of the compiler.

  A configuration is a continuation: a stack of frames (statements still to run, a running match
  as the Brzozowski derivative of its pattern, a running wait, a running case as the derivatives
  of its clause patterns, loop and try markers).  `disp` answers one symbol (a byte, or 256 for
  end-of-input) with an interaction tree over the same events and questions as the compiled
  machine's semantics, so that the two can be compared by the equivalence certificate.

  Readings taken where the reference leaves room (each is also listed in DESIGN.md):
  * a match that is complete and cannot continue finishes at once; one that can continue finishes
    at the first symbol that does not continue it, and that symbol goes to what follows;
  * actions are performed lazily, when the next symbol is dispatched (the compiler may perform
    them right after the previous byte: the comparison tolerates one step of lag);
  * `foreach` actions run before the appends of the same byte;
  * a mismatch or an out-of-space condition goes to the innermost enclosing handler for that
    reason with the offending symbol unconsumed, or is FAIL;
  * `wait` restarts its pattern on a mismatch with the offending byte, which is skipped if it
    cannot start the pattern; nothing, end-of-input included, makes it fail;
  * the program is finished when nothing is left: DONE, immediately after the last byte when
    nothing else could be consumed.
-/
import NmfuModel.Rx
import NmfuModel.Mach
namespace Nmfu

inductive SAct where
  | hook (n : String)
  | set (out : Nat) (e : IExpr)
  | setStr (out : Nat) (bs : List Nat)
  | delete (out : Nat)
  | appendC (out : Nat) (e : IExpr)
  | finish (code : Option String)
  | yield (code : String)
  | brk (loop : Nat)
  /-- only among the per-byte actions of a `foreach`: an `if` whose branches are blocks of actions
      (block indices into the program; statement-level conditionals are `Stmt.ifs`) -/
  | cond (bs : List (Cond × Nat))
  deriving DecidableEq, Repr, Hashable, Inhabited

/-- An action whose only effect is a non-self-referential write to an output (the compiler may
    schedule it loosely). -/
def SAct.loose : SAct → Bool
  | .set i e => !(IExpr.readsOut i e) && !e.readsLast
  | .setStr _ _ => true
  | .delete _ => true
  | _ => false


/-- dropped from both sides in the attribution mode `dropLoose`: writes that do not read the output
    they write (reading `$last` is allowed: the last execution is the one that counts) -/
def SAct.dropL : SAct → Bool
  | .set i e => !(IExpr.readsOut i e)
  | .setStr _ _ => true
  | .delete _ => true
  | _ => false

/-- what runs for every byte a match consumes: `foreach` actions, then `+=` appends -/
structure PerChar where
  acts : List SAct := []
  appends : List Nat := []
  deriving DecidableEq, Repr, Hashable, Inhabited

inductive Stmt where
  | mtch (r : Rx) (pc : PerChar)
  | wait (r : Rx) (pc : PerChar)
  | act (a : SAct)
  /-- clauses: patterns with priorities and the body block; optional else block -/
  | cas (greedy : Bool) (pc : PerChar) (clauses : List (List (Rx × Nat) × Nat)) (els : Option Nat)
  | opt (b : Nat)
  | loop (id : Nat) (b : Nat)
  | try_ (b : Nat) (nm oos : Bool) (h : Nat)
  | ifs (bs : List (Cond × Nat))
  deriving DecidableEq, Repr, Hashable, Inhabited

structure Prog where
  blocks : Array (List Stmt)
  main : Nat
  deriving Repr, Inhabited

inductive Frame where
  | run (blk pos : Nat)
  | m (r : Rx) (pc : PerChar)
  | w (r0 r : Rx) (pc : PerChar)
  /-- running case: (derivative, priority, body block) of every pattern still alive -/
  | c (greedy : Bool) (pc : PerChar) (alts : List (Rx × Nat × Nat)) (els : Option Nat)
  | loopMark (id : Nat) (blk : Nat)
  | tryMark (nm oos : Bool) (h : Nat)
  deriving DecidableEq, Repr, Hashable, Inhabited

abbrev Kont := List Frame
abbrev STree := Tree AEv Quest (Leaf Kont)

namespace Src

def retHaltS (code : String) : STree := .emit (.ret code) (.leaf .halt)

/-- innermost handler for the reason (`true` = out of space) -/
def unwind (oosReason : Bool) : Kont → Option Kont
  | [] => none
  | .tryMark nm oos h :: rest =>
      if (if oosReason then oos else nm) then some (.run h 0 :: rest) else unwind oosReason rest
  | _ :: rest => unwind oosReason rest

def dropLoop (id : Nat) : Kont → Kont
  | [] => []
  | .loopMark id' _ :: rest => if id' = id then rest else dropLoop id rest
  | _ :: rest => dropLoop id rest

/-- Could the block consume `x` as its first symbol? (static First set; fuel bounds nesting) -/
def firstBlk (p : Prog) : Nat → Nat → Nat → Bool
  | 0, _, _ => false
  | fuel + 1, blk, x =>
    let rec go (ss : List Stmt) : Bool :=
      match ss with
      | [] => false
      | s :: rest =>
        match s with
        | .mtch r _ => (r.deriv x).alive || (r.nullable && go rest)
        -- (a wait takes any byte — it skips what does not match — but end-of-input is not a byte: only a pattern
        --  that can itself begin with `end` lets end-of-input into the block)
        | .wait r _ => x != symEnd || (r.deriv x).alive
        | .act _ => go rest
        | .cas _ _ cl els => (cl.any fun c => c.1.any fun pr => (pr.1.deriv x).alive) || els.isSome
        | .opt b => firstBlk p fuel b x || go rest
        | .loop _ b => firstBlk p fuel b x
        | .try_ b _ _ _ => firstBlk p fuel b x
        | .ifs bs => bs.any fun cb => firstBlk p fuel cb.2 x
    go (p.blocks.getD blk [])

structure Ctx where
  p : Prog
  o : SemOpts
  x : Nat
  /-- keep loose actions pending until the next commit point (so that an error in between makes
      them optional); off = perform every action as soon as it is reached -/
  lp : Bool

/-- An action as an event, with `$last` bound to the symbol when events are closed. -/
def actEv (c : Ctx) : SAct → Option AEv
  | .hook n => some (.hook n (lastArg c.o c.x))
  | .set i e => some (.set i (subst c.o c.x e))
  | .setStr i bs => some (if bs.isEmpty && c.o.canonEmptyStr then .delete i else .setStr i bs)
  | .delete i => some (.delete i)
  | .appendC i e => some (.appendC i (subst c.o c.x e))
  | _ => none

/-- the per-byte actions a block of action statements stands for (branches of a per-byte `if`) -/
def blockActs (p : Prog) (blk : Nat) : List SAct :=
  (p.blocks.getD blk []).filterMap fun s =>
    match s with
    | .act a => some a
    | .ifs bs => some (.cond bs)
    | _ => none

/-- Per-byte actions in order, then `k`; `depth` bounds the nesting of conditionals. An append that
    finds its output full hands over to `oos` (the byte is the offending one: not consumed). -/
def pcActs (c : Ctx) (oos : STree) : Nat → List SAct → STree → STree
  | _, [], k => k
  | depth, a :: rest, k =>
    let k' := pcActs c oos depth rest k
    match a with
    | .appendC i e => Tree.ask (.full i) oos (.emit (.appendC i (subst c.o c.x e)) k')
    | .cond bs =>
      match depth with
      | 0 => k'
      | d + 1 =>
        bs.foldr (fun cb els =>
          let body := pcActs c oos d (blockActs c.p cb.2) k'
          match cb.1 with
          | .else_ => body
          | .const true => body
          | .const false => els
          | .expr e => .ask (.cond (subst c.o c.x e)) body els) k'
    | a => match actEv c a with
      | some ev => if a.dropL && c.o.dropLoose then k' else .emit ev k'
      | none => k'
termination_by depth l => (depth, l.length)

/-- Events of one consumed byte of a match, then `k`; `oos` is what an out-of-space does. -/
def perCharTree (c : Ctx) (pc : PerChar) (k : STree) (oos : STree) : STree :=
  let appends := pc.appends.foldr (fun out k => Tree.ask (.full out) oos (.emit (.append out (lastArg c.o c.x)) k)) k
  pcActs c oos 8 pc.acts appends

/-- perform the pending loose actions -/
def flushT (pend : List AEv) (k : STree) : STree := pend.foldr (fun e k => .emit e k) k

/-- the pending loose actions, each marked "may or may not have run" -/
def optT (pend : List AEv) (k : STree) : STree := pend.foldr (fun e k => .emit (.opt e) k) k

/-- The assignments / deletes that the compiled machines lose when a construct that can match
    nothing is skipped: those that run up to the end of the enclosing blocks (a block that still
    has a match to come keeps its actions: they are carried by the transitions into that match).
    Returns the continuation with the lost actions removed. -/
def lossyTail (c : Ctx) : Nat → Kont → Kont
  | 0, K => K
  | fuel + 1, .run blk pos :: rest =>
    let stmts := (c.p.blocks.getD blk []).drop pos
    let isLoose := fun (s : Stmt) => match s with
      | .act (.set _ _) => true
      | .act (.setStr _ _) => true
      | .act (.delete _) => true
      | .act (.finish _) => true     -- (a finish code that ends the program is lost with them: plain DONE)
      | _ => false
    if stmts.all isLoose then lossyTail c fuel rest else .run blk pos :: rest
  | fuel + 1, .tryMark nm oos h :: rest => .tryMark nm oos h :: lossyTail c fuel rest
  | _ + 1, K => K

/-- continuation after a construct was skipped without consuming anything -/
def afterSkip (c : Ctx) (K : Kont) : List AEv × Kont :=
  if c.o.skipLoses then ([], lossyTail c (K.length + 1) K) else ([], K)

mutual
/-- Dispatch symbol `x` on continuation `K`; `pend` are the loose actions met so far in this step
    (performed at the next commit point, optional if an error strikes first). -/
def disp (c : Ctx) : Nat → List AEv → Kont → STree
  | 0, _, _ => retHaltS "SPIN"
  | _ + 1, pend, [] => flushT pend (retHaltS "DONE")
  | fuel + 1, pend, .run blk pos :: rest =>
    match (c.p.blocks.getD blk [])[pos]? with
    | none => disp c fuel pend rest
    | some s =>
      let K' := Frame.run blk (pos + 1) :: rest
      match s with
      | .mtch r pc => disp c fuel pend (.m r pc :: K')
      | .wait r pc => disp c fuel pend (.w r r pc :: K')
      | .act a =>
        match a with
        | .finish none => flushT pend (retHaltS "DONE")
        | .finish (some code) => flushT pend (retHaltS ("FINISH_" ++ code))
        | .yield code => flushT pend (.emit (.yield code) (disp c fuel [] K'))
        | .brk id => disp c fuel pend (dropLoop id K')
        | .appendC i e => flushT pend (.ask (.full i) (raise c fuel [] true K') (.emit (.appendC i (subst c.o c.x e)) (disp c fuel [] K')))
        | a => match actEv c a with
          | some ev =>
            if a.dropL && c.o.dropLoose then disp c fuel pend K'
            else flushT pend (.emit ev (disp c fuel [] K'))
          | none => disp c fuel pend K'
      | .cas g pc cl els =>
        disp c fuel pend (.c g pc (cl.flatMap fun cc => cc.1.map fun pr => (pr.1, pr.2, cc.2)) els :: K')
      | .opt b =>
        if firstBlk c.p 8 b c.x then disp c fuel pend (.run b 0 :: K')
        else disp c fuel pend (afterSkip c K').2   -- (in the attribution mode the lost actions are not performed)
      | .loop id b => disp c fuel pend (.run b 0 :: .loopMark id b :: K')
      | .try_ b nm oos h => disp c fuel pend (.run b 0 :: .tryMark nm oos h :: K')
      | .ifs bs =>
        let rec chain (bs : List (Cond × Nat)) : STree :=
          match bs with
          | [] => disp c fuel [] K'
          | (.else_, b) :: _ => disp c fuel [] (.run b 0 :: K')
          | (.const true, b) :: _ => disp c fuel [] (.run b 0 :: K')
          | (.const false, _) :: more => chain more
          | (.expr e, b) :: more => .ask (.cond (subst c.o c.x e)) (disp c fuel [] (.run b 0 :: K')) (chain more)
        flushT pend (chain bs)
  | fuel + 1, pend, .m r pc :: rest =>
    let d := r.deriv c.x
    if d.alive then
      flushT pend (perCharTree c pc
        (if d.nullable && !d.canContinue then .leaf (.next rest) else .leaf (.next (.m d pc :: rest)))
        (raise c fuel [] true (.m r pc :: rest)))
    else if r.nullable then disp c fuel pend (afterSkip c rest).2
    else raise c fuel pend false rest
  | fuel + 1, pend, .w r0 r pc :: rest =>
    -- every byte a wait consumes (matched, or skipped at a restart) is a byte of an enclosing
    -- foreach; end-of-input is not a byte
    let consume (K' : Kont) : STree :=
      if c.x = symEnd && !c.o.waitEndForeach then flushT pend (.leaf (.next K'))
      else flushT pend (perCharTree c pc (.leaf (.next K')) (raise c fuel [] true (.w r0 r pc :: rest)))
    let d := r.deriv c.x
    if d.alive then
      consume (if d.nullable && !d.canContinue then rest else .w r0 d pc :: rest)
    else if r.nullable then disp c fuel pend rest
    else
      let d0 := r0.deriv c.x
      if d0.alive then
        consume (if d0.nullable && !d0.canContinue then rest else .w r0 d0 pc :: rest)
      else if r0.nullable then disp c fuel pend rest   -- the empty match, right here
      else consume (.w r0 r0 pc :: rest)
  | fuel + 1, pend, .c g pc alts els :: rest =>
    let alts' := (alts.map fun a => (a.1.deriv c.x, a.2.1, a.2.2)).filter fun a => a.1.alive
    if !alts'.isEmpty then
      let done := alts'.filter fun a => a.1.nullable
      let cont := alts'.any fun a => a.1.canContinue
      let pick : Option (Rx × Nat × Nat) :=
        if cont then none
        else if g then done.foldl (fun best a => match best with
            | none => some a
            | some b => if a.2.1 > b.2.1 then some a else some b) none
        else done.head?
      flushT pend (perCharTree c pc
        (match pick with
         | some a => .leaf (.next (.run a.2.2 0 :: rest))
         | none => .leaf (.next (.c g pc alts' els :: rest)))
        (raise c fuel [] true (.c g pc alts els :: rest)))
    else
      let nul := alts.filter fun a => a.1.nullable
      let pick : Option (Rx × Nat × Nat) :=
        if g then nul.foldl (fun best a => match best with
            | none => some a
            | some b => if a.2.1 > b.2.1 then some a else some b) none
        else nul.head?
      match pick with
      | some a => disp c fuel pend (.run a.2.2 0 :: rest)
      | none =>
        match els with
        | some b => disp c fuel pend (.run b 0 :: rest)
        | none => raise c fuel pend false rest
  | fuel + 1, pend, .loopMark id b :: rest => disp c fuel pend (.run b 0 :: .loopMark id b :: rest)
  | fuel + 1, pend, .tryMark _ _ _ :: rest => disp c fuel pend rest

/-- Raise a mismatch (`false`) or out-of-space (`true`) condition: the pending loose actions may or
    may not have run; then the innermost handler with the symbol unconsumed, or FAIL. -/
def raise (c : Ctx) : Nat → List AEv → Bool → Kont → STree
  | 0, _, _, _ => retHaltS "SPIN"
  | fuel + 1, pend, oosReason, K =>
    let k := match unwind oosReason K with
      | some K' => disp c fuel [] K'
      | none => retHaltS "FAIL"
    if c.lp then .emit .raised k else optT pend k
end

/-- the block consists of actions only (conditionals over such blocks included) -/
def actsOnlyBlk (p : Prog) : Nat → Nat → Bool
  | 0, _ => false
  | fuel + 1, b => (p.blocks.getD b []).all fun s =>
      match s with
      | .act _ => true
      | .ifs bs => bs.all fun cb => actsOnlyBlk p fuel cb.2
      | _ => false

/-- After end-of-input has been consumed by an `end` pattern: run what needs no input (actions; an
    `if` that guards matches is not an action and fails). -/
def finFail (c : Ctx) : STree :=
  -- (relaxed reading: what the same step performed before the input turned out to be missing was pending)
  if c.lp then .emit .raised (retHaltS "FAIL") else retHaltS "FAIL"

def fin (c : Ctx) : Nat → Kont → STree
  | 0, _ => retHaltS "FAIL"
  | _ + 1, [] => retHaltS "DONE"
  | fuel + 1, .run blk pos :: rest =>
    match (c.p.blocks.getD blk [])[pos]? with
    | none => fin c fuel rest
    | some s =>
      let K' := Frame.run blk (pos + 1) :: rest
      match s with
      | .mtch r _ => if r.nullable then fin c fuel K' else finFail c
      -- (a wait on a pattern that can match the empty string completes right here, as it does in `disp`)
      | .wait r _ => if r.nullable then fin c fuel K' else finFail c
      | .act a =>
        match a with
        | .finish none => retHaltS "DONE"
        | .finish (some code) => retHaltS ("FINISH_" ++ code)
        | .yield _ => retHaltS "FAIL"     -- (a yield needs the re-invocation protocol of feed: not an action of end())
        | .brk id => fin c fuel (dropLoop id K')
        | .appendC i e =>
          .ask (.full i) (match unwind true K' with | some Kh => fin c fuel Kh | none => retHaltS "FAIL")
            (.emit (.appendC i (subst c.o c.x e)) (fin c fuel K'))
        | a => match actEv c a with
          | some ev => if a.dropL && c.o.dropLoose then fin c fuel K' else .emit ev (fin c fuel K')
          | none => fin c fuel K'
      | .opt _ => fin c fuel K'
      | .try_ b nm oos h => fin c fuel (.run b 0 :: .tryMark nm oos h :: K')
      | .ifs bs =>
        let rec chain (bs : List (Cond × Nat)) : STree :=
          match bs with
          | [] => fin c fuel K'
          | (.else_, b) :: _ => fin c fuel (.run b 0 :: K')
          | (.const true, b) :: _ => fin c fuel (.run b 0 :: K')
          | (.const false, _) :: more => chain more
          | (.expr e, b) :: more => .ask (.cond (subst c.o c.x e)) (fin c fuel (.run b 0 :: K')) (chain more)
        if bs.all (fun cb => actsOnlyBlk c.p 8 cb.2) then chain bs else finFail c
      | _ => finFail c
  | fuel + 1, .m r _ :: rest => if r.nullable then fin c fuel rest else finFail c
  | fuel + 1, .tryMark _ _ _ :: rest => fin c fuel rest
  | _ + 1, _ => finFail c

def stepFuel (p : Prog) : Nat := 4 * (p.blocks.foldl (fun n b => n + b.length + 1) 0) + 16

/-- One symbol of the reference semantics.  On end-of-input nothing can follow: a configuration
    that would wait for more input is finished off (`fin`). -/
def step (p : Prog) (o : SemOpts) (lp : Bool) (K : Kont) (x : Nat) : STree :=
  let c : Ctx := { p := p, o := o, x := x, lp := lp }
  let t := disp c (stepFuel p) [] K
  if x = symEnd then
    t.bind fun l => match l with
      | .next K' => fin c (stepFuel p) K'
      | .halt => .leaf .halt
  else t

def sm (p : Prog) (o : SemOpts) (lp : Bool := false) : SM Kont AEv Quest where
  start := [.run p.main 0]
  step := step p o lp

end Src
end Nmfu
