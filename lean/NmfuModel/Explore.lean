/-
  Untrusted exploration producing the certificate for `certOK`, with a witness word on mismatch.
-/
import NmfuModel.Equiv
import Std.Data.HashMap
namespace Nmfu

variable {S T A Q : Type} [DecidableEq A] [DecidableEq Q] [Hashable A] [Hashable Q] [DecidableEq S] [DecidableEq T] [Hashable S] [Hashable T]

structure ExploreResult (S T A Q : Type) where
  visited : Array (PS S T A Q)
  /-- `some (word, state, symbol)` when a mismatch was found -/
  mismatch : Option (List Nat × PS S T A Q × Nat)
  outOfFuel : Bool
  maxLag : Nat

/-- Breadth-first exploration of the product from the initial state. -/
def exploreWith (stepFn : PS S T A Q → Nat → Option (List (PS S T A Q))) (M : SM S A Q) (N : SM T A Q) (nsym : Nat) (limit : Nat) : ExploreResult S T A Q := Id.run do
  let init := initPS M N
  let mut seen : Std.HashMap (PS S T A Q) Nat := {}
  let mut nodes : Array (PS S T A Q) := #[init]
  let mut parent : Array (Nat × Nat) := #[(0, 0)]
  seen := seen.insert init 0
  let mut head := 0
  let mut maxLag := 0
  let mut result : Option (List Nat × PS S T A Q × Nat) := none
  let mut fuelOut := false
  while head < nodes.size && result.isNone && !fuelOut do
    let p := nodes[head]!
    for x in [0:nsym] do
      if result.isNone then
        match stepFn p x with
        | none =>
          -- reconstruct the word
          let mut w : List Nat := []
          let mut i := head
          while i != 0 do
            let (pi, sx) := parent[i]!
            w := sx :: w
            i := pi
          result := some (w, p, x)
        | some succs =>
          for q in succs do
            if !seen.contains q then
              seen := seen.insert q nodes.size
              nodes := nodes.push q
              parent := parent.push (head, x)
              if q.lag.length > maxLag then maxLag := q.lag.length
    head := head + 1
    if nodes.size > limit then fuelOut := true
  return { visited := nodes, mismatch := result, outOfFuel := fuelOut, maxLag := maxLag }

def explore (M : SM S A Q) (N : SM T A Q) (nsym : Nat) (limit : Nat) : ExploreResult S T A Q :=
  exploreWith (stepCheck M N) M N nsym limit

end Nmfu
