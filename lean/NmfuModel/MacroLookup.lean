/-
  Macro argument lookup: a mirror of `ParseCtx._lookup_named_entity` (nmfu.py) for a single kind.

  The bound-argument stack is a list of frames, one per macro call being expanded, the innermost
  LAST (Python list, walked with `reversed`).  A frame maps (kind, name) to the bound value; Python
  dict keys are unique.  Lookup of `name` in kind context `k`:
    * the innermost frame that mentions `name` decides: bound under `k` -> that value; bound under
      another kind only -> undefined reference (the macro's own parameter shadows everything else);
    * no frame mentions it: the global tables, for the kinds that have one.
-/
namespace Nmfu

abbrev MFrame := List ((Nat × String) × Nat)

inductive LookRes where
  | val (v : Nat)
  | undefined
  | global (name : String)
  deriving DecidableEq, Repr

/-- what one frame says about a name: `none` = it does not mention the name at all -/
def frameLook (f : MFrame) (k : Nat) (x : String) : Option LookRes :=
  match f.find? (fun e => e.1.1 == k && e.1.2 == x) with
  | some e => some (.val e.2)
  | none => if f.any (fun e => e.1.2 == x) then some .undefined else none

/-- kinds that can be found globally: MACRO 0, OUT 1, HOOK 4, LOOP 5, FINISHCODE 6, YIELDCODE 7 -/
def kindHasGlobals (k : Nat) : Bool := k == 0 || k == 1 || k == 4 || k == 5 || k == 6 || k == 7

/-- the global tables: (kind, name) pairs that are declared -/
def globalLook (globals : List (Nat × String)) (k : Nat) (x : String) : LookRes :=
  if kindHasGlobals k && globals.contains (k, x) then .global x else .undefined

/-- lookup with the frames given innermost first -/
def lookRev (globals : List (Nat × String)) : List MFrame → Nat → String → LookRes
  | [], k, x => globalLook globals k x
  | f :: outer, k, x =>
    match frameLook f k x with
    | some r => r
    | none => lookRev globals outer k x

/-- `_lookup_named_entity` for one kind: the stack as Python holds it (innermost last) -/
def lookStack (globals : List (Nat × String)) (stack : List MFrame) (k : Nat) (x : String) : LookRes :=
  lookRev globals stack.reverse k x

end Nmfu
