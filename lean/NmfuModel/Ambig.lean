/-
  One-byte-lookahead ambiguity of the reference semantics (C09).

  `ambig c fuel K` mirrors `Src.disp` on the symbol `c.x` and reports the first decision point at
  which the symbol admits two continuations:

  * a running match or wait whose pattern is complete here and which the symbol would also continue,
    while what follows could start with the symbol;
  * a non-greedy case in which, after the symbol, one pattern is complete while another pattern is
    still alive (two clauses match, or one matches while another could continue), or in which a
    pattern is complete before the symbol, the symbol continues some pattern, and the clause body
    followed by the rest could start with the symbol;
  * a greedy case that selects among complete patterns without a unique highest priority;
  * an optional whose body can start with the symbol while what follows can too.

  `starts c fuel K`: some pattern of what `K` runs next can take the symbol as its first symbol
  (a skip inside `wait`, an else clause or an error path does not count).

  `exploreAmbig` walks the reachable configurations (untrusted search; both outcomes of every data
  test) and evaluates `ambig` for every symbol.
-/
import NmfuModel.Src
import Std.Data.HashSet
namespace Nmfu
namespace Src

def flatAlts (cl : List (List (Rx × Nat) × Nat)) : List (Rx × Nat × Nat) :=
  cl.flatMap fun cc => cc.1.map fun pr => (pr.1, pr.2, cc.2)

def hasElse (bs : List (Cond × Nat)) : Bool :=
  bs.any fun cb => match cb.1 with | .else_ => true | .const true => true | _ => false

def starts (c : Ctx) : Nat → Kont → Bool
  | 0, _ => false
  | _ + 1, [] => false
  | fuel + 1, .run blk pos :: rest =>
    match (c.p.blocks.getD blk [])[pos]? with
    | none => starts c fuel rest
    | some s =>
      let K' := Frame.run blk (pos + 1) :: rest
      match s with
      | .mtch r _ => (r.deriv c.x).alive || (r.nullable && starts c fuel K')
      | .wait r _ => (r.deriv c.x).alive || (r.nullable && starts c fuel K')
      | .act a =>
        match a with
        | .finish _ => false
        | .brk id => starts c fuel (dropLoop id K')
        | _ => starts c fuel K'
      | .cas _ _ cl els =>
        let alts := flatAlts cl
        alts.any (fun a => (a.1.deriv c.x).alive) ||
        alts.any (fun a => a.1.nullable && starts c fuel (.run a.2.2 0 :: K')) ||
        (match els with | some b => starts c fuel (.run b 0 :: K') | none => false)
      | .opt b => starts c fuel (.run b 0 :: K') || starts c fuel K'
      | .loop id b => starts c fuel (.run b 0 :: .loopMark id b :: K')
      | .try_ b nm oos h => starts c fuel (.run b 0 :: .tryMark nm oos h :: K')
      | .ifs bs => bs.any (fun cb => starts c fuel (.run cb.2 0 :: K')) || (!hasElse bs && starts c fuel K')
  | fuel + 1, .m r _ :: rest => (r.deriv c.x).alive || (r.nullable && starts c fuel rest)
  | fuel + 1, .w _ r _ :: rest => (r.deriv c.x).alive || (r.nullable && starts c fuel rest)
  | fuel + 1, .c _ _ alts els :: rest =>
    alts.any (fun a => (a.1.deriv c.x).alive) ||
    alts.any (fun a => a.1.nullable && starts c fuel (.run a.2.2 0 :: rest)) ||
    (match els with | some b => starts c fuel (.run b 0 :: rest) | none => false)
  | fuel + 1, .loopMark id b :: rest => starts c fuel (.run b 0 :: .loopMark id b :: rest)
  | fuel + 1, .tryMark _ _ _ :: rest => starts c fuel rest

/-- highest priority among the patterns, and how many have it -/
def topPrio (l : List (Rx × Nat × Nat)) : Nat × Nat :=
  let m := l.foldl (fun m a => max m a.2.1) 0
  (m, (l.filter fun a => a.2.1 == m).length)

/-- the local rule for a non-greedy case after a symbol: a complete pattern next to another live
    pattern -/
def caseConflict (alive : List (Rx × Nat × Nat)) : Bool :=
  alive.length ≥ 2 && alive.any fun a => a.1.nullable

def firstSome (l : List (Option String)) : Option String :=
  l.foldr (fun a r => match a with | some s => some s | none => r) none

def ambig (c : Ctx) : Nat → Kont → Option String
  | 0, _ => none
  | _ + 1, [] => none
  | fuel + 1, .run blk pos :: rest =>
    match (c.p.blocks.getD blk [])[pos]? with
    | none => ambig c fuel rest
    | some s =>
      let K' := Frame.run blk (pos + 1) :: rest
      match s with
      | .mtch r pc => ambig c fuel (.m r pc :: K')
      | .wait r pc => ambig c fuel (.w r r pc :: K')
      | .act a =>
        match a with
        | .finish _ => none
        | .brk id => ambig c fuel (dropLoop id K')
        | _ => ambig c fuel K'
      | .cas g pc cl els => ambig c fuel (.c g pc (flatAlts cl) els :: K')
      | .opt b =>
        if firstBlk c.p 8 b c.x then
          if starts c fuel K' then some "optional: the symbol starts the body and what follows"
          else ambig c fuel (.run b 0 :: K')
        else ambig c fuel K'
      | .loop id b => ambig c fuel (.run b 0 :: .loopMark id b :: K')
      | .try_ b nm oos h => ambig c fuel (.run b 0 :: .tryMark nm oos h :: K')
      | .ifs bs =>
        firstSome ((bs.map fun cb => ambig c fuel (.run cb.2 0 :: K')) ++ [if hasElse bs then none else ambig c fuel K'])
  | fuel + 1, .m r _ :: rest =>
    if (r.deriv c.x).alive then
      if r.nullable && starts c fuel rest then some "match: the symbol continues the pattern and starts what follows" else none
    else if r.nullable then ambig c fuel rest
    else match unwind false rest with
      | some K' => ambig c fuel K'
      | none => none
  | fuel + 1, .w r0 r _ :: rest =>
    if (r.deriv c.x).alive then
      if r.nullable && starts c fuel rest then some "wait: the symbol continues the pattern and starts what follows" else none
    else if r.nullable then ambig c fuel rest
    else if (r0.deriv c.x).alive then
      if r0.nullable && starts c fuel rest then some "wait: the symbol restarts the pattern and starts what follows" else none
    else if r0.nullable then ambig c fuel rest
    else none
  | fuel + 1, .c g _ alts els :: rest =>
    let alts' := (alts.map fun a => (a.1.deriv c.x, a.2.1, a.2.2)).filter fun a => a.1.alive
    if !alts'.isEmpty then
      if g then
        let done := alts'.filter fun a => a.1.nullable
        let cont := alts'.any fun a => a.1.canContinue
        if !cont && (topPrio done).2 ≥ 2 then some "greedy case: complete patterns tie at the highest priority" else none
      else if caseConflict alts' then some "case: a pattern is complete while another is still alive"
      else if alts.any (fun a => a.1.nullable && starts c fuel (.run a.2.2 0 :: rest)) then
        some "case: the symbol continues a pattern and starts the body of a complete one"
      else none
    else
      let nul := alts.filter fun a => a.1.nullable
      if g && (topPrio nul).2 ≥ 2 then some "greedy case: complete patterns tie at the highest priority"
      else if !g && nul.length ≥ 2 then some "case: two patterns are complete on the same input"
      else
        let pick : Option (Rx × Nat × Nat) :=
          if g then nul.foldl (fun best a => match best with
              | none => some a
              | some b => if a.2.1 > b.2.1 then some a else some b) none
          else nul.head?
        match pick with
        | some a => ambig c fuel (.run a.2.2 0 :: rest)
        | none =>
          match els with
          | some b => ambig c fuel (.run b 0 :: rest)
          | none => match unwind false rest with
            | some K' => ambig c fuel K'
            | none => none
  | fuel + 1, .loopMark id b :: rest => ambig c fuel (.run b 0 :: .loopMark id b :: rest)
  | fuel + 1, .tryMark _ _ _ :: rest => ambig c fuel rest

/-- successor configurations on a symbol (every outcome of the data tests) -/
def succs (p : Prog) (o : SemOpts) (K : Kont) (x : Nat) : List Kont :=
  (step p o false K x).paths.filterMap fun pth => match pth.2 with | .next K' => some K' | .halt => none

/-- The certificate check: `V` contains the start configuration, is closed under every symbol
    (every outcome of the data tests), and no configuration in it has an ambiguous decision point
    on any symbol. -/
def ambigCertOK (p : Prog) (o : SemOpts) (V : List Kont) : Bool :=
  V.contains [.run p.main 0] &&
  V.all fun K => (List.range nSym).all fun x =>
    (ambig { p := p, o := o, x := x, lp := false } (stepFuel p) K).isNone &&
    (succs p o K x).all fun K' => V.contains K'

structure AmbigResult where
  visited : Nat := 0
  cfgs : List Kont := []
  outOfFuel : Bool := false
  found : Option (List Nat × Nat × String) := none

/-- Breadth-first walk of the reachable configurations; at each, every symbol is tested. -/
def exploreAmbig (p : Prog) (o : SemOpts) (limit : Nat) : AmbigResult := Id.run do
  let start : Kont := [.run p.main 0]
  let mut seen : Std.HashSet Kont := Std.HashSet.emptyWithCapacity 64
  seen := seen.insert start
  let mut queue : Array (Kont × List Nat) := #[(start, [])]
  let mut i := 0
  let mut res : AmbigResult := {}
  while i < queue.size do
    if queue.size > limit then
      res := { res with outOfFuel := true }
      break
    let (K, w) := queue[i]!
    i := i + 1
    for x in List.range nSym do
      let c : Ctx := { p := p, o := o, x := x, lp := false }
      match ambig c (stepFuel p) K with
      | some why =>
        if res.found.isNone then res := { res with found := some (w.reverse, x, why) }
      | none => pure ()
      for K' in succs p o K x do
        if !seen.contains K' then
          seen := seen.insert K'
          queue := queue.push (K', x :: w)
    if res.found.isSome then break
  return { res with visited := queue.size, cfgs := (queue.toList.map (·.1)) }

end Src
end Nmfu
