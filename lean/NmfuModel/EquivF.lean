/-
  A relaxation of the equivalence certificate for comparisons against the reference semantics:
  "actions pending when an error strikes may or may not have run" (property C01).

  The reference semantics (in its relaxed mode) emits a marker event where a mismatch or
  out-of-space condition is raised.  What the same step performed before the marker — actions and
  condition tests that sat between the previous byte and the offending one — was pending when
  the error struck.  `stepCheckF` is `stepCheck` with that slack understood: where the two sides
  differ, the reference may jump to what follows the marker (when every path reaches one and all
  agree on what follows), and lag events in front of a marker may be left unperformed.
  This relaxation is NOT covered by `certOK_sound`; certificates that need it are reported
  separately (`closed-relaxed`).
-/
import NmfuModel.Equiv
import NmfuModel.Mach
namespace Nmfu

def AEv.droppable : AEv → Bool
  | .set _ _ => true
  | .setStr _ _ => true
  | .delete _ => true
  | _ => false

def evDroppable : MEv → Bool
  | .act a => a.droppable
  | .asked _ _ => false

/-- every path performs only droppable actions and then returns FAIL -/
def failsQuietly {S : Type} : Tree AEv Quest (Leaf S) → Bool
  | .emit (.ret "FAIL") (.leaf .halt) => true
  | .emit a k => a.droppable && failsQuietly k
  | .ask _ kt kf => failsQuietly kt && failsQuietly kf
  | .leaf _ => false

/-- A question whose two outcomes behave identically is irrelevant: drop it (bottom-up). -/
def collapse {L : Type} [DecidableEq L] : Tree AEv Quest L → Tree AEv Quest L
  | .emit a k =>
      -- (two raise markers in a row — an error inside the handler of another — delimit the same pending
      --  actions as one: without this, branches that differ only in the number of markers do not collapse)
      match a, collapse k with
      | .raised, .emit .raised k' => .emit .raised k'
      | a, k' => .emit a k'
  | .ask q kt kf =>
      let t := collapse kt
      let f := collapse kf
      if t = f then t else .ask q t f
  | .leaf l => .leaf l

/-- If every path of the (reference) tree reaches a raise marker and what follows the first marker
    is the same on all of them, that continuation: everything before it was pending when the error
    struck and may be skipped. -/
def afterRaise {L : Type} [DecidableEq L] : Tree AEv Quest L → Option (Tree AEv Quest L)
  | .emit .raised k => some k
  | .emit _ k => afterRaise k
  | .ask _ kt kf =>
      match afterRaise kt, afterRaise kf with
      | some a, some b => if a = b then some a else none
      | _, _ => none
  | .leaf _ => none

variable {S T : Type} [DecidableEq S] [DecidableEq T]

/-- The trailing *reference* side performs the machine's lag. -/
def syncSpec {L : Type} [DecidableEq L] : Nat → List MEv → Tree AEv Quest L → Option (Tree AEv Quest L)
  | 0, _, _ => none
  | _ + 1, [], t => some t
  | fuel + 1, e :: es, t =>
    match t with
    | .emit .raised k => syncSpec fuel (e :: es) k
    | .emit a k =>
        if e = .act a then syncSpec fuel es k
        else match afterRaise t with
          | some t' => syncSpec fuel (e :: es) t'
          | none => none
    | .ask q kt kf =>
        match e with
        | .asked q' v => if q' = q then syncSpec fuel es (if v then kt else kf)
            else match afterRaise t with
              | some t' => syncSpec fuel (e :: es) t'
              | none => none
        | _ => match afterRaise t with
              | some t' => syncSpec fuel (e :: es) t'
              | none => none
    | .leaf _ => none

/-- The trailing *machine* side performs the lag of the reference: events in front of a raise
    marker were pending and may be skipped. -/
def syncMach {L : Type} : List MEv → Tree AEv Quest L → Option (Tree AEv Quest L)
  | [], t => some t
  | .act .raised :: es, t => syncMach es t
  | e :: es, t =>
    let skippable := es.contains (.act .raised)
    match e, t with
    | .act a', .emit a k => if a' = a then syncMach es k else if skippable then syncMach es t else none
    | .asked q' v, .ask q kt kf =>
        if q' = q then syncMach es (if v then kt else kf) else if skippable then syncMach es t else none
    | _, _ => if skippable then syncMach es t else none

/-- Joint walk, reference on the left. -/
def jointF : Nat → Tree AEv Quest (Leaf S) → Tree AEv Quest (Leaf T) → Option (List (PS S T AEv Quest))
  | 0, _, _ => none
  | fuel + 1, tA, tB =>
    let viaRaise : Option (List (PS S T AEv Quest)) :=
      match afterRaise tA with
      | some t' => jointF fuel t' tB
      | none => none
    match tA, tB with
    | .emit .raised k, tB => jointF fuel k tB
    | .emit a k, .emit a' k' => if a = a' then jointF fuel k k' else viaRaise
    | .ask q kt kf, .ask q' kt' kf' =>
        if q = q' then
          match jointF fuel kt kt', jointF fuel kf kf' with
          | some l1, some l2 => some (l1 ++ l2)
          | _, _ => viaRaise
        else viaRaise
    | .leaf l, t => some (t.paths.map fun p => ⟨l.cfg, p.2.cfg, p.1, false⟩)
    | .emit a k, .leaf l => some ((Tree.emit a k).paths.map fun p => ⟨p.2.cfg, l.cfg, p.1, true⟩)
    | .ask q kt kf, .leaf l => some ((Tree.ask q kt kf).paths.map fun p => ⟨p.2.cfg, l.cfg, p.1, true⟩)
    | .emit _ _, .ask _ _ _ => viaRaise
    | .ask _ _ _, .emit _ _ => viaRaise

def retHaltS {S : Type} : Tree AEv Quest (Leaf S) := .emit (.ret "FAIL") (.leaf .halt)
def retHaltT {T : Type} : Tree AEv Quest (Leaf T) := .emit (.ret "FAIL") (.leaf .halt)

/-- One step on the given pair of trees (see `stepCheckF`). -/
def stepCheckTrees (p : PS S T AEv Quest) (tA : Tree AEv Quest (Leaf S)) (tB : Tree AEv Quest (Leaf T)) :
    Option (List (PS S T AEv Quest)) :=
  let fuel := tA.size + tB.size + p.lag.length + 4
  if p.aLeads then
    match syncMach p.lag tB with
    | none =>
      -- the machine had scheduled the lag for this symbol and fails on it instead: the actions were
      -- pending when the error struck; accepted when the reference fails here as well
      let failA := match afterRaise tA with
        | some t' => t' == retHaltS
        | none => tA == retHaltS
      if tB == retHaltT && failA then some [⟨none, none, [], false⟩] else none
    | some tB' => jointF fuel tA tB'
  else
    match syncSpec fuel p.lag tA with
    | none => none
    | some tA' => jointF fuel tA' tB

/-- One step against the reference semantics with the error slack understood: on the trees as they
    are, and — when that does not go through — with questions whose outcomes do not matter dropped on
    both sides (`collapse`; dropping them on one side only can hide a question the other side still
    asks, so the plain trees are tried first). -/
def stepCheckF (M : SM S AEv Quest) (N : SM T AEv Quest) (p : PS S T AEv Quest) (x : Nat) :
    Option (List (PS S T AEv Quest)) :=
  match stepCheckTrees p (M.tree p.a x) (N.tree p.b x) with
  | some r => some r
  | none => stepCheckTrees p (collapse (M.tree p.a x)) (collapse (N.tree p.b x))

def certOKF (M : SM S AEv Quest) (N : SM T AEv Quest) (nsym : Nat) (V : List (PS S T AEv Quest)) : Bool :=
  V.contains (initPS M N) &&
  V.all fun p => (List.range nsym).all fun x =>
    match stepCheckF M N p x with
    | none => false
    | some succs => succs.all fun p' => V.contains p'

end Nmfu
