/-
  Parser for the token stream written by harness/export.py.
-/
import NmfuModel.Mach
namespace Nmfu

abbrev P := StateT Nat (ExceptT String (ReaderM (Array String)))

def P.run' {α} (p : P α) (toks : Array String) : Except String α :=
  match (p.run 0).run.run toks with
  | .ok (a, _) => .ok a
  | .error e => .error e

def tok : P String := do
  let i ← get
  let ts ← read
  if h : i < ts.size then
    set (i + 1)
    pure ts[i]
  else throw "unexpected end of tokens"

def pos : P Nat := get

def expect (s : String) : P Unit := do
  let i ← get
  let t ← tok
  if t = s then pure () else throw s!"expected {s} got {t} at {i}"

def pNat : P Nat := do
  let i ← get
  let t ← tok
  match t.toNat? with
  | some n => pure n
  | none => throw s!"expected nat got {t} at {i}"

def pInt : P Int := do
  let i ← get
  let t ← tok
  match t.toInt? with
  | some n => pure n
  | none => throw s!"expected int got {t} at {i}"

def pBool : P Bool := do
  let n ← pNat
  pure (n != 0)

def pMany {α} (n : Nat) (p : P α) : P (List α) := do
  let mut acc : Array α := #[]
  for _ in [0:n] do
    acc := acc.push (← p)
  pure acc.toList

def pOp : P BinOp := do
  let t ← tok
  match t with
  | "add" => pure .add | "sub" => pure .sub | "mul" => pure .mul | "div" => pure .div
  | "mod" => pure .mod | "lt" => pure .lt | "gt" => pure .gt | "le" => pure .le
  | "ge" => pure .ge | "eq" => pure .eq | "ne" => pure .ne | "shl" => pure .shl
  | "shr" => pure .shr | "bor" => pure .bor | "bxor" => pure .bxor | "band" => pure .band
  | "lor" => pure .lor | "land" => pure .land
  | _ => throw s!"bad op {t}"

partial def pExpr : P IExpr := do
  let t ← tok
  match t with
  | "lit" => pure (.lit (← pInt))
  | "litb" => pure (.litB (← pBool))
  | "lite" => do let n ← tok; let v ← pNat; pure (.litE n v)
  | "out" => pure (.out (← pNat))
  | "len" => pure (.len (← pNat))
  | "idx" => do let i ← pNat; let e ← pExpr; pure (.idx i e)
  | "last" => pure .last
  | "bin" => do
    let op ← pOp
    let f ← pBool
    let l ← pExpr
    let r ← pExpr
    pure (.bin op f l r)
  | _ => throw s!"bad expr token {t}"

def pCond : P Cond := do
  let t ← tok
  match t with
  | "celse" => pure .else_
  | "cconst" => pure (.const (← pBool))
  | "cexpr" => pure (.expr (← pExpr))
  | _ => throw s!"bad cond token {t}"

def Acts.ofList : List Act → Acts
  | [] => .nil
  | a :: r => .cons a (Acts.ofList r)

def Branches.ofList : List (Cond × Acts) → Branches
  | [] => .nil
  | (c, b) :: r => .cons c b (Branches.ofList r)

mutual
  partial def pActs : P Acts := do
    expect "acts"
    let n ← pNat
    let l ← pMany n pAct
    pure (Acts.ofList l)
  partial def pAct : P Act := do
    let t ← tok
    match t with
    | "finish" => pure (.finish none)
    | "finishc" => pure (.finish (some (← tok)))
    | "yield" => pure (.yield (← tok))
    | "hook" => pure (.hook (← tok))
    | "append" => do let o ← pInt; let out ← pNat; pure (.append o out)
    | "appendc" => do let o ← pInt; let out ← pNat; let each ← pNat; let e ← pExpr; pure (.appendC o out (each == 1) e)
    | "set" => do let out ← pNat; let e ← pExpr; pure (.set out e)
    | "setstr" => do let out ← pNat; let n ← pNat; let bs ← pMany n pNat; pure (.setStr out bs)
    | "delete" => pure (.delete (← pNat))
    | "break" => do let e ← pInt; let a ← pActs; pure (.brk e a)
    | "cond" => do
      let n ← pNat
      let bs ← pMany n (do let c ← pCond; let a ← pActs; pure (c, a))
      pure (.cond (Branches.ofList bs))
    | _ => throw s!"bad action token {t}"
end

def pOut : P OutDecl := do
  expect "out"
  let name ← tok
  let t ← tok
  let ty ← match t with
    | "bool" => pure OutTy.bool
    | "int" => do let s ← pBool; let b ← pNat; pure (OutTy.int s b)
    | "enum" => do pure (OutTy.enum (← pNat))
    | "str" => do let sz ← pNat; let nt ← pBool; let _ ← pNat; pure (OutTy.str sz nt)
    | "raw" => do let sz ← pNat; let _ ← pNat; pure (OutTy.raw sz)
    | _ => throw s!"bad out type {t}"
  let d ← tok
  match d with
  | "nodef" => pure ⟨name, ty, none, none⟩
  | "defi" => do let v ← pInt; pure ⟨name, ty, some v, none⟩
  | "defs" => do let n ← pNat; let bs ← pMany n pNat; pure ⟨name, ty, none, some bs⟩
  | _ => throw s!"bad default {d}"

def pArm : P Arm := do
  expect "arm"
  let c ← pCond
  let target ← pInt
  let fall ← pBool
  let err ← pBool
  let n ← pNat
  let on ← pMany n pNat
  let acts ← pActs
  pure ⟨on, c, target, fall, err, acts⟩

def pState : P St := do
  expect "state"
  let k ← tok
  let kind ← match k with
    | "normal" => pure StKind.normal
    | "cond" => pure StKind.cond
    | "fail" => pure StKind.fail
    | _ => throw s!"bad state kind {k}"
  let acc ← pBool
  let n ← pNat
  let arms ← pMany n pArm
  pure ⟨kind, acc, arms⟩

def pMachine : P Machine := do
  expect "machine"
  let no ← pNat
  let outs ← pMany no pOut
  let ns ← pNat
  let start ← pInt
  let states ← pMany ns pState
  let sa ← pActs
  let nh ← pNat
  let hooks ← pMany nh tok
  let nf ← pNat
  let fcs ← pMany nf tok
  let ny ← pNat
  let ycs ← pMany ny tok
  expect "end"
  pure { states := states.toArray, start := start.toNat, outs := outs.toArray, startActs := sa,
         hooks := hooks, finishCodes := fcs, yieldCodes := ycs }

def tokenize (s : String) : Array String := Id.run do
  let mut acc : Array String := #[]
  let mut cur : String := ""
  for c in s.toList do
    if c = ' ' || c = '\n' || c = '\t' || c = '\r' then
      if cur ≠ "" then
        acc := acc.push cur
        cur := ""
    else
      cur := cur.push c
  if cur ≠ "" then
    acc := acc.push cur
  return acc

def parseMachine (s : String) : Except String Machine := pMachine.run' (tokenize s)

end Nmfu
