/-
  Literals: how nmfu reads the spelling of a string / character / integer literal
  (`ParseCtx._convert_string`, `_convert_binary_string`, `_convert_char_const`, `_convert_int`) and
  how it writes a byte string back as a C string literal (`CodegenCtx._escape_string`), together
  with a lexer for C string-literal bodies (`cLex`: what a C compiler makes of the emitted text:
  simple escapes, octal escapes of one to three digits, greedy hexadecimal escapes).
  Characters are code points (`Nat`); bytes are `Nat` below 256.
-/
namespace Nmfu

def hexVal? (c : Nat) : Option Nat :=
  if 48 ≤ c ∧ c ≤ 57 then some (c - 48)
  else if 97 ≤ c ∧ c ≤ 102 then some (c - 87)
  else if 65 ≤ c ∧ c ≤ 70 then some (c - 55)
  else none

/-- The one-character escapes of `_convert_string` (`n r t b 0 " \`). -/
def simpleEscape? (c : Nat) : Option Nat :=
  if c = 110 then some 10 else if c = 114 then some 13 else if c = 116 then some 9
  else if c = 98 then some 8 else if c = 48 then some 0 else if c = 34 then some 34
  else if c = 92 then some 92 else none

/-- `_convert_string` on the characters between the quotes.  `none` = an exception
    (unknown escape: KeyError; `\u`: NotImplementedError; bad hex digits: ValueError). -/
def convertString : List Nat → Option (List Nat)
  | [] => some []
  | 92 :: 120 :: h :: l :: rest =>           -- \xHH
    match hexVal? h, hexVal? l, convertString rest with
    | some a, some b, some r => some ((16 * a + b) :: r)
    | _, _, _ => none
  | 92 :: c :: rest =>
    if c = 120 ∨ c = 117 then none
    else match simpleEscape? c, convertString rest with
      | some v, some r => some (v :: r)
      | _, _ => none
  | [92] => none
  | c :: rest =>
    match convertString rest with
    | some r => some (c :: r)
    | none => none

/-- `_escape_string`: printable ASCII as itself (backslash, quote and question mark escaped — no
    trigraph can form), everything else as a three-digit octal escape (fixed width: a following
    digit is never absorbed). -/
def escapeByte (b : Nat) : List Nat :=
  if b = 92 ∨ b = 34 ∨ b = 63 then [92, b]
  else if 32 ≤ b ∧ b < 127 then [b]
  else [92, 48 + b / 64, 48 + b / 8 % 8, 48 + b % 8]

def escapeString (bs : List Nat) : List Nat := bs.flatMap escapeByte

def isOct (c : Nat) : Bool := 48 ≤ c && c ≤ 55

/-- greedy hexadecimal escape: all following hex digits -/
def lexHex : List Nat → Nat → Nat × List Nat
  | [], acc => (acc, [])
  | c :: rest, acc =>
    match hexVal? c with
    | some v => lexHex rest (16 * acc + v)
    | none => (acc, c :: rest)

def cSimpleEscape (c : Nat) : Option Nat :=
  if c = 110 then some 10 else if c = 114 then some 13 else if c = 116 then some 9
  else if c = 98 then some 8 else if c = 34 then some 34 else if c = 92 then some 92
  else if c = 39 then some 39 else if c = 63 then some 63 else if c = 97 then some 7
  else if c = 102 then some 12 else if c = 118 then some 11 else none

/-- Lex one character or escape sequence of a C string-literal body: its value and what is left
    (`none`: not valid, or the value does not fit a byte). -/
def lexOne (l : List Nat) : Option (Nat × List Nat) :=
  match l with
  | [] => none
  | c :: rest =>
    if c = 92 then
      match rest with
      | [] => none
      | e :: rest1 =>
        if e = 120 then                            -- hexadecimal: greedy
          match rest1 with
          | [] => none
          | h :: _ =>
            if (hexVal? h).isNone then none
            else if (lexHex rest1 0).1 < 256 then some (lexHex rest1 0) else none
        else if isOct e then                        -- octal: one to three digits
          match rest1 with
          | d2 :: rest2 =>
            if isOct d2 then
              match rest2 with
              | d3 :: rest3 =>
                if isOct d3 then
                  (if 64 * (e - 48) + 8 * (d2 - 48) + (d3 - 48) < 256
                    then some (64 * (e - 48) + 8 * (d2 - 48) + (d3 - 48), rest3) else none)
                else some (8 * (e - 48) + (d2 - 48), rest2)
              | [] => some (8 * (e - 48) + (d2 - 48), [])
            else some (e - 48, rest1)
          | [] => some (e - 48, [])
        else
          match cSimpleEscape e with
          | some v => some (v, rest1)
          | none => none
    else if c = 34 ∨ c = 10 then none
    else some (c, rest)

/-- What a C compiler reads from the body of a string literal; `fuel` bounds the number of
    characters / escapes. -/
def cLexF : Nat → List Nat → Option (List Nat)
  | 0, _ => none
  | fuel + 1, l =>
    if l.isEmpty then some []
    else match lexOne l with
      | none => none
      | some (v, r) => (cLexF fuel r).map (v :: ·)

def cLex (l : List Nat) : Option (List Nat) := cLexF (l.length + 1) l

/-- `_create_casei_from`, sorted. -/
def caseFoldSorted (c : Nat) : List Nat :=
  if 97 ≤ c ∧ c ≤ 122 then [c - 32, c] else if 65 ≤ c ∧ c ≤ 90 then [c, c + 32] else [c]

/-- `_convert_char_const` on the characters between the quotes. -/
def convertCharConst : List Nat → Option Nat
  | [c] => some c
  | [92, c] =>
    some (if c = 110 then 10 else if c = 114 then 13 else if c = 116 then 9 else if c = 98 then 8
          else if c = 48 then 0 else c)
  | _ => none

def digitsVal (base : Nat) : List Nat → Nat → Option Nat
  | [], acc => some acc
  | c :: rest, acc =>
    match hexVal? c with
    | some v => if v < base then digitsVal base rest (base * acc + v) else none
    | none => none

/-- `_convert_int`: optional sign, `0x` / `0b` prefix or decimal. -/
def convertInt (t : List Nat) : Option Int :=
  let (neg, t) := match t with
    | 43 :: r => (false, r)
    | 45 :: r => (true, r)
    | r => (false, r)
  let v := match t with
    | 48 :: 120 :: r => if r.isEmpty then none else digitsVal 16 r 0
    | 48 :: 98 :: r => if r.isEmpty then none else digitsVal 2 r 0
    | r => if r.isEmpty then none else digitsVal 10 r 0
  match v with
  | some n => some (if neg then -(n : Int) else n)
  | none => none

/-- `_create_casei_from`: the bytes a case-insensitive literal accepts at a position. -/
def caseFold (c : Nat) : List Nat :=
  if 97 ≤ c ∧ c ≤ 122 then [c, c - 32] else if 65 ≤ c ∧ c ≤ 90 then [c, c + 32] else [c]

end Nmfu
