/-
  Integer expressions of nmfu programs and their meaning as C arithmetic (x86-64 Linux data
  model: int = 32 bits, long = intmax_t = 64 bits, char signed).

  `IExpr` mirrors nmfu's `IntegerExpr` classes after one normalisation done by the exporter:
  n-ary nodes (`Sum`, `Mul`, `Bitwise`, `Disjunction`, `Conjunction`) are left-nested binary
  nodes whose `flat` flag records that the left operand is the continuation of the same n-ary
  node (it is rendered without surrounding parentheses).  `!x` is `x == false` and `-x` is
  `0 - x`, exactly as `ParseCtx._parse_math_expr` builds them.

  `eval` is C semantics with undefined behaviour made explicit (`none`): signed overflow, division
  by zero, `INT_MIN / -1`, over-wide or negative shifts, left shift of a negative value,
  out-of-range unsafe indexing, reading an indeterminate byte.
-/
namespace Nmfu

inductive BinOp where
  | add | sub | mul | div | mod
  | lt | gt | le | ge | eq | ne
  | shl | shr
  | bor | bxor | band
  | lor | land
  deriving DecidableEq, Repr, Inhabited, Hashable

inductive IExpr where
  | lit (v : Int)
  | litB (b : Bool)
  | litE (name : String) (v : Nat)
  | out (i : Nat)
  | len (i : Nat)
  | idx (i : Nat) (e : IExpr)
  | last
  | bin (op : BinOp) (flat : Bool) (l r : IExpr)
  deriving DecidableEq, Repr, Inhabited, Hashable

/-- A C integer type: signedness and width (8, 16, 32, 64). `bool` is `⟨false, 1⟩`. -/
structure CTy where
  signed : Bool
  bits : Nat
  deriving DecidableEq, Repr, Inhabited, Hashable

def CTy.i32 : CTy := ⟨true, 32⟩
def CTy.u32 : CTy := ⟨false, 32⟩
def CTy.i64 : CTy := ⟨true, 64⟩
def CTy.u64 : CTy := ⟨false, 64⟩
def CTy.u8 : CTy := ⟨false, 8⟩
def CTy.i8 : CTy := ⟨true, 8⟩
def CTy.bool : CTy := ⟨false, 1⟩

def CTy.minV (t : CTy) : Int := if t.signed then -(2 ^ (t.bits - 1) : Int) else 0
def CTy.maxV (t : CTy) : Int := if t.signed then (2 ^ (t.bits - 1) : Int) - 1 else (2 ^ t.bits : Int) - 1
def CTy.inRange (t : CTy) (v : Int) : Bool := t.minV ≤ v && v ≤ t.maxV

/-- Conversion to type `t` (modular; for signed targets this is gcc's implementation-defined
    behaviour; for `bool` it is `v ≠ 0`). -/
def CTy.wrap (t : CTy) (v : Int) : Int :=
  if t.bits = 1 then (if v = 0 then 0 else 1)
  else
    let m : Int := 2 ^ t.bits
    let r := v % m
    if t.signed && r ≥ 2 ^ (t.bits - 1) then r - m else r

structure CVal where
  ty : CTy
  v : Int
  deriving DecidableEq, Repr, Inhabited, Hashable

/-- Integer promotion. -/
def CTy.promote (t : CTy) : CTy := if t.bits < 32 then CTy.i32 else t

/-- Usual arithmetic conversions (on promoted types). -/
def CTy.usual (a b : CTy) : CTy :=
  let a := a.promote
  let b := b.promote
  if a = b then a
  else if a.signed = b.signed then (if a.bits ≥ b.bits then a else b)
  else
    let u := if a.signed then b else a
    let s := if a.signed then a else b
    if u.bits ≥ s.bits then u else s

/-- Type of a decimal literal as nmfu prints it (`str(v)`; a negative one is unary minus
    applied to the positive literal). -/
def litTy (v : Int) : CTy :=
  let m := v.natAbs
  if m ≤ 2147483647 then CTy.i32 else if m ≤ 9223372036854775807 then CTy.i64 else CTy.u64

def toU (t : CTy) (v : Int) : Nat := (v % (2 ^ t.bits : Int)).toNat

def arith (t : CTy) (r : Int) : Option CVal :=
  if t.signed then (if t.inRange r then some ⟨t, r⟩ else none) else some ⟨t, t.wrap r⟩

def cmpOp (op : BinOp) (a b : Int) : Bool :=
  match op with
  | .lt => a < b | .gt => a > b | .le => a ≤ b | .ge => a ≥ b | .eq => a = b | .ne => a ≠ b
  | _ => false

def boolVal (b : Bool) : CVal := ⟨CTy.i32, if b then 1 else 0⟩

/-- A strict binary operator on two evaluated operands. -/
def evalBin (op : BinOp) (x y : CVal) : Option CVal :=
  match op with
  | .add | .sub | .mul | .div | .mod =>
    let t := CTy.usual x.ty y.ty
    let a := t.wrap x.v
    let b := t.wrap y.v
    match op with
    | .add => arith t (a + b)
    | .sub => arith t (a - b)
    | .mul => arith t (a * b)
    | .div => if b = 0 then none else arith t (Int.tdiv a b)
    | .mod => if b = 0 then none else
        (if t.signed && !(t.inRange (Int.tdiv a b)) then none else arith t (Int.tmod a b))
    | _ => none
  | .lt | .gt | .le | .ge | .eq | .ne =>
    let t := CTy.usual x.ty y.ty
    some (boolVal (cmpOp op (t.wrap x.v) (t.wrap y.v)))
  | .shl | .shr =>
    let t := x.ty.promote
    let a := t.wrap x.v
    let n := y.ty.promote.wrap y.v
    if n < 0 || n ≥ t.bits then none
    else
      match op with
      | .shl =>
        if t.signed then
          (if a < 0 then none else (if t.inRange (a * 2 ^ n.toNat) then some ⟨t, a * 2 ^ n.toNat⟩ else none))
        else some ⟨t, t.wrap (a * 2 ^ n.toNat)⟩
      | _ => some ⟨t, a / (2 ^ n.toNat : Int)⟩
  | .bor | .bxor | .band =>
    let t := CTy.usual x.ty y.ty
    let a := toU t (t.wrap x.v)
    let b := toU t (t.wrap y.v)
    let r : Nat := match op with
      | .bor => a ||| b
      | .bxor => a ^^^ b
      | _ => a &&& b
    some ⟨t, t.wrap (r : Int)⟩
  | .lor => some (boolVal (x.v ≠ 0 || y.v ≠ 0))
  | .land => some (boolVal (x.v ≠ 0 && y.v ≠ 0))

/-- What an expression can read. -/
structure Env where
  outVal : Nat → CVal
  lenVal : Nat → CVal
  /-- declared size used by the bounds check (`str_size`, or `sizeof` for raw outputs) -/
  size : Nat → Nat
  /-- the byte at an in-bounds index, as the element type reads it; `none` = indeterminate -/
  byteAt : Nat → Nat → Option CVal
  last : CVal
  unsafeIdx : Bool

def eval (ρ : Env) : IExpr → Option CVal
  | .lit v => some ⟨litTy v, v⟩
  | .litB b => some (boolVal b)
  | .litE _ v => some ⟨CTy.i32, v⟩
  | .out i => some (ρ.outVal i)
  | .len i => some (ρ.lenVal i)
  | .last => some ρ.last
  | .idx i e =>
    match eval ρ e with
    | none => none
    | some iv =>
      if ρ.unsafeIdx then
        (if 0 ≤ iv.v && iv.v < ρ.size i then ρ.byteAt i iv.v.toNat else none)
      else
        -- `(((i) >= 0 && (i) < len) ? s[i] : 0)` with `len` the current length counter: the index is
        -- evaluated up to three times, with the same value; the conditional operator's type is the
        -- promoted element type ∨ int
        if 0 ≤ (CTy.usual iv.ty CTy.i32).wrap iv.v && (CTy.usual iv.ty CTy.i32).wrap iv.v < (ρ.lenVal i).v then
          -- (the three occurrences of the index have one value; it is the one that was compared)
          (match ρ.byteAt i ((CTy.usual iv.ty CTy.i32).wrap iv.v).toNat with
           | none => none
           | some b => some ⟨CTy.i32, b.v⟩)
        else some ⟨CTy.i32, 0⟩
  | .bin .lor _ l r =>
    match eval ρ l with
    | none => none
    | some x => if x.v ≠ 0 then some (boolVal true) else
      match eval ρ r with
      | none => none
      | some y => some (boolVal (y.v ≠ 0))
  | .bin .land _ l r =>
    match eval ρ l with
    | none => none
    | some x => if x.v = 0 then some (boolVal false) else
      match eval ρ r with
      | none => none
      | some y => some (boolVal (y.v ≠ 0))
  | .bin op _ l r =>
    match eval ρ l, eval ρ r with
    | some x, some y => evalBin op x y
    | _, _ => none

def BinOp.text : BinOp → String
  | .add => "+" | .sub => "-" | .mul => "*" | .div => "/" | .mod => "%"
  | .lt => "<" | .gt => ">" | .le => "<=" | .ge => ">=" | .eq => "==" | .ne => "!="
  | .shl => "<<" | .shr => ">>"
  | .bor => "|" | .bxor => "^" | .band => "&"
  | .lor => "||" | .land => "&&"

/-- Does the expression read `$last`? -/
def IExpr.readsLast : IExpr → Bool
  | .last => true
  | .idx _ e => e.readsLast
  | .bin _ _ l r => l.readsLast || r.readsLast
  | _ => false

/-- Replace `$last` by a literal byte (used when a tree is built for a known symbol). -/
def IExpr.substLast (b : Nat) : IExpr → IExpr
  | .last => .lit b
  | .idx i e => .idx i (e.substLast b)
  | .bin op f l r => .bin op f (l.substLast b) (r.substLast b)
  | e => e

/-- Does the expression read output `i` (its value, its length or one of its bytes)? -/
def IExpr.readsOut (i : Nat) : IExpr → Bool
  | .out j => i == j
  | .len j => i == j
  | .idx j e => i == j || e.readsOut i
  | .bin _ _ l r => l.readsOut i || r.readsOut i
  | _ => false

/-- The expression reads no byte of a string / raw output by index. -/
def IExpr.idxFree : IExpr → Bool
  | .idx _ _ => false
  | .bin _ _ l r => l.idxFree && r.idxFree
  | _ => true

/-- Forget which nodes were written as one n-ary chain (the value does not depend on it). -/
def IExpr.unflat : IExpr → IExpr
  | .idx i e => .idx i e.unflat
  | .bin op _ l r => .bin op false l.unflat r.unflat
  | e => e

end Nmfu
