/-
  Spin detection refined by a one-bit-per-buffer abstraction.

  A call-level tree explores both outcomes of every out-of-space test.  Some of those paths are
  infeasible: after `delete s` the buffer is not full, right after the out-of-space branch it is
  still full.  `prune` removes the branches that contradict what the path itself has established
  about each buffer (`full` / `notFull` / unknown); the remaining SPIN leaves are the candidates.
  `prune_runTree` (NmfuProps/C04.lean) shows pruning does not change any concrete run.
-/
import NmfuModel.Rt
namespace Nmfu

/-- Known fullness of buffers along a path: `some true` = full, `some false` = not full. -/
abbrev Full := Nat → Option Bool

def Full.top : Full := fun _ => none

def Full.set (α : Full) (i : Nat) (v : Option Bool) : Full :=
  fun j => if j = i then v else α j

/-- What an action event establishes about the fullness of buffers. -/
def Full.after (c : RtCtx) (α : Full) : AEv → Full
  | .append i _ => α.set i none
  | .appendC i _ => α.set i none
  | .delete i => α.set i (if 0 < (c.ty i).cap then some false else none)
  | .setStr i bs => α.set i (if bs.length < (c.ty i).cap then some false else none)
  | _ => α

def prune (c : RtCtx) : Full → CTree → CTree
  | α, .emit a k => .emit a (prune c (α.after c a) k)
  | α, .ask (.full i) kt kf =>
      match α i with
      | some true => .ask (.full i) (prune c α kt) (.leaf (.ret "PRUNED" 0 0))
      | some false => .ask (.full i) (.leaf (.ret "PRUNED" 0 0)) (prune c α kf)
      | none => .ask (.full i) (prune c (α.set i (some true)) kt) (prune c (α.set i (some false)) kf)
  | α, .ask q kt kf => .ask q (prune c α kt) (prune c α kf)
  | _, .leaf l => .leaf l

/-- No path of any pruned call tree ends in SPIN: every dispatch terminates, for every outcome of
    every data test that is consistent along the path. -/
def RtCtx.noSpinCheck (c : RtCtx) : Bool :=
  (List.range c.M.states.size).all fun s =>
    (List.range nSym).all fun x =>
      (prune c Full.top (c.M.call c.semOpts s x)).paths.all fun p =>
        match p.2 with
        | .ret code _ _ => code != "SPIN"
        | _ => true

/-- The SPIN paths that survive pruning, for diagnosis: (state, symbol, events). -/
def RtCtx.spinPaths (c : RtCtx) : List (Nat × Nat × List MEv) :=
  (List.range c.M.states.size).flatMap fun (s : Nat) =>
    (List.range nSym).flatMap fun (x : Nat) =>
      ((prune c Full.top (c.M.call c.semOpts (s : Int) x)).paths.filter fun p =>
        match p.2 with
        | .ret code _ _ => code == "SPIN"
        | _ => false).map fun p => (s, x, p.1)

/-- Yield progress: from every state and symbol, the chain of re-invocations after yields that
    have not consumed the byte is finite (`Machine.step` with `n+1` re-invocations never reports
    SPIN). -/
def Machine.yieldProgressCheck (M : Machine) (o : SemOpts) : Bool :=
  (List.range M.states.size).all fun s =>
    (List.range nSym).all fun x =>
      (M.step o (M.states.size + 2) s x).paths.all fun p =>
        !(p.1.any fun e => match e with | .act (.ret "YSPIN") => true | _ => false)

end Nmfu
