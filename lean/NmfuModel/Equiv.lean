/-
  Lag-tolerant trace-equivalence checker for two symbolic machines.

  A product state `(a, b, lag, aLeads)` says: the two machines are in configurations `a`, `b`,
  and the leading side has performed the events `lag` that the trailing side has not performed
  yet.  On the next symbol the trailing side must perform exactly `lag` first (`sync`, replaying
  the recorded answers), after which both trees are walked jointly from a common history
  (`joint`); when one side reaches its leaf the other side's remaining paths become the new lag.
  The exploration itself is untrusted: it produces a candidate set of product states, and
  `certOK` re-checks that the set is closed.  `certOK_sound` (NmfuProps/EquivSound.lean) is
  proved for every pair of machines.
-/
import NmfuModel.Tree
namespace Nmfu

variable {S T A Q : Type} [DecidableEq A] [DecidableEq Q] [DecidableEq S] [DecidableEq T]

structure PS (S T A Q : Type) where
  a : Option S
  b : Option T
  lag : List (Ev A Q)
  aLeads : Bool
  deriving DecidableEq, Repr, Hashable

instance : Inhabited (PS S T A Q) := ⟨⟨none, none, [], false⟩⟩

/-- The trailing side performs the lag first; result: what is left of its tree. -/
def sync {L : Type} : List (Ev A Q) → Tree A Q L → Option (Tree A Q L)
  | [], t => some t
  | .act a' :: es, .emit a k => if a' = a then sync es k else none
  | .asked q' v :: es, .ask q kt kf => if q' = q then sync es (if v then kt else kf) else none
  | _ :: _, _ => none

/-- Joint walk of two trees from a common history. -/
def joint : Tree A Q (Leaf S) → Tree A Q (Leaf T) → Option (List (PS S T A Q))
  | .emit a k, .emit a' k' => if a = a' then joint k k' else none
  | .ask q kt kf, .ask q' kt' kf' =>
      if q = q' then
        match joint kt kt', joint kf kf' with
        | some l1, some l2 => some (l1 ++ l2)
        | _, _ => none
      else none
  | .leaf l, t => some (t.paths.map fun p => ⟨l.cfg, p.2.cfg, p.1, false⟩)
  | .emit a k, .leaf l => some ((Tree.emit a k).paths.map fun p => ⟨p.2.cfg, l.cfg, p.1, true⟩)
  | .ask q kt kf, .leaf l => some ((Tree.ask q kt kf).paths.map fun p => ⟨p.2.cfg, l.cfg, p.1, true⟩)
  | .emit _ _, .ask _ _ _ => none
  | .ask _ _ _, .emit _ _ => none

/-- One step of the product on symbol `x`; `none` = mismatch. -/
def stepCheck (M : SM S A Q) (N : SM T A Q) (p : PS S T A Q) (x : Nat) : Option (List (PS S T A Q)) :=
  let tA := M.tree p.a x
  let tB := N.tree p.b x
  if p.aLeads then
    match sync p.lag tB with
    | none => none
    | some tB' => joint tA tB'
  else
    match sync p.lag tA with
    | none => none
    | some tA' => joint tA' tB

def initPS (M : SM S A Q) (N : SM T A Q) : PS S T A Q := ⟨some M.start, some N.start, [], false⟩

/-- The certificate check: `V` contains the initial product state and is closed under every
    symbol below `nsym`, with no mismatch. -/
def certOK (M : SM S A Q) (N : SM T A Q) (nsym : Nat) (V : List (PS S T A Q)) : Bool :=
  V.contains (initPS M N) &&
  V.all fun p => (List.range nsym).all fun x =>
    match stepCheck M N p x with
    | none => false
    | some succs => succs.all fun p' => V.contains p'



end Nmfu
