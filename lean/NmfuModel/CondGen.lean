/-
  The test the code generator emits for one transition (mirror of `CodegenCtx._generate_condition_for_transition`):
  the listed byte values sorted, maximal runs of consecutive values longer than the collapsed-range length become
  range tests `lo <= inval && inval <= hi`, everything else equality tests, joined by `||`.
  (`End` is sorted to the front, skipped by the run search and never tested: `hasEnd` only counts towards the
  length that enables collapsing.)  Compared with the real function on generated value sets by check_C06.
-/
namespace Nmfu

inductive Chk where
  | range (lo hi : Nat)
  | eq (v : Nat)
  deriving DecidableEq, Repr

def Chk.test (x : Nat) : Chk → Bool
  | .range lo hi => decide (lo ≤ x) && decide (x ≤ hi)
  | .eq v => x == v

/-- maximal runs of consecutive values, as (first value, length) -/
def runsAux : Nat → Nat → List Nat → List (Nat × Nat)
  | lo, len, [] => [(lo, len)]
  | lo, len, v :: r => if v = lo + len then runsAux lo (len + 1) r else (lo, len) :: runsAux v 1 r

def runs : List Nat → List (Nat × Nat)
  | [] => []
  | v :: r => runsAux v 1 r

/-- a run whose last index is at least `L` beyond its first becomes one range test -/
def runChecks (L : Nat) (p : Nat × Nat) : List Chk :=
  if p.2 - 1 ≥ L then [.range p.1 (p.1 + p.2 - 1)] else (List.range p.2).map fun k => .eq (p.1 + k)

def condChecks (enabled : Bool) (L : Nat) (hasEnd : Bool) (vals : List Nat) : List Chk :=
  if enabled && decide (vals.length + (if hasEnd then 1 else 0) ≥ L) then
    (runs (vals.mergeSort (fun a b => decide (a ≤ b)))).flatMap (runChecks L)
  else vals.map .eq

/-- the emitted condition: a disjunction -/
def condTest (cs : List Chk) (x : Nat) : Bool := cs.any (Chk.test x)

end Nmfu
