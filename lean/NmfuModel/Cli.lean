/-
  Command-line flag resolution: a mirror of `ProgramData.load_commandline_flags`
  (nmfu.py 1359-1493) over an arbitrary flag table (the generated `Gen.flagTable` in use).

  * the `-f/-fno-/--flag` settings are collected in a dict: one entry per flag, in order of first
    occurrence, holding the last value given (`normalize`);
  * flags start from their defaults, the levels `0..level` are switched on, the explicit settings
    are written, then the `implies` closure is taken (sweeps in table order until nothing
    changes), then, for each explicitly set flag that is on, its exclusive flags — and those of
    everything it implies — are switched off, unless one of them was explicitly requested, which
    is an error.
-/
import NmfuModel.CliTypes
namespace Nmfu

abbrev FlagMap := List (Nat × Bool)

def FlagMap.get : FlagMap → Nat → Bool
  | [], _ => false
  | p :: rest, k => if p.1 = k then p.2 else FlagMap.get rest k

def FlagMap.has : FlagMap → Nat → Bool
  | [], _ => false
  | p :: rest, k => if p.1 = k then true else FlagMap.has rest k

def FlagMap.set : FlagMap → Nat → Bool → FlagMap
  | [], _, _ => []
  | p :: rest, k, v => (if p.1 = k then (k, v) else p) :: FlagMap.set rest k v

/-- Python dict update semantics for the override list. -/
def normalize (ov : List (Nat × Bool)) : FlagMap :=
  ov.foldl (fun acc p => if FlagMap.has acc p.1 then FlagMap.set acc p.1 p.2 else acc ++ [p]) []

def infoOf (tbl : List FlagInfo) (k : Nat) : FlagInfo :=
  match tbl.find? (fun f => f.id == k) with
  | some f => f
  | none => ⟨k, "", false, [], []⟩

def initFlags (tbl : List FlagInfo) : FlagMap := tbl.map fun f => (f.id, f.default)

def applyLevels (levels : List (List Nat)) (level : Nat) (m : FlagMap) : FlagMap :=
  ((levels.take (level + 1)).flatten).foldl (fun m f => m.set f true) m

def applyOverrides (ovn : FlagMap) (m : FlagMap) : FlagMap :=
  ovn.foldl (fun m p => m.set p.1 p.2) m

/-- One sweep of the implies loop, in table order, with in-place updates. -/
def impliesSweep (tbl : List FlagInfo) (m : FlagMap) : FlagMap × Bool :=
  tbl.foldl (fun (acc : FlagMap × Bool) f =>
    if acc.1.get f.id then
      f.implies.foldl (fun (acc : FlagMap × Bool) x =>
        if acc.1.get x then acc else (acc.1.set x true, true)) acc
    else acc) (m, false)

def impliesFix (tbl : List FlagInfo) : Nat → FlagMap → FlagMap
  | 0, m => m
  | fuel + 1, m =>
    let r := impliesSweep tbl m
    if r.2 then impliesFix tbl fuel r.1 else r.1

/-- Fold a partial update over a list, stopping at the first error (`none`). -/
def foldOpt {α : Type} (f : α → FlagMap → Option FlagMap) : List α → FlagMap → Option FlagMap
  | [], m => some m
  | i :: is, m =>
    match f i m with
    | none => none
    | some m' => foldOpt f is m'

/-- One conflict of the flag being examined: an explicitly requested one is an error (`none`),
    another one that is on is switched off. -/
def exclClear (ovn : FlagMap) (c : Nat) (m : FlagMap) : Option FlagMap :=
  if ovn.has c && ovn.get c then none
  else if m.get c then some (m.set c false) else some m

/-- `aux(flag)` of the exclusivity pass (`none` = the RuntimeError "Conflict between ..."). -/
def exclAux (tbl : List FlagInfo) (ovn : FlagMap) : Nat → Nat → FlagMap → Option FlagMap
  | 0, _, m => some m
  | fuel + 1, flag, m =>
    match foldOpt (exclClear ovn) (infoOf tbl flag).excl m with
    | none => none
    | some m1 => foldOpt (exclAux tbl ovn fuel) (infoOf tbl flag).implies m1

def exclPass (tbl : List FlagInfo) (ovn : FlagMap) (m : FlagMap) : Option FlagMap :=
  foldOpt (fun (p : Nat × Bool) m => if m.get p.1 then exclAux tbl ovn (tbl.length + 1) p.1 m else some m) ovn m

def resolveN (tbl : List FlagInfo) (levels : List (List Nat)) (level : Nat) (ovn : FlagMap) :
    Option FlagMap :=
  let m := initFlags tbl
  let m := applyLevels levels level m
  let m := applyOverrides ovn m
  let m := impliesFix tbl (tbl.length + 1) m
  exclPass tbl ovn m

/-- `exclPass` / `resolveN` with the two recursion budgets as parameters (`resolveN` uses
    `tbl.length + 1` for both): lets statements about a sub-table use the budgets of the whole table. -/
def exclPassF (tbl : List FlagInfo) (fe : Nat) (ovn : FlagMap) (m : FlagMap) : Option FlagMap :=
  foldOpt (fun (p : Nat × Bool) m => if m.get p.1 then exclAux tbl ovn fe p.1 m else some m) ovn m

def resolveNF (tbl : List FlagInfo) (fi fe : Nat) (levels : List (List Nat)) (level : Nat) (ovn : FlagMap) :
    Option FlagMap :=
  exclPassF tbl fe ovn (impliesFix tbl fi (applyOverrides ovn (applyLevels levels level (initFlags tbl))))

theorem resolveN_eq_resolveNF (tbl : List FlagInfo) (levels : List (List Nat)) (level : Nat) (ovn : FlagMap) :
    resolveN tbl levels level ovn = resolveNF tbl (tbl.length + 1) (tbl.length + 1) levels level ovn := rfl

def resolve (tbl : List FlagInfo) (levels : List (List Nat)) (level : Nat) (ov : List (Nat × Bool)) :
    Option FlagMap :=
  resolveN tbl levels level (normalize ov)

def isOptFlag (levels : List (List Nat)) (f : Nat) : Bool := levels.flatten.contains f

end Nmfu
