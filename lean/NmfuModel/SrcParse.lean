/- Parser for the token stream written by harness/srcexport.py (reference-semantics programs). -/
import NmfuModel.Src
import NmfuModel.Parse
namespace Nmfu

partial def pRx : P Rx := do
  let t ← tok
  match t with
  | "re" => pure .empty
  | "rz" => pure .eps
  | "rc" => do let n ← pNat; let s ← pMany n pNat; pure (.cls s)
  | "rs" => do let a ← pRx; let b ← pRx; pure (.seq a b)
  | "ra" => do let a ← pRx; let b ← pRx; pure (.alt a b)
  | "rk" => do let a ← pRx; pure (.star a)
  | _ => throw s!"bad rx token {t}"

def pSAct : P SAct := do
  let t ← tok
  match t with
  | "hook" => pure (.hook (← tok))
  | "set" => do let o ← pNat; let e ← pExpr; pure (.set o e)
  | "setstr" => do let o ← pNat; let n ← pNat; let bs ← pMany n pNat; pure (.setStr o bs)
  | "delete" => pure (.delete (← pNat))
  | "appendc" => do let o ← pNat; let e ← pExpr; pure (.appendC o e)
  | "finish" => pure (.finish none)
  | "finishc" => pure (.finish (some (← tok)))
  | "yield" => pure (.yield (← tok))
  | "break" => pure (.brk (← pNat))
  | "cond" => do
    let n ← pNat
    let bs ← pMany n (do let c ← pCond; let b ← pNat; pure (c, b))
    pure (.cond bs)
  | _ => throw s!"bad sact token {t}"

def pPc : P PerChar := do
  let na ← pNat
  let acts ← pMany na pSAct
  let np ← pNat
  let apps ← pMany np pNat
  pure ⟨acts, apps⟩

def pStmt : P Stmt := do
  let t ← tok
  match t with
  | "m" => do let r ← pRx; let pc ← pPc; pure (.mtch r pc)
  | "w" => do let r ← pRx; let pc ← pPc; pure (.wait r pc)
  | "a" => do pure (.act (← pSAct))
  | "case" => do
    let g ← pBool
    let pc ← pPc
    let nc ← pNat
    let cl ← pMany nc (do
      let np ← pNat
      let pats ← pMany np (do let r ← pRx; let pr ← pNat; pure (r, pr))
      let b ← pNat
      pure (pats, b))
    let e ← pInt
    pure (.cas g pc cl (if e < 0 then none else some e.toNat))
  | "opt" => pure (.opt (← pNat))
  | "loop" => do let id ← pNat; let b ← pNat; pure (.loop id b)
  | "try" => do let b ← pNat; let nm ← pBool; let oos ← pBool; let h ← pNat; pure (.try_ b nm oos h)
  | "if" => do
    let n ← pNat
    let bs ← pMany n (do let c ← pCond; let b ← pNat; pure (c, b))
    pure (.ifs bs)
  | _ => throw s!"bad stmt token {t}"

def pProg : P Prog := do
  expect "prog"
  let nb ← pNat
  let blocks ← pMany nb (do
    expect "block"
    let n ← pNat
    pMany n pStmt)
  let main ← pNat
  expect "end"
  pure { blocks := blocks.toArray, main := main }

def parseProg (s : String) : Except String Prog := pProg.run' (tokenize s)

end Nmfu
