/-
  The compiled machine, as data: a mirror of nmfu's `DFA` (states in `dfa.states` order, ordered
  transitions, actions by content), exported from the real compiler on every run
  (harness/export.py), plus its abstract step semantics as interaction trees.

  The step semantics follows the emitted code (CodegenCtx._generate_transition_body etc.):
  `state->state` is written before the actions, an out-of-space append or a break overrides it,
  a fall-through arm re-dispatches the same symbol, `finish`/`yield` return in the middle of an
  arm.  Symbols: 0..255 are bytes, 256 is end-of-input (the `end()` function).
  On-values additionally use 257 for `Else`.
-/
import NmfuModel.Tree
import NmfuModel.Expr
namespace Nmfu

def symEnd : Nat := 256
def onElse : Nat := 257
def nSym : Nat := 257

inductive OutTy where
  | bool
  | int (signed : Bool) (bits : Nat)
  | enum (n : Nat)
  | str (size : Nat) (nullTerm : Bool)
  | raw (sizeof : Nat)
  deriving DecidableEq, Repr, Inhabited

structure OutDecl where
  name : String
  ty : OutTy
  /-- default: integer value for scalars, bytes for strings -/
  defInt : Option Int
  defStr : Option (List Nat)
  deriving Repr, Inhabited

inductive Cond where
  | else_
  | const (b : Bool)
  | expr (e : IExpr)
  deriving DecidableEq, Repr, Inhabited, Hashable

mutual
  inductive Act where
    | finish (code : Option String)
    | yield (code : String)
    | hook (name : String)
    | append (oos : Int) (out : Nat)
    /-- `each`: the action belongs to a foreach `do` block (it runs for the byte being read) -/
    | appendC (oos : Int) (out : Nat) (each : Bool) (e : IExpr)
    | set (out : Nat) (e : IExpr)
    | setStr (out : Nat) (bytes : List Nat)
    | delete (out : Nat)
    | brk (endState : Int) (after : Acts)
    | cond (bs : Branches)
  inductive Acts where
    | nil
    | cons (a : Act) (rest : Acts)
  inductive Branches where
    | nil
    | cons (c : Cond) (body : Acts) (rest : Branches)
end

instance : Inhabited Acts := ⟨.nil⟩

inductive StKind where
  | normal | cond | fail
  deriving DecidableEq, Repr, Inhabited

structure Arm where
  on : List Nat
  cond : Cond
  target : Int
  fall : Bool
  err : Bool
  acts : Acts
  deriving Inhabited

structure St where
  kind : StKind
  accepting : Bool
  arms : List Arm
  deriving Inhabited

structure Machine where
  states : Array St
  start : Nat
  outs : Array OutDecl
  startActs : Acts
  hooks : List String
  finishCodes : List String
  yieldCodes : List String
  deriving Inhabited

/-- Options that change the abstract behaviour of the emitted code. -/
structure SemOpts where
  strictDone : Bool := false
  /-- substitute the current byte for `$last` in events (strict) or keep it symbolic -/
  substLast : Bool := true
  /-- identify `s = ""` with `delete s` (what `use-delete-for-empty-string` replaces) in events -/
  canonEmptyStr : Bool := true
  /-- leave loose actions (non-self-referential assignments, string assignments, deletes) out of
      the event traces: used to attribute a mismatch to their scheduling alone -/
  dropLoose : Bool := false
  /-- reference only: the per-byte actions of a foreach around a `wait` also run when the wait
      meets end-of-input (what the compiled machines do; used to attribute a recorded finding) -/
  waitEndForeach : Bool := false
  /-- reference only: when a construct that can match nothing is skipped and only assignments /
      deletes follow up to the end of its block, those are not performed (what the compiled
      machines do: they lose them; used to attribute a recorded finding) -/
  skipLoses : Bool := false
  deriving Repr, Inhabited

/-! ### Events and questions -/

inductive AEv where
  | ret (code : String)
  | yield (code : String)
  | hook (name : String) (arg : Option Nat)
  | append (out : Nat) (byte : Option Nat)
  | appendC (out : Nat) (e : IExpr)
  | set (out : Nat) (e : IExpr)
  | setStr (out : Nat) (bytes : List Nat)
  | delete (out : Nat)
  | brk
  /-- only in the reference semantics: an action that was pending when an error struck — it may
      or may not have run -/
  | opt (a : AEv)
  /-- only in the reference semantics: marks the point where a mismatch / out-of-space condition was
      raised; what the same step performed before it was pending and may or may not have run -/
  | raised
  deriving DecidableEq, Repr, Inhabited, Hashable

inductive Quest where
  | cond (e : IExpr)
  | full (out : Nat)
  deriving DecidableEq, Repr, Inhabited, Hashable

abbrev MEv := Ev AEv Quest

/-! ### Static helpers mirroring the code generator -/

mutual
  def Act.mayYield : Act → Bool
    | .yield _ => true
    | .cond bs => bs.mayYield
    | _ => false
  def Branches.mayYield : Branches → Bool
    | .nil => false
    | .cons _ body rest => body.mayYield || rest.mayYield
  def Acts.mayYield : Acts → Bool
    | .nil => false
    | .cons a rest => a.mayYield || rest.mayYield
end

def Machine.st (M : Machine) (i : Nat) : St := M.states.getD i default

def Machine.isAccepting (M : Machine) (t : Int) : Bool :=
  t ≥ 0 && (M.st t.toNat).accepting

/-- `immediate_done` of `_generate_transition_body`. -/
def Machine.immediateDone (M : Machine) (o : SemOpts) (a : Arm) (fromEnd : Bool) : Bool :=
  (a.target ≥ 0 && M.isAccepting a.target && !o.strictDone &&
    (M.st a.target.toNat).arms.all (·.err)) ||
  -- end-of-input consumed into the accepting state: no later call could report DONE
  (fromEnd && !a.fall && a.target ≥ 0 && M.isAccepting a.target)

/-- The arm a normal state takes on byte `x` inside `feed`: the first non-else arm listing `x`
    (arms are tested in list order, the first arm that lists `Else` is emitted last and
    unconditionally). -/
def St.elseArm (s : St) : Option Arm := s.arms.find? (fun a => a.on.contains onElse)

def St.feedArm (s : St) (x : Nat) : Option Arm :=
  let isElse (a : Arm) : Bool := a.on.contains onElse
  -- the first else-arm is skipped in the if-chain and emitted last
  let rec go (arms : List Arm) (seenElse : Bool) : Option Arm :=
    match arms with
    | [] => none
    | a :: rest =>
      if isElse a && !seenElse then go rest true
      else if a.on.contains x then some a else go rest seenElse
  match go s.arms false with
  | some a => some a
  | none => s.elseArm

/-- The arm `end()` takes: `state[End]` = first arm listing `End`, otherwise the first listing
    `Else` (`DFState.__getitem__`). -/
def St.endArm (s : St) : Option Arm :=
  match s.arms.find? (fun a => a.on.contains symEnd) with
  | some a => some a
  | none => s.elseArm

/-! ### Trees -/

/-- How one call-level dispatch of a symbol ends.  `adv` counts the cursor advances performed
    while the symbol was being processed (1 for an ordinary consumed byte). -/
inductive MLeaf where
  /-- the symbol is consumed and the code continues with the next byte at state `s` -/
  | next (s : Int) (adv : Nat)
  /-- `feed`/`end` returns `code` (FAIL, DONE, FINISH_x, or OK without having consumed) with
      `state->state = st` -/
  | ret (code : String) (st : Int) (adv : Nat)
  /-- a yield code is returned from the middle of an arm -/
  | yielded (code : String) (st : Int) (adv : Nat)
  deriving DecidableEq, Repr, Inhabited

abbrev CTree := Tree AEv Quest MLeaf
abbrev MTree := Tree AEv Quest (Leaf Nat)

def retHalt (code : String) : MTree := .emit (.ret code) (.leaf .halt)

def subst (o : SemOpts) (x : Nat) (e : IExpr) : IExpr :=
  (if o.substLast then e.substLast (if x = symEnd then 255 else x) else e).unflat

def lastArg (o : SemOpts) (x : Nat) : Option Nat :=
  if o.substLast then some (if x = symEnd then 255 else x) else none

/-- Context of an arm body while its actions are being interpreted. -/
structure ArmCtx where
  o : SemOpts
  x : Nat
  /-- cursor advances so far (including the early advance of this arm) -/
  adv : Nat
  /-- the same without this arm's early advance: an out-of-space redirect hands the byte to the
      handler unconsumed, so the emitted code takes the early advance back -/
  advBase : Nat
  /-- `goto repeatswitch` / `goto fall_n`: dispatch the same symbol again at a state -/
  redispatch : Int → Nat → CTree
  /-- out-of-space of a constant append (`s += [e]`): on a consuming arm the byte the arm matched
      stays consumed and the handler starts at the next byte; otherwise as `redispatch` -/
  oosConst : Int → CTree

mutual
  /-- Tree of an action list.  `st` is the current value of `state->state`; `kNext st` continues
      with whatever follows the list, `kSkip st` is the arm's `skipaction` label. -/
  def Acts.tree (c : ArmCtx) : Acts → Int → (Int → CTree) → (Int → CTree) → CTree
    | .nil, st, kNext, _ => kNext st
    | .cons a rest, st, kNext, kSkip =>
        a.tree c st (fun st' => rest.tree c st' kNext kSkip) kSkip
  def Act.tree (c : ArmCtx) : Act → Int → (Int → CTree) → (Int → CTree) → CTree
    | .finish none, st, _, _ => .leaf (.ret "DONE" st c.adv)
    | .finish (some code), st, _, _ => .leaf (.ret ("FINISH_" ++ code) st c.adv)
    | .yield code, st, _, _ => .leaf (.yielded code st c.adv)
    | .hook n, st, kNext, _ => .emit (.hook n (lastArg c.o c.x)) (kNext st)
    | .append oos out, st, kNext, _ =>
        .ask (.full out) (c.redispatch oos c.advBase)
          (.emit (.append out (lastArg c.o c.x)) (kNext st))
    | .appendC oos out each e, st, kNext, _ =>
        .ask (.full out) (if each then c.redispatch oos c.advBase else c.oosConst oos)
          (.emit (.appendC out (subst c.o c.x e)) (kNext st))
    | .set out e, st, kNext, _ =>
        if c.o.dropLoose && !(e.readsOut out) then kNext st
        else .emit (.set out (subst c.o c.x e)) (kNext st)
    | .setStr out bytes, st, kNext, _ =>
        if c.o.dropLoose then kNext st
        else .emit (if bytes.isEmpty && c.o.canonEmptyStr then .delete out else .setStr out bytes) (kNext st)
    | .delete out, st, kNext, _ => if c.o.dropLoose then kNext st else .emit (.delete out) (kNext st)
    | .brk endState after, st, _, kSkip =>
        -- (a break is control flow: it is observed through what follows, not as an event of its own,
        --  because the compiler wires most breaks structurally without any action)
        after.tree c st (fun _ => kSkip endState) kSkip
    | .cond bs, st, kNext, kSkip => bs.tree c st kNext kSkip
  def Branches.tree (c : ArmCtx) : Branches → Int → (Int → CTree) → (Int → CTree) → CTree
    | .nil, st, kNext, _ => kNext st
    | .cons .else_ body _, st, kNext, kSkip => body.tree c st kNext kSkip
    | .cons (.const true) body _, st, kNext, kSkip => body.tree c st kNext kSkip
    | .cons (.const false) _ rest, st, kNext, kSkip => rest.tree c st kNext kSkip
    | .cons (.expr e) body rest, st, kNext, kSkip =>
        .ask (.cond (subst c.o c.x e)) (body.tree c st kNext kSkip) (rest.tree c st kNext kSkip)
end

/-- What the trailing `return` of a state's case does when control falls out of an arm.  In `end()`
    a FAIL is final: the state becomes `failSt` (the generic fail state, or the index past the table). -/
def fallOut (failSt : Int) (srcAccepting : Bool) (x : Nat) (st : Int) (adv : Nat) : CTree :=
  if srcAccepting then .leaf (.ret "DONE" st adv)
  else if x = symEnd then .leaf (.ret "FAIL" failSt adv)
  else .leaf (.ret "OK" st adv)

/-- index of the generic fail state, if the table has one -/
def Machine.failIdx (M : Machine) : Option Int :=
  ((List.range M.states.size).find? fun i => (M.states.getD i default).kind == .fail).map Int.ofNat

/-- where a final FAIL of `end()` leaves the state: the generic fail state, or — when that state was
    removed from the table — the index past the last state (the `default:` case of both switches) -/
def Machine.failTarget (M : Machine) : Int := M.failIdx.getD M.states.size

/-- Body of an arm taken in state `src` (index `si`) on symbol `x` (mirror of
    `_generate_transition_body`). -/
def Machine.armTree (M : Machine) (o : SemOpts) (si : Int) (src : St) (a : Arm) (x : Nat) (adv : Nat)
    (redispatch : Int → Nat → CTree) : CTree :=
  let fromEnd := x = symEnd
  let imm := M.immediateDone o a fromEnd
  let early := a.acts.mayYield && !fromEnd && !a.fall && !imm
  let adv' := if early then adv + 1 else adv
  let c : ArmCtx := { o := o, x := x, adv := adv', advBase := adv, redispatch := redispatch,
                      oosConst := fun h =>
                        if !a.fall && !fromEnd then .leaf (.next h (if early then adv' else adv' + 1))
                        else redispatch h adv' }
  let epilogue : Int → CTree := fun st =>
    if a.fall then
      (if a.target ≥ 0 then redispatch st adv' else fallOut M.failTarget src.accepting x st adv')
    else if imm then .leaf (.ret "DONE" st adv')
    else if fromEnd then fallOut M.failTarget src.accepting x st adv'
    else if a.target ≥ 0 then .leaf (.next st (if early then adv' else adv' + 1))
    else fallOut M.failTarget src.accepting x st adv'
  -- a break taken while end-of-input is being consumed that leaves the loop at the end of the program: DONE
  let epilogueBrk : Int → CTree := fun st =>
    if fromEnd && !a.fall && M.isAccepting st then .leaf (.ret "DONE" st adv') else epilogue st
  -- `state->state` is only written when the target is a state of the table
  a.acts.tree c (if a.target ≥ 0 then a.target else si) epilogue epilogueBrk

/-- Dispatch symbol `x` at state `s` (an `Int`: an index outside the table is the `default:`
    case).  `fuel` bounds the non-consuming moves. -/
def Machine.dispatch (M : Machine) (o : SemOpts) : Nat → Int → Nat → Nat → CTree
  | 0, s, _, adv => .leaf (.ret "SPIN" s adv)
  | fuel + 1, s, x, adv =>
    if s < 0 || s.toNat ≥ M.states.size then .leaf (.ret "FAIL" s adv)
    else
      let st := M.st s.toNat
      let re : Int → Nat → CTree := fun s' adv' => M.dispatch o fuel s' x adv'
      match st.kind with
      | .fail => .leaf (.ret "FAIL" s adv)
      | .cond =>
        let rec chain (arms : List Arm) : CTree :=
          match arms with
          | [] => .leaf (.ret "FAIL" s adv)
          | a :: rest =>
            match a.cond with
            | .else_ => M.armTree o s st a x adv re
            | .const true => M.armTree o s st a x adv re
            | .const false => chain rest
            | .expr e => .ask (.cond (subst o x e)) (M.armTree o s st a x adv re) (chain rest)
        chain st.arms
      | .normal =>
        let arm := if x = symEnd then st.endArm else st.feedArm x
        match arm with
        | some a =>
          -- once the accepting state is reached, input only its error handling would take means
          -- "nothing more to match": DONE (the arm's test still shadows the else arm)
          if st.accepting && a.err then .leaf (.ret "DONE" s adv) else M.armTree o s st a x adv re
        | none => fallOut M.failTarget st.accepting x s adv

/-- the generic fail state (the one state of kind `fail`) -/
def Machine.isFailState (M : Machine) (s : Int) : Bool :=
  decide (0 ≤ s) && decide (s.toNat < M.states.size) && (M.st s.toNat).kind == .fail

/-- Fuel for the non-consuming moves of one step: no simple chain of fall-throughs is longer than
    the number of states; redirects may revisit, so allow a small multiple. -/
def Machine.stepFuel (M : Machine) : Nat := 2 * M.states.size + 4

/-- One call-level dispatch as the emitted `feed` (bytes) or `end` (symbol 256) performs it. -/
def Machine.call (M : Machine) (o : SemOpts) (s : Int) (x : Nat) : CTree :=
  M.dispatch o M.stepFuel s x 0

/-- The per-symbol step of the symbolic machine: a yield that has not consumed the byte is
    followed by the re-invocation on the same byte (`fuelY` bounds such re-invocations). -/
def Machine.step (M : Machine) (o : SemOpts) : Nat → Int → Nat → MTree
  | 0, _, _ => retHalt "YSPIN"
  | fuelY + 1, s, x =>
    (M.call o s x).bind fun l =>
      match l with
      | .next s' adv => if adv = 1 && s' ≥ 0 then .leaf (.next s'.toNat) else retHalt "WEIRD"
      | .ret code _ adv =>
          if code = "OK" then retHalt "STUCK" else if adv ≤ 1 then retHalt code else retHalt "WEIRD"
      | .yielded code st adv =>
          .emit (.yield code)
            (if adv = 1 then (if st ≥ 0 then .leaf (.next st.toNat) else retHalt "WEIRD")
             else if adv = 0 then M.step o fuelY st x
             else retHalt "WEIRD")

def Machine.sm (M : Machine) (o : SemOpts) : SM Nat AEv Quest where
  start := M.start
  step := fun s x => M.step o 8 s x

/-- The symbolic machine with the start actions in front: a pre-start state (index = number of
    states) performs the start actions when the first symbol arrives and then dispatches it at
    the start state, so that its event sequences can be compared with a reference semantics that
    performs leading actions lazily. -/
def Machine.smS (M : Machine) (o : SemOpts) : SM Nat AEv Quest where
  start := M.states.size
  step := fun s x =>
    if s = M.states.size then
      let ctx : ArmCtx := { o := o, x := 0, adv := 0, advBase := 0, redispatch := fun st _ => .leaf (.next st 0),
                             oosConst := fun st => .leaf (.next st 0) }
      let t : CTree := M.startActs.tree ctx M.start (fun st => .leaf (.next st 0)) (fun st => .leaf (.next st 0))
      t.bind fun l =>
        match l with
        | .next st _ => M.step o 8 st x
        | .ret code _ _ => retHalt code
        | .yielded code st _ => .emit (.yield code) (M.step o 8 st x)
    else M.step o 8 s x

end Nmfu
