/-
  Interaction trees with history-indexed oracles.

  A symbolic machine answers one input symbol with a finite tree: `emit a k` performs the
  content-labelled action `a`, `ask q kt kf` tests a data condition (the data are uninterpreted:
  both outcomes exist), a leaf either names the next state or halts.  A run is determined by an
  oracle `ω : history → question → Bool`; the history is the list of all events executed so far,
  answered questions included, so two runs that have produced the same events receive the same
  answer however those events were distributed over input steps.

  Core Lean only (this file is linked into the model driver).
-/
namespace Nmfu

inductive Ev (A Q : Type) where
  | act : A → Ev A Q
  | asked : Q → Bool → Ev A Q
  deriving DecidableEq, Repr, Hashable

inductive Leaf (S : Type) where
  | next (s : S)
  | halt
  deriving DecidableEq, Repr, Hashable

inductive Tree (A Q L : Type) where
  | emit : A → Tree A Q L → Tree A Q L
  | ask : Q → Tree A Q L → Tree A Q L → Tree A Q L
  | leaf : L → Tree A Q L
  deriving Repr, DecidableEq

abbrev Oracle (A Q : Type) := List (Ev A Q) → Q → Bool

variable {A Q L S : Type}

def Leaf.cfg : Leaf S → Option S
  | .next s => some s
  | .halt => none

/-- Run a tree from history `h`: the events it performs (answers included) and its leaf. -/
def Tree.run (ω : Oracle A Q) : Tree A Q L → List (Ev A Q) → List (Ev A Q) × L
  | .emit a k, h =>
      let r := Tree.run ω k (h ++ [.act a])
      (.act a :: r.1, r.2)
  | .ask q kt kf, h =>
      if ω h q then
        let r := Tree.run ω kt (h ++ [.asked q true])
        (.asked q true :: r.1, r.2)
      else
        let r := Tree.run ω kf (h ++ [.asked q false])
        (.asked q false :: r.1, r.2)
  | .leaf l, _ => ([], l)

/-- All root-to-leaf paths of a tree. -/
def Tree.paths : Tree A Q L → List (List (Ev A Q) × L)
  | .emit a k => (Tree.paths k).map fun p => (.act a :: p.1, p.2)
  | .ask q kt kf =>
      ((Tree.paths kt).map fun p => (.asked q true :: p.1, p.2)) ++
      ((Tree.paths kf).map fun p => (.asked q false :: p.1, p.2))
  | .leaf l => [([], l)]

def Tree.size : Tree A Q L → Nat
  | .emit _ k => k.size + 1
  | .ask _ kt kf => kt.size + kf.size + 1
  | .leaf _ => 1

/-- Graft: replace every leaf by a tree. -/
def Tree.bind {L' : Type} : Tree A Q L → (L → Tree A Q L') → Tree A Q L'
  | .emit a k, f => .emit a (Tree.bind k f)
  | .ask q kt kf, f => .ask q (Tree.bind kt f) (Tree.bind kf f)
  | .leaf l, f => f l

/-- A symbolic machine: a start state and one tree per (state, symbol). -/
structure SM (S A Q : Type) where
  start : S
  step : S → Nat → Tree A Q (Leaf S)

/-- The tree of a configuration (`none` = halted) on a symbol. -/
def SM.tree (M : SM S A Q) : Option S → Nat → Tree A Q (Leaf S)
  | none, _ => .leaf .halt
  | some s, x => M.step s x

/-- Run from history `h` and configuration `c` over the word `w`: new events and final
    configuration. -/
def SM.runFrom (M : SM S A Q) (ω : Oracle A Q) :
    List (Ev A Q) → Option S → List Nat → List (Ev A Q) × Option S
  | _, c, [] => ([], c)
  | h, c, x :: w =>
      let r := (M.tree c x).run ω h
      let r' := SM.runFrom M ω (h ++ r.1) r.2.cfg w
      (r.1 ++ r'.1, r'.2)

/-- All events performed on input `w` from the start state. -/
def SM.events (M : SM S A Q) (ω : Oracle A Q) (w : List Nat) : List (Ev A Q) :=
  (M.runFrom ω [] (some M.start) w).1

def SM.finalCfg (M : SM S A Q) (ω : Oracle A Q) (w : List Nat) : Option S :=
  (M.runFrom ω [] (some M.start) w).2

end Nmfu
