/-
  Optimisation passes of `DfaCompileCtx`, as functions on the exported machine.

  * `Machine.simplifyElse` — mirror of `_optimize_simplify_transition_matches`: a transition that
    lists `Else` next to other symbols keeps `Else` only.
  * `Machine.removeStates keep` — mirror of the *effect* of `_optimize_remove_inaccessible` on the
    exported table: the states outside `keep` leave `dfa.states`, the others keep their order and
    move up; references to a removed state are exported as -1 (`Exporter.sidx`).
    `Machine.reachable` is the depth-first search of `DFA.dfs` (start state, targets of the start
    actions' redirects, and per transition either the break target(s) or the nominal target plus
    the redirect targets).

  The harness snapshots the machine before and after every invocation of the real passes and asks
  the driver (`optpass`) whether the mirror maps the one onto the other.  What the mirrors preserve
  is proved in NmfuProps/C05Opt.lean for every machine.
-/
import NmfuModel.Mach
namespace Nmfu

/-! ### `_optimize_simplify_transition_matches` -/

def Arm.isElse (a : Arm) : Bool := a.on.contains onElse

def Arm.simplifyElse (a : Arm) : Arm :=
  if a.on.length > 1 && a.isElse then { a with on := [onElse] } else a

def St.simplifyElse (s : St) : St := { s with arms := s.arms.map Arm.simplifyElse }

def Machine.simplifyElse (M : Machine) : Machine :=
  { M with states := M.states.map St.simplifyElse }

/-- No symbol is listed by two transitions of the state (what makes the table a *deterministic*
    automaton; decidable, evaluated on every exported machine). -/
def armsDisjoint : List Arm → Bool
  | [] => true
  | a :: r => r.all (fun b => a.on.all (fun v => !b.on.contains v)) && armsDisjoint r

def Machine.deterministic (M : Machine) : Bool :=
  M.states.all fun s => armsDisjoint s.arms

/-! ### Structural equality (the Python side sends two exports; the mirror of the pass applied to
    the first has to *be* the second) -/

mutual
  def Act.beq : Act → Act → Bool
    | .finish a, .finish b => a == b
    | .yield a, .yield b => a == b
    | .hook a, .hook b => a == b
    | .append o1 x1, .append o2 x2 => o1 == o2 && x1 == x2
    | .appendC o1 x1 e1 v1, .appendC o2 x2 e2 v2 => o1 == o2 && x1 == x2 && e1 == e2 && decide (v1 = v2)
    | .set x1 v1, .set x2 v2 => x1 == x2 && decide (v1 = v2)
    | .setStr x1 b1, .setStr x2 b2 => x1 == x2 && b1 == b2
    | .delete x1, .delete x2 => x1 == x2
    | .brk e1 a1, .brk e2 a2 => e1 == e2 && a1.beq a2
    | .cond b1, .cond b2 => b1.beq b2
    | _, _ => false
  def Acts.beq : Acts → Acts → Bool
    | .nil, .nil => true
    | .cons a r, .cons b s => a.beq b && r.beq s
    | _, _ => false
  def Branches.beq : Branches → Branches → Bool
    | .nil, .nil => true
    | .cons c a r, .cons d b s => decide (c = d) && a.beq b && r.beq s
    | _, _ => false
end

def Arm.beq (a b : Arm) : Bool :=
  a.on == b.on && decide (a.cond = b.cond) && a.target == b.target && a.fall == b.fall &&
  a.err == b.err && a.acts.beq b.acts

def listBeq {α : Type} (f : α → α → Bool) : List α → List α → Bool
  | [], [] => true
  | a :: r, b :: s => f a b && listBeq f r s
  | _, _ => false

def St.beq (s t : St) : Bool :=
  decide (s.kind = t.kind) && s.accepting == t.accepting && listBeq Arm.beq s.arms t.arms

/-- first index at which two state tables differ (for the report) -/
def Machine.firstDiff (M N : Machine) : Option Nat :=
  (List.range (max M.states.size N.states.size)).find? fun i =>
    !(decide (i < M.states.size) && decide (i < N.states.size) && (M.st i).beq (N.st i))

def Machine.sameTable (M N : Machine) : Bool :=
  M.states.size == N.states.size && M.start == N.start && (M.firstDiff N).isNone &&
  M.startActs.beq N.startActs

/-! ### `_optimize_remove_inaccessible` -/

mutual
  /-- every state index an action list can put into `state->state` (redirects and breaks) -/
  def Act.targets : Act → List Int
    | .append oos _ => [oos]
    | .appendC oos _ _ _ => [oos]
    | .brk e after => e :: after.targets
    | .cond bs => bs.targets
    | _ => []
  def Acts.targets : Acts → List Int
    | .nil => []
    | .cons a r => a.targets ++ r.targets
  def Branches.targets : Branches → List Int
    | .nil => []
    | .cons _ b r => b.targets ++ r.targets
end

/-- what `DFA.dfs` collects from the actions of one transition, in order: the redirect targets of
    every action up to the first top-level `finish` (`ALWAYS_GOTO_UNDEFINED`: nothing more is
    followed) or break (`ALWAYS_GOTO_OTHER`: its targets, then nothing more); the flag says whether
    the nominal target is followed as well -/
def Acts.dfsSuccs : Acts → List Int × Bool
  | .nil => ([], true)
  | .cons (.finish _) _ => ([], false)
  | .cons (.brk e after) _ => (e :: after.targets, false)
  | .cons a r => (a.targets ++ r.dfsSuccs.1, r.dfsSuccs.2)

/-- the successors `DFA.dfs` follows from one transition -/
def Arm.succs (a : Arm) : List Int :=
  if a.acts.dfsSuccs.2 then a.acts.dfsSuccs.1 ++ [a.target] else a.acts.dfsSuccs.1

def St.succs (s : St) : List Int := s.arms.flatMap Arm.succs

def natsOf (M : Machine) (l : List Int) : List Nat :=
  (l.filter fun t => decide (0 ≤ t) && decide (t.toNat < M.states.size)).map Int.toNat

/-- states reachable from the roots, as a membership vector (worklist search; `fuel` = number of
    states bounds the number of productive rounds) -/
def Machine.reachFrom (M : Machine) : Nat → List Nat → Array Bool → Array Bool
  | 0, _, seen => seen
  | _, [], seen => seen
  | fuel + 1, work, seen => Id.run do
    let mut seen := seen
    let mut next : List Nat := []
    for s in work do
      if !(seen.getD s true) then
        seen := seen.setIfInBounds s true
        next := natsOf M (M.st s).succs ++ next
    return M.reachFrom fuel next seen

def Machine.reachable (M : Machine) : Array Bool :=
  M.reachFrom (M.states.size + 1) (M.start :: natsOf M M.startActs.targets)
    (Array.replicate M.states.size false)

def keptB (keep : Array Bool) (i : Nat) : Bool := keep.getD i false

/-- new index of a kept state: the number of kept states before it -/
def rank (keep : Array Bool) (i : Nat) : Nat := ((List.range i).filter (keptB keep)).length

/-- new index of every old state: its rank among the kept ones, -1 for a removed one -/
def renumber (keep : Array Bool) (n : Nat) : Array Int :=
  ((List.range n).map fun i => if keptB keep i then (rank keep i : Int) else -1).toArray

def renT (ren : Array Int) (t : Int) : Int :=
  if t < 0 then -1 else ren.getD t.toNat (-1)

mutual
  def Act.rename (ren : Array Int) : Act → Act
    | .append oos o => .append (renT ren oos) o
    | .appendC oos o e v => .appendC (renT ren oos) o e v
    | .brk e after => .brk (renT ren e) (after.rename ren)
    | .cond bs => .cond (bs.rename ren)
    | a => a
  def Acts.rename (ren : Array Int) : Acts → Acts
    | .nil => .nil
    | .cons a r => .cons (a.rename ren) (r.rename ren)
  def Branches.rename (ren : Array Int) : Branches → Branches
    | .nil => .nil
    | .cons c b r => .cons c (b.rename ren) (r.rename ren)
end

def Arm.rename (ren : Array Int) (a : Arm) : Arm :=
  { a with target := renT ren a.target, acts := a.acts.rename ren }

def St.rename (ren : Array Int) (s : St) : St := { s with arms := s.arms.map (Arm.rename ren) }

def Machine.removeStates (M : Machine) (keep : Array Bool) : Machine :=
  let ren := renumber keep M.states.size
  let kept := (List.range M.states.size).filter (keptB keep)
  { M with states := (kept.map fun i => (M.st i).rename ren).toArray,
           start := (renT ren M.start).toNat,
           startActs := M.startActs.rename ren }

/-- the action list ends the parse (an unconditional top-level `finish`) before anything that looks at where the
    transition leads: only hooks, appends, assignments and deletes come before it -/
def Acts.finishFirst : Acts → Bool
  | .nil => false
  | .cons (.finish _) _ => true
  | .cons (.hook _) r => r.finishFirst
  | .cons (.append _ _) r => r.finishFirst
  | .cons (.appendC _ _ _ _) r => r.finishFirst
  | .cons (.set _ _) r => r.finishFirst
  | .cons (.setStr _ _) r => r.finishFirst
  | .cons (.delete _) r => r.finishFirst
  | .cons _ _ => false

/-- a state reference the renumbering handles: "no state" (negative) or a kept state of the table -/
def goodB (M : Machine) (keep : Array Bool) (t : Int) : Bool :=
  decide (t < 0) || (decide (t.toNat < M.states.size) && keep.getD t.toNat false)

/-- every state reference of every kept state (transition targets, out-of-space redirects, loop ends of breaks)
    is "none" or a kept state of the table — except the nominal target of a transition that finishes first
    (`finishFirst`, no yield): `DFA.dfs` does not follow it and nothing looks at it; the hypothesis of
    `C05_remove_states_preserves`, decidable -/
def Machine.closedUnder (M : Machine) (keep : Array Bool) : Bool :=
  (List.range M.states.size).all fun i =>
    !keep.getD i false || (M.st i).arms.all fun a =>
      (goodB M keep a.target || (a.acts.finishFirst && !a.acts.mayYield)) && a.acts.targets.all (goodB M keep)

def Machine.removeInaccessible (M : Machine) : Machine := M.removeStates M.reachable

end Nmfu
