/-
  Regular expressions over the 257 symbols (bytes 0..255 and end-of-input = 256) with Brzozowski
  derivatives.  Classes are explicit symbol lists.  `alive` decides whether the language is
  non-empty, `nullable` whether it contains the empty word.
-/
namespace Nmfu

inductive Rx where
  | empty                       -- ∅
  | eps                         -- ε
  | cls (s : List Nat)          -- one symbol from the list
  | seq (a b : Rx)
  | alt (a b : Rx)
  | star (a : Rx)
  deriving DecidableEq, Repr, Hashable, Inhabited

namespace Rx

def nullable : Rx → Bool
  | empty => false
  | eps => true
  | cls _ => false
  | seq a b => a.nullable && b.nullable
  | alt a b => a.nullable || b.nullable
  | star _ => true

/-- smart constructors: keep derivatives small (∅ and ε absorbed, `alt` idempotent) -/
def mkSeq (a b : Rx) : Rx :=
  match a, b with
  | empty, _ => empty
  | _, empty => empty
  | eps, b => b
  | a, eps => a
  | a, b => seq a b

/-- the alternatives of a (nested) alternation -/
def alts : Rx → List Rx
  | alt a b => alts a ++ alts b
  | empty => []
  | r => [r]

/-- rebuild an alternation from its alternatives -/
def ofAlts : List Rx → Rx
  | [] => empty
  | [r] => r
  | r :: rest => alt r (ofAlts rest)

/-- alternation up to associativity, ∅ and duplicates (keeps the set of derivatives finite) -/
def mkAlt (a b : Rx) : Rx := ofAlts (alts a ++ alts b).eraseDups

def deriv (x : Nat) : Rx → Rx
  | empty => empty
  | eps => empty
  | cls s => if s.contains x then eps else empty
  | seq a b => if a.nullable then mkAlt (mkSeq (a.deriv x) b) (b.deriv x) else mkSeq (a.deriv x) b
  | alt a b => mkAlt (a.deriv x) (b.deriv x)
  | star a => mkSeq (a.deriv x) (star a)

/-- The language is non-empty. -/
def alive : Rx → Bool
  | empty => false
  | eps => true
  | cls s => !s.isEmpty
  | seq a b => a.alive && b.alive
  | alt a b => a.alive || b.alive
  | star _ => true

/-- Some symbol (a byte or end-of-input) continues the match. -/
def canContinue (r : Rx) : Bool := (List.range 257).any fun x => (r.deriv x).alive

def derivs (r : Rx) (w : List Nat) : Rx := w.foldl (fun r x => r.deriv x) r

/-- `w` is in the language. -/
def accepts (r : Rx) (w : List Nat) : Bool := (r.derivs w).nullable

end Rx
end Nmfu
