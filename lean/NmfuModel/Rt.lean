/-
  Concrete execution of a compiled machine as the emitted C performs it: typed outputs, string
  buffers with capacity and allocation state, the chunk cursor, hooks, result codes.

  The control structure is *not* written again here: `feed`/`end` run the same call-level trees
  (`Machine.call`) that the symbolic semantics uses, answering each question from the store and
  applying each event to it.  What this file adds is the data (mirror of
  `_generate_action_implementation`, `_generate_start_implementation`,
  `_generate_free_implementation`) and the cursor protocol of `_generate_feed_implementation`.
-/
import NmfuModel.Mach
namespace Nmfu

inductive Alloc where
  | inStruct | heap | null | freed
  deriving DecidableEq, Repr, Inhabited

structure StrBuf where
  bytes : Array (Option Nat) := #[]
  counter : Nat := 0
  alloc : Alloc := .inStruct
  deriving Repr, Inhabited

structure RtOpts where
  strictDone : Bool := false
  dynamic : Bool := false
  onDemand : Bool := false
  deleteFrees : Bool := false
  u8 : Bool := false
  unsafeIdx : Bool := false
  indirect : Bool := false
  zeroLen : Bool := false
  packed : Bool := false
  /-- the parser has an `end()` function (EOF support) -/
  eof : Bool := false
  deriving Repr, Inhabited

structure HookCall where
  name : String
  arg : Nat
  deriving Repr

structure CState where
  state : Int := 0
  scalars : Array Int := #[]
  strs : Array StrBuf := #[]
  /-- first memory fault or undefined behaviour met, if any -/
  fault : Option String := none
  /-- a memory fault was met: write through NULL / freed, out-of-range write, double free -/
  memFault : Bool := false
  /-- output of the run so far, one entry per observable event -/
  log : Array String := #[]
  deriving Repr, Inhabited

def OutTy.cty (u8 : Bool) (packed : Bool) : OutTy → CTy
  | .bool => CTy.bool
  | .int s b => ⟨s, b⟩
  | .enum _ => if packed then CTy.u8 else CTy.u32
  | .str _ _ => if u8 then CTy.u8 else CTy.i8
  | .raw _ => CTy.u8

def OutTy.isBuf : OutTy → Bool
  | .str _ _ => true
  | .raw _ => true
  | _ => false

/-- declared size (`str_size` / `sizeof`) -/
def OutTy.size : OutTy → Nat
  | .str n _ => n
  | .raw n => n
  | _ => 0

/-- number of bytes that may be stored (`effective_string_size`) -/
def OutTy.cap : OutTy → Nat
  | .str n true => n - 1
  | .str n false => n
  | .raw n => n
  | _ => 0

def OutTy.nullTerm : OutTy → Bool
  | .str _ t => t
  | _ => false

def counterTy (t : OutTy) : CTy :=
  let m := match t with
    | .str n _ => n
    | .raw n => n
    | _ => 0
  if m < 256 then ⟨false, 8⟩ else if m < 65536 then ⟨false, 16⟩ else CTy.u32

structure RtCtx where
  M : Machine
  ro : RtOpts

def RtCtx.ty (c : RtCtx) (i : Nat) : OutTy := (c.M.outs.getD i default).ty
def RtCtx.isDyn (c : RtCtx) (i : Nat) : Bool :=
  c.ro.dynamic && (match c.ty i with | .str _ _ => true | _ => false)
def RtCtx.hasDefault (c : RtCtx) (i : Nat) : Bool :=
  let d := c.M.outs.getD i default
  d.defInt.isSome || d.defStr.isSome

def CState.addFault (σ : CState) (m : String) : CState :=
  if σ.fault.isSome then σ else { σ with fault := some m, log := σ.log.push ("fault " ++ m) }

def CState.addMemFault (σ : CState) (m : String) : CState :=
  { σ.addFault m with memFault := true }

def CState.str (σ : CState) (i : Nat) : StrBuf := σ.strs.getD i default
def CState.setStr (σ : CState) (i : Nat) (b : StrBuf) : CState := { σ with strs := σ.strs.setIfInBounds i b }

def RtCtx.env (c : RtCtx) (σ : CState) (inval : Nat) : Env where
  outVal := fun i => ⟨(c.ty i).cty c.ro.u8 c.ro.packed, σ.scalars.getD i 0⟩
  lenVal := fun i => ⟨counterTy (c.ty i), (σ.str i).counter⟩
  size := fun i => (c.ty i).size
  byteAt := fun i k =>
    let b := σ.str i
    match b.alloc with
    | .null =>
      -- on-demand mode: the bounds-checked index tests the pointer first and reads 0
      if c.ro.onDemand && c.isDyn i && !c.ro.unsafeIdx then some ⟨CTy.u8, 0⟩ else none
    | .freed => none
    | _ =>
      match b.bytes.getD k none with
      | none => none
      | some v => some ⟨CTy.u8, v % 256⟩  -- an indexed byte is read as an unsigned byte
  last := ⟨CTy.u8, inval⟩
  unsafeIdx := c.ro.unsafeIdx

def hex2 (n : Nat) : String :=
  let d := "0123456789abcdef".toList.toArray
  String.ofList [d.getD (n / 16 % 16) '0', d.getD (n % 16) '0']

def fmtInt (t : CTy) (v : Int) : String := if t.bits = 1 then toString v else toString (t.wrap v)

/-- The dump of all outputs, in the format of the C driver. -/
def RtCtx.dump (c : RtCtx) (σ : CState) : String :=
  let parts := (List.range c.M.outs.size).map fun i =>
    let d := c.M.outs.getD i default
    match d.ty with
    | .str _ nt =>
      let b := σ.str i
      let body := String.join ((List.range b.counter).map fun k =>
        match b.bytes.getD k none with
        | some v => hex2 v
        | none => "??")
      let term :=
        if !nt then "-"
        else if b.alloc == .null || b.alloc == .freed then "N"
        else match b.bytes.getD b.counter none with
          | some 0 => "z"
          | some _ => "n"
          | none => "?"
      s!"{d.name}={b.counter}:{body}:{term}"
    | .raw _ =>
      let b := σ.str i
      let body := String.join ((List.range b.counter).map fun k =>
        match b.bytes.getD k none with
        | some v => hex2 v
        | none => "??")
      s!"{d.name}={b.counter}:{body}:-"
    | t => s!"{d.name}={fmtInt (t.cty c.ro.u8 c.ro.packed) (σ.scalars.getD i 0)}"
  " ".intercalate parts

/-- The guard `if (!p) p = malloc(size)` is emitted in front of writes to output `i`. -/
def RtCtx.realloc (c : RtCtx) (i : Nat) : Bool :=
  c.ro.onDemand && (!(c.hasDefault i) || c.ro.deleteFrees) && c.isDyn i

/-- `if (!p) p = malloc(size)` of the on-demand mode. -/
def RtCtx.onDemandAlloc (c : RtCtx) (σ : CState) (i : Nat) : CState :=
  if c.realloc i then
    let b := σ.str i
    if b.alloc == .null then
      σ.setStr i { b with alloc := .heap, bytes := Array.replicate (c.ty i).size none }
    else σ
  else σ

/-- Allocation in front of a string assignment: the usual guard, in `start()` as well (the pointer
    of an on-demand string without default has been set to NULL before the start actions run). -/
def RtCtx.setStrAlloc (c : RtCtx) (σ : CState) (_isStart : Bool) (i : Nat) : CState :=
  c.onDemandAlloc σ i

def StrBuf.writable (b : StrBuf) : Bool := b.alloc == .inStruct || b.alloc == .heap

def RtCtx.writeByte (c : RtCtx) (σ : CState) (i k v : Nat) : CState :=
  let b := σ.str i
  if !b.writable then σ.addMemFault s!"write through {repr b.alloc} pointer of {(c.M.outs.getD i default).name}"
  else if k ≥ b.bytes.size then σ.addMemFault s!"write past the end of {(c.M.outs.getD i default).name}"
  else σ.setStr i { b with bytes := b.bytes.setIfInBounds k (some (v % 256)) }

/-- Apply one action event to the store.  Events carry the byte they observed (`substLast`), so
    the store after a run is a function of the events alone. -/
def RtCtx.apply (c : RtCtx) (σ : CState) (isStart : Bool) : AEv → CState
  | .hook n arg =>
      { σ with log := σ.log.push s!"hook {n} {if isStart then 0 else arg.getD 0} | {c.dump σ}" }
  | .set i e =>
      match eval (c.env σ 0) e with
      | none => σ.addFault "undefined behaviour in expression"
      | some v => { σ with scalars := σ.scalars.setIfInBounds i (((c.ty i).cty c.ro.u8 c.ro.packed).wrap v.v) }
  | .append i byte =>
      let σ := c.onDemandAlloc σ i
      let b := σ.str i
      let σ := c.writeByte σ i b.counter (byte.getD 0)
      let σ := σ.setStr i { σ.str i with counter := b.counter + 1 }
      if (c.ty i).nullTerm then c.writeByte σ i (b.counter + 1) 0 else σ
  | .appendC i e =>
      let σ := c.onDemandAlloc σ i
      match eval (c.env σ 0) e with
      | none => σ.addFault "undefined behaviour in expression"
      | some v =>
        let b := σ.str i
        let σ := c.writeByte σ i b.counter ((CTy.u8.wrap v.v).toNat)
        let σ := σ.setStr i { σ.str i with counter := b.counter + 1 }
        if (c.ty i).nullTerm then c.writeByte σ i (b.counter + 1) 0 else σ
  | .setStr i bs =>
      let σ := c.setStrAlloc σ isStart i
      let n := bs.length
      let σ := (List.range n).foldl (fun σ k => c.writeByte σ i k (bs.getD k 0)) σ
      let σ := if (c.ty i).nullTerm then c.writeByte σ i n 0 else σ
      σ.setStr i { σ.str i with counter := n }
  | .delete i =>
      if c.ro.onDemand && c.ro.deleteFrees && !isStart && c.isDyn i then
        let b := σ.str i
        let σ := if b.alloc == .freed then σ.addMemFault "double free" else σ
        σ.setStr i { b with alloc := .null, bytes := #[], counter := 0 }
      else
        -- `if (s) s[0] = 0;` in on-demand mode, `s[0] = 0;` otherwise
        let skip := c.ro.onDemand && c.isDyn i && (σ.str i).alloc == .null
        let σ := if (c.ty i).nullTerm && !skip then c.writeByte σ i 0 0 else σ
        σ.setStr i { σ.str i with counter := 0 }
  | .brk => σ
  | .ret _ => σ
  | .yield _ => σ
  | .opt _ => σ
  | .raised => σ

def RtCtx.answer (c : RtCtx) (σ : CState) : Quest → Option Bool
  | .cond e =>
      match eval (c.env σ 0) e with
      | none => none
      | some v => some (v.v ≠ 0)
  | .full i => some ((σ.str i).counter == (c.ty i).cap)

/-- Effect of any event, answered questions included: the out-of-space test itself changes nothing
    (the on-demand allocation happens in the not-full branch, with the write), a condition whose
    evaluation is undefined is recorded as a fault. -/
def RtCtx.applyEv (c : RtCtx) (isStart : Bool) (σ : CState) : MEv → CState
  | .act a => c.apply σ isStart a
  | .asked (.full _) _ => σ
  | .asked (.cond e) _ =>
      match c.answer σ (.cond e) with
      | none => σ.addFault "undefined behaviour in condition"
      | some _ => σ

/-- Run a call-level tree on the store. -/
def RtCtx.runTree (c : RtCtx) (isStart : Bool) : CTree → CState → CState × MLeaf
  | .emit a k, σ => c.runTree isStart k (c.applyEv isStart σ (.act a))
  | .ask q kt kf, σ =>
      if c.answer σ q == some true then c.runTree isStart kt (c.applyEv isStart σ (.asked q true))
      else c.runTree isStart kf (c.applyEv isStart σ (.asked q false))
  | .leaf l, σ => (σ, l)

def RtCtx.semOpts (c : RtCtx) : SemOpts := { strictDone := c.ro.strictDone, substLast := true, canonEmptyStr := false }

def RtCtx.needsEndCheck (c : RtCtx) : Bool :=
  c.ro.zeroLen || c.M.states.any fun s => s.arms.any fun a => a.acts.mayYield

/-- `feed` on `chunk` starting at position `pos`.  Returns the code and the new position (the
    observable `*start` of the indirect mode).  Structural recursion on the bytes left. -/
def RtCtx.feedFrom (c : RtCtx) : Nat → CState → List Nat → Nat → CState × String × Nat
  | 0, σ, _, pos => (σ.addFault "feed ran out of fuel", "SPIN", pos)
  | fuel + 1, σ, rest, pos =>
    match rest with
    | [] => (σ.addFault "read past the end of the chunk", "OK", pos)
    | b :: _ =>
      let (σ', l) := c.runTree false (c.M.call c.semOpts σ.state b) σ
      match l with
      | .next s adv =>
        let σ' := { σ' with state := s }
        let rest'' := rest.drop adv
        if rest''.isEmpty then
          (if adv > rest.length then σ'.addFault "cursor moved past the end of the chunk" else σ', "OK", pos + adv)
        else c.feedFrom fuel σ' rest'' (pos + adv)
      | .ret code st adv => ({ σ' with state := st }, code, pos + adv)
      | .yielded code st adv => ({ σ' with state := st }, "YIELD_" ++ code, pos + adv)

/-- What the first line of `feed` answers for an empty chunk (mirror of the prologue emitted by
    `_generate_feed_implementation`): FAIL in the generic fail state; when that state is not in the
    table and the parser has an `end()`, FAIL in the index just past the table, where a failing
    `end()` leaves the state (`Machine.failTarget`). -/
def RtCtx.emptyFails (c : RtCtx) (s : Int) : Bool :=
  c.M.isFailState s || (c.M.failIdx.isNone && c.ro.eof && s == (c.M.states.size : Int))

def RtCtx.feed (c : RtCtx) (σ : CState) (chunk : List Nat) (pos : Nat) : CState × String × Nat :=
  let rest := chunk.drop pos
  -- an empty chunk changes nothing: OK — except that a parser that has failed keeps saying so
  if c.needsEndCheck && rest.isEmpty then (σ, if c.emptyFails σ.state then "FAIL" else "OK", pos)
  else c.feedFrom (rest.length + 2) σ rest pos

def RtCtx.endCall (c : RtCtx) (σ : CState) : CState × String :=
  let (σ', l) := c.runTree false (c.M.call c.semOpts σ.state symEnd) σ
  match l with
  | .next s _ => ({ σ' with state := s }, "WEIRD")
  | .ret code st _ => ({ σ' with state := st }, code)
  | .yielded code st _ => ({ σ' with state := st }, "YIELD_" ++ code)

/-- Where `start()` puts the buffer of output `i` (before any default is copied into it). -/
def RtCtx.baseBuf (c : RtCtx) (σ0 : CState) (i : Nat) : StrBuf :=
  let d := c.M.outs.getD i default
  let old := σ0.strs.getD i default
  if c.isDyn i then
    (if d.defStr.isSome then { bytes := Array.replicate d.ty.size none, counter := 0, alloc := .heap }
     else if c.ro.onDemand then { bytes := #[], counter := 0, alloc := .null }
     else { bytes := Array.replicate d.ty.size none, counter := 0, alloc := .heap })
  else { bytes := (if old.bytes.size = d.ty.size then old.bytes else Array.replicate d.ty.size none),
         counter := 0, alloc := .inStruct }

/-- The buffer of output `i` as `start()` leaves it before the start actions run. -/
def RtCtx.initBuf (c : RtCtx) (σ0 : CState) (i : Nat) : StrBuf :=
  let d := c.M.outs.getD i default
  if !d.ty.isBuf then default
  else
    let base := c.baseBuf σ0 i
    match d.defStr with
    | none =>
      -- `s[0] = 0;` for a terminated string without default (not in on-demand mode: no buffer yet)
      if d.ty.nullTerm && base.alloc != .null then { base with bytes := base.bytes.setIfInBounds 0 (some 0) } else base
    | some bs =>
      let bytes := (List.range bs.length).foldl (fun a k => a.setIfInBounds k (some (bs.getD k 0))) base.bytes
      let bytes := if d.ty.nullTerm then bytes.setIfInBounds bs.length (some 0) else bytes
      { base with bytes := bytes, counter := bs.length }

/-- The store after the declarations' defaults have been applied. -/
def RtCtx.initStore (c : RtCtx) (σ0 : CState) : CState :=
  let n := c.M.outs.size
  { σ0 with
    scalars := Array.ofFn (n := n) fun i =>
      let d := c.M.outs.getD i default
      match d.defInt with
      | some v => (d.ty.cty c.ro.u8 c.ro.packed).wrap v
      | none => σ0.scalars.getD i 0,
    strs := Array.ofFn (n := n) fun i => c.initBuf σ0 i,
    state := c.M.start }

/-- The start actions as `start()` runs them (a redirect or a yield ends `start()` with OK). -/
def RtCtx.startTree (c : RtCtx) : CTree :=
  let ctx : ArmCtx := { o := c.semOpts, x := 0, adv := 0, advBase := 0,
                        redispatch := fun st adv => .leaf (.ret "OK" st adv),
                        oosConst := fun st => .leaf (.ret "OK" st 0) }
  c.M.startActs.tree ctx c.M.start (fun st => .leaf (.ret "OK" st 0)) (fun st => .leaf (.ret "OK" st 0))

/-- `start()`. -/
def RtCtx.start (c : RtCtx) (σ0 : CState) : CState × String :=
  let (σ', l) := c.runTree true c.startTree (c.initStore σ0)
  match l with
  | .ret code st _ => ({ σ' with state := st }, code)
  | .yielded code st _ => ({ σ' with state := st }, "YIELD_" ++ code)
  | .next st _ => ({ σ' with state := st }, "OK")

/-- `free()`. -/
def RtCtx.free (c : RtCtx) (σ : CState) : CState :=
  if !c.ro.dynamic then σ
  else (List.range c.M.outs.size).foldl (fun σ i =>
    if c.isDyn i then
      let b := σ.str i
      let σ := if b.alloc == .freed then σ.addFault "double free" else σ
      σ.setStr i { b with alloc := .null, bytes := #[], counter := 0 }
    else σ) σ

end Nmfu

namespace Nmfu

/-! ### List-level view of `feed` (used by the chunk-independence theorems) -/

inductive FeedRes where
  /-- every byte of the chunk was consumed: `feed` returns OK with the cursor at the end -/
  | exhausted (σ : CState) (pos : Nat)
  /-- `feed` returned from the middle: a terminal code, a yield code, or OK without progress -/
  | returned (σ : CState) (code : String) (pos : Nat)
  deriving Inhabited

/-- `feed` as a fold over the bytes of the chunk: one call-level dispatch per byte. -/
def RtCtx.feedL (c : RtCtx) : CState → List Nat → Nat → FeedRes
  | σ, [], pos => .exhausted σ pos
  | σ, b :: rest, pos =>
    let r := c.runTree false (c.M.call c.semOpts σ.state b) σ
    match r.2 with
    | .next s _ => c.feedL { r.1 with state := s } rest (pos + 1)
    | .ret code st adv => .returned { r.1 with state := st } code (pos + min adv 1)
    | .yielded code st adv => .returned { r.1 with state := st } ("YIELD_" ++ code) (pos + min adv 1)

def isYield (code : String) : Bool := code.startsWith "YIELD_"

def CState.note (σ : CState) (s : String) : CState := { σ with log := σ.log.push s }

structure Sess where
  σ : CState
  /-- stopped at a returned code that is not a yield (terminal code, or out of yield fuel) -/
  stopped : Bool
  /-- yield re-invocations still allowed -/
  fuel : Nat
  deriving Inhabited

/-- A whole session on one contiguous input: call `feed`, re-invoke from the reported cursor after
    every yield code (each re-invocation spends one unit of `fuel`), stop at any other returned
    code.  The log records every returned code with its absolute offset.  `off` is the absolute
    offset of the first byte of `input`. -/
def RtCtx.runAll (c : RtCtx) : Nat → CState → List Nat → Nat → Sess
  | 0, σ, input, off =>
    match c.feedL σ input off with
    | .exhausted σ' _ => ⟨σ', false, 0⟩
    | .returned σ' code pos =>
      let σ'' := σ'.note s!"{code}@{pos}"
      if isYield code then ⟨σ''.note "yield-fuel", true, 0⟩ else ⟨σ'', true, 0⟩
  | fuel + 1, σ, input, off =>
    match c.feedL σ input off with
    | .exhausted σ' _ => ⟨σ', false, fuel + 1⟩
    | .returned σ' code pos =>
      let σ'' := σ'.note s!"{code}@{pos}"
      if isYield code then c.runAll fuel σ'' (input.drop (pos - off)) pos
      else ⟨σ'', true, fuel + 1⟩

/-- The same session when the input arrives in chunks: each chunk is fed (with re-invocation
    after yields) and the next chunk follows when the previous one is exhausted. -/
def RtCtx.runChunks (c : RtCtx) : Nat → CState → List (List Nat) → Nat → Sess
  | fuel, σ, [], _ => ⟨σ, false, fuel⟩
  | fuel, σ, ch :: rest, off =>
    let r := c.runAll fuel σ ch off
    if r.stopped then r else c.runChunks r.fuel r.σ rest (off + ch.length)

/-- Structural facts the emitted code relies on, decidable per machine: every consuming leaf
    advances the cursor exactly once, and no state returns OK without consuming. -/
def Machine.leavesOK (M : Machine) (o : SemOpts) : Bool :=
  (List.range M.states.size).all fun s =>
    (List.range nSym).all fun x =>
      (M.call o s x).paths.all fun p =>
        match p.2 with
        | .next st adv => adv == 1 && st ≥ 0
        | .ret code _ adv => code != "OK" && adv ≤ 1
        | .yielded _ _ adv => adv ≤ 1

end Nmfu

namespace Nmfu

/-- Decidable per-machine check for C17: the arm `end()` takes in a normal state lists
    end-of-input explicitly, or is a fall-through, or is error handling (the consuming else arm of
    a `wait`, which may carry the actions pending before the wait).  A consuming arm that belongs
    to a data pattern — a literal, a set, a wildcard or an inverted set, whose else arm is not
    error handling — is never taken on end-of-input. -/
def Machine.endArmsOK (M : Machine) : Bool :=
  M.states.all fun s =>
    s.kind != .normal ||
    match s.endArm with
    | none => true
    | some a => a.on.contains symEnd || a.fall || a.err

end Nmfu

namespace Nmfu

/-- Decidable check on a call-level tree: every append is the not-full branch of the out-of-space
    test of its own output, and every string constant fits its output. -/
def guardedB (c : RtCtx) : CTree → Bool
  | .ask (.full i) kt (.emit (.append j _) k) => i == j && guardedB c kt && guardedB c k
  | .ask (.full i) kt (.emit (.appendC j _) k) => i == j && guardedB c kt && guardedB c k
  | .ask _ kt kf => guardedB c kt && guardedB c kf
  | .emit (.append _ _) _ => false
  | .emit (.appendC _ _) _ => false
  | .emit (.setStr i bs) k => decide (bs.length ≤ (c.ty i).cap) && guardedB c k
  | .emit _ k => guardedB c k
  | .leaf _ => true

/-- Per-machine check used by C03: sizes leave room for the terminator, defaults fit, every
    call tree (all states, all symbols) and the start actions are guarded. -/
def RtCtx.safeCheck (c : RtCtx) : Bool :=
  ((List.range c.M.outs.size).all fun i =>
    let d := c.M.outs.getD i default
    decide (d.ty.cap ≤ d.ty.size) && (!d.ty.nullTerm || decide (d.ty.cap < d.ty.size)) &&
    (match d.defStr with | some bs => decide (bs.length ≤ d.ty.cap) | none => true) &&
    (!d.ty.isBuf || d.defInt.isNone)) &&
  ((List.range c.M.states.size).all fun s =>
    (List.range nSym).all fun x => guardedB c (c.M.call c.semOpts s x)) &&
  guardedB c c.startTree

end Nmfu

namespace Nmfu

/-- No expression of the tree reads a buffer byte by index. -/
def treeIdxFree : CTree → Bool
  | .emit (.set _ e) k => e.idxFree && treeIdxFree k
  | .emit (.appendC _ e) k => e.idxFree && treeIdxFree k
  | .emit _ k => treeIdxFree k
  | .ask (.cond e) kt kf => e.idxFree && treeIdxFree kt && treeIdxFree kf
  | .ask _ kt kf => treeIdxFree kt && treeIdxFree kf
  | .leaf _ => true

/-- Per-machine check used by C12: no call tree and no start action indexes into a buffer (an
    index at or beyond the current length reads bytes whose value depends on where the buffer
    lives and what was stored there before; below the length it does not, but the check does not
    try to tell). -/
def RtCtx.idxFreeCheck (c : RtCtx) : Bool :=
  ((List.range c.M.states.size).all fun s =>
    (List.range nSym).all fun x => treeIdxFree (c.M.call c.semOpts s x)) &&
  treeIdxFree c.startTree

end Nmfu

namespace Nmfu

/-- Per-machine check for C10: every FAIL that `end()` can report leaves the state struct in the
    generic fail state (or outside the table, which `feed` and `end` answer with FAIL as well). -/
def Machine.endFailOK (M : Machine) (o : SemOpts) : Bool :=
  (List.range M.states.size).all fun s =>
    (M.call o s symEnd).paths.all fun p =>
      match p.2 with
      | .ret code st _ => code != "FAIL" || decide (st < 0) || decide (st.toNat ≥ M.states.size) || (M.st st.toNat).kind == .fail
      | _ => true

/-- Sharper per-machine check: every FAIL that `end()` can report from a state of the table leaves
    exactly `failTarget` behind — the index the prologue of `feed` tests for an empty chunk. -/
def Machine.endFailExact (M : Machine) (o : SemOpts) : Bool :=
  (List.range M.states.size).all fun s =>
    (M.call o s symEnd).paths.all fun p =>
      match p.2 with
      | .ret code st _ => code != "FAIL" || st == M.failTarget
      | _ => true

/-- the index names a state of the table -/
def Machine.inTable (M : Machine) (s : Int) : Bool := decide (0 ≤ s) && decide (s.toNat < M.states.size)

/-- Per-machine check behind "FAIL is final" (C10): from every state of the table, on every symbol
    (end-of-input included), a call that reports FAIL leaves exactly `failTarget` behind, and every
    other outcome leaves a state of the table. -/
def Machine.failClosed (M : Machine) (o : SemOpts) : Bool :=
  (List.range M.states.size).all fun s =>
    (List.range nSym).all fun x =>
      (M.call o s x).paths.all fun p =>
        match p.2 with
        | .next st _ => M.inTable st
        | .ret code st _ => if code == "FAIL" then st == M.failTarget else M.inTable st
        | .yielded _ st _ => M.inTable st

/-- no call on a data byte, from any state of the table, reports FAIL -/
def Machine.neverFailsOnBytes (M : Machine) (o : SemOpts) : Bool :=
  (List.range M.states.size).all fun s =>
    (List.range 256).all fun x =>
      (M.call o s x).paths.all fun p =>
        match p.2 with
        | .ret code _ _ => code != "FAIL"
        | _ => true

/-- `start()` leaves a state of the table, whichever way its start-up actions go -/
def RtCtx.startClosed (c : RtCtx) : Bool :=
  c.startTree.paths.all fun p =>
    match p.2 with
    | .next st _ => c.M.inTable st
    | .ret _ st _ => c.M.inTable st
    | .yielded _ st _ => c.M.inTable st

end Nmfu
