import NmfuModel.Parse
import NmfuModel.Explore
import NmfuModel.Rt
import NmfuModel.NoSpin
import NmfuModel.Labels
import NmfuModel.Cli
import NmfuModel.Lit
import NmfuModel.SrcParse
import NmfuModel.EquivF
import NmfuModel.Ambig
import NmfuModel.MacroLookup
import NmfuModel.Opt
import NmfuModel.CondGen
import NmfuModel.Generated.Flags
open Nmfu

def splitBar (s : String) : List String := Id.run do
  let mut acc : Array String := #[]
  let mut cur : String := ""
  for c in s.toList do
    if c = '|' then
      acc := acc.push cur
      cur := ""
    else cur := cur.push c
  acc := acc.push cur
  return acc.toList

def symStr (w : List Nat) : String := " ".intercalate (w.map toString)

def fmtAEv : AEv → String
  | .ret c => s!"ret:{c}"
  | .yield c => s!"yield:{c}"
  | .hook n a => s!"hook:{n}:{a}"
  | .append o b => s!"append:{o}:{b}"
  | .appendC o e => s!"appendc:{o}:{hash e}"
  | .set o e => s!"set:{o}:{hash e}"
  | .setStr o bs => s!"setstr:{o}:{bs}"
  | .delete o => s!"delete:{o}"
  | .brk => "brk"
  | .opt a => "opt(" ++ fmtAEv a ++ ")"
  | .raised => "RAISED"

def fmtEv : MEv → String
  | .act a => fmtAEv a
  | .asked (.cond e) v => s!"ask:cond:{hash e}={v}"
  | .asked (.full o) v => s!"ask:full:{o}={v}"

def fmtLeaf : Leaf Nat → String
  | .next s => s!"next:{s}"
  | .halt => "halt"

def fmtPS (p : PS Nat Nat AEv Quest) : String :=
  s!"a={p.a} b={p.b} aLeads={p.aLeads} lag=[{" ".intercalate (p.lag.map fmtEv)}]"

def fmtPaths (t : MTree) : String :=
  " ; ".intercalate (t.paths.map fun p => (" ".intercalate (p.1.map fmtEv)) ++ " => " ++ fmtLeaf p.2)

def cmdEquiv (args : List String) : String :=
  match args with
  | [sd, sl, lim, ma, mb] =>
    match parseMachine ma, parseMachine mb with
    | .ok A, .ok B =>
      let o : SemOpts := { strictDone := sd = "1", substLast := sl = "1" }
      let smA := A.sm o
      let smB := B.sm o
      let r := explore smA smB nSym lim.toNat!
      match r.mismatch with
      | some (w, p, x) =>
        s!"mismatch word={symStr w} sym={x} {fmtPS p} treeA={fmtPaths (smA.tree p.a x)} treeB={fmtPaths (smB.tree p.b x)}"
      | none =>
        if r.outOfFuel then s!"fuel visited={r.visited.size}"
        else
          let ok := certOK smA smB nSym r.visited.toList
          let lagLast := r.visited.any fun p => p.lag.any fun e =>
            match e with
            | .act (.hook _ _) => true
            | .act (.append _ _) => true
            | .act (.appendC _ e) => e.readsLast
            | .act (.set _ e) => e.readsLast
            | .asked (.cond e) _ => e.readsLast
            | _ => false
          s!"closed visited={r.visited.size} maxlag={r.maxLag} cert={ok} laggedLastReader={lagLast}"
    | .error e, _ => s!"error parseA {e}"
    | _, .error e => s!"error parseB {e}"
  | _ => "error bad-args"

def cmdTree (args : List String) : String :=
  match args with
  | [sd, sl, m, st, x] =>
    match parseMachine m with
    | .ok A =>
      let o : SemOpts := { strictDone := sd = "1", substLast := sl = "1" }
      fmtPaths ((A.sm o).step st.toNat! x.toNat!)
    | .error e => s!"error parse {e}"
  | _ => "error bad-args"

def splitOn (s : String) (sep : Char) : List String := Id.run do
  let mut acc : Array String := #[]
  let mut cur : String := ""
  for c in s.toList do
    if c = sep then
      acc := acc.push cur
      cur := ""
    else cur := cur.push c
  acc := acc.push cur
  return acc.toList

def hexVal (c : Char) : Nat :=
  if '0' ≤ c && c ≤ '9' then c.toNat - '0'.toNat
  else if 'a' ≤ c && c ≤ 'f' then c.toNat - 'a'.toNat + 10
  else if 'A' ≤ c && c ≤ 'F' then c.toNat - 'A'.toNat + 10 else 0

def unhex (s : String) : List Nat :=
  let rec go : List Char → List Nat
    | a :: b :: r => (hexVal a * 16 + hexVal b) :: go r
    | _ => []
  go s.toList

def parseRtOpts (s : String) : RtOpts :=
  let has (c : Char) := s.toList.contains c
  { strictDone := has 's', dynamic := has 'd', onDemand := has 'o', deleteFrees := has 'f',
    u8 := has 'u', unsafeIdx := has 'x', indirect := has 'i', zeroLen := has 'z', packed := has 'p', eof := has 'e' }

def rtOp (c : RtCtx) (σ0 : CState) (σ : CState) (op : String) : CState :=
  match splitOn op ':' with
  | ["start"] =>
    -- the driver refills the struct with 0xAA before every `start`
    let (σ', code) := c.start { σ0 with log := σ.log.push "begin" }
    { σ' with log := σ'.log.push s!"start {code} | {c.dump σ'}" }
  | ["feed", h] =>
    let chunk := unhex h
    let (σ', code, pos) := c.feed σ chunk 0
    let ps := if c.ro.indirect then toString pos else "-"
    { σ' with log := σ'.log.push s!"feed {code} {ps} | {c.dump σ'}" }
  | ["feedy", h] => Id.run do
    let chunk := unhex h
    let mut σ' := σ
    let mut pos := 0
    let mut n := 0
    let mut go := true
    while go do
      let (σ2, code, pos2) := c.feed σ' chunk pos
      σ' := { σ2 with log := σ2.log.push s!"feed {code} {pos2} | {c.dump σ2}" }
      pos := pos2
      n := n + 1
      if !(code.startsWith "YIELD_") || n > 4 * chunk.length + 8 then go := false
    return σ'
  | ["end"] =>
    let (σ', code) := c.endCall σ
    { σ' with log := σ'.log.push s!"end {code} | {c.dump σ'}" }
  | ["free"] =>
    let σ' := c.free σ
    { σ' with log := σ'.log.push "free" }
  | ["force", n] => { σ with state := n.toInt! }
  | ["seti", i, v] => { σ with scalars := σ.scalars.setIfInBounds i.toNat! v.toInt! }
  | ["sets", i, h] =>
    let bs := unhex h
    let b := σ.str i.toNat!
    let bytes := (List.range bs.length).foldl (fun a k => a.setIfInBounds k (some (bs.getD k 0))) b.bytes
    let bytes := if (c.ty i.toNat!).nullTerm then bytes.setIfInBounds bs.length (some 0) else bytes
    σ.setStr i.toNat! { b with bytes := bytes, counter := bs.length }
  | ["dump"] => { σ with log := σ.log.push s!"dump | {c.dump σ}" }
  | _ => { σ with log := σ.log.push s!"badop {op}" }

/-- the state struct as the C driver leaves it before `start`: filled with 0xAA -/
def driverFill (c : RtCtx) : CState :=
  let pat : Int := 0xAAAAAAAAAAAAAAAA
  { scalars := Array.ofFn (n := c.M.outs.size) fun i =>
      match (c.M.outs.getD i default).ty with
      | .bool => 170
      | t => (t.cty c.ro.u8 c.ro.packed).wrap pat,
    strs := Array.ofFn (n := c.M.outs.size) fun i =>
      let t := (c.M.outs.getD i default).ty
      { bytes := Array.replicate t.size none, counter := 0, alloc := .inStruct } }

def cmdRt (args : List String) : String :=
  match args with
  | [opts, m, ops] =>
    match parseMachine m with
    | .ok M =>
      let c : RtCtx := { M := M, ro := parseRtOpts opts }
      let σ0 := driverFill c
      let σ := (splitOn ops ';').foldl (fun σ op => if op = "" then σ else rtOp c σ0 σ op) σ0
      " ## ".intercalate σ.log.toList
    | .error e => s!"error parse {e}"
  | _ => "error bad-args"

/-- run a tree of any leaf type on a concrete store (as `RtCtx.runTree` does for call trees); also the
    last result code it emitted -/
def runOnStore {L : Type} (c : RtCtx) : Tree AEv Quest L → CState → String → CState × L × String
  | .emit a k, σ, code =>
      runOnStore c k (c.applyEv false σ (.act a)) (match a with | .ret cd => cd | _ => code)
  | .ask q kt kf, σ, code =>
      if c.answer σ q == some true then runOnStore c kt (c.applyEv false σ (.asked q true)) code
      else runOnStore c kf (c.applyEv false σ (.asked q false)) code
  | .leaf l, σ, code => (σ, l, code)

def srcRunGo (c : RtCtx) (spec : SM Kont AEv Quest) (K : Kont) (σ : CState) (i : Nat) : List Nat → String
  | [] => s!"alive after {i}"
  | x :: rest =>
    let (σ', l, code) := runOnStore c (spec.step K x) σ "?"
    -- undefined behaviour in the user's own arithmetic: the binary may do anything
    if σ'.fault.isSome then s!"ub at {i}" else
    match l with
    | .next K' => srcRunGo c spec K' σ' (i + 1) rest
    | .halt => s!"halt {code} at {i}"

/-- `srcrun opts prog machine word`: the reference semantics executed on a concrete word, on the store
    the machine's declarations define: at which symbol (0-based) it halts and with what code. -/
def cmdSrcRun (args : List String) : String :=
  match args with
  | [opts, ps, ms, w] =>
    match parseProg ps, parseMachine ms with
    | .ok p, .ok M =>
      let c : RtCtx := { M := M, ro := parseRtOpts opts }
      let o : SemOpts := { strictDone := false, substLast := true }
      let spec := Src.sm p o
      let word : List Nat := (splitOn w ' ').filterMap fun t => if t == "" then none else some t.toNat!
      srcRunGo c spec spec.start (c.initStore (driverFill c)) 0 word
    | .error e, _ => s!"error parseProg {e}"
    | _, .error e => s!"error parseMachine {e}"
  | _ => "error bad-args"

def cmdWf (args : List String) : String :=
  match args with
  | [opts, m] =>
    match parseMachine m with
    | .ok M =>
      let c : RtCtx := { M := M, ro := parseRtOpts opts }
      s!"leavesOK={M.leavesOK c.semOpts} endArmsOK={M.endArmsOK} safeCheck={c.safeCheck} noSpin={c.noSpinCheck} yieldProgress={M.yieldProgressCheck c.semOpts} idxFree={c.idxFreeCheck} endFailOK={M.endFailOK c.semOpts} endFailExact={M.endFailExact c.semOpts} failClosed={M.failClosed c.semOpts} startClosed={c.startClosed} emptyFailsTarget={c.emptyFails M.failTarget} hasFailState={M.failIdx.isSome} neverFailsOnBytes={M.neverFailsOnBytes c.semOpts} states={M.states.size}"
    | .error e => s!"error parse {e}"
  | _ => "error bad-args"

/-- `optpass|<simplify|remove>|<machine before>|<machine after>`: is the machine after the real pass
    the mirror of the pass applied to the machine before?  (`det`: hypothesis of the preservation
    theorem; `closed`: hypothesis of the removal theorem, for the kept set the mirror computed.) -/
def cmdOptPass (args : List String) : String :=
  match args with
  | [pass, ma, mb] =>
    match parseMachine ma, parseMachine mb with
    | .ok A, .ok B =>
      -- (a pass whose flag is off returns at once: the identity)
      let M' := if pass == "simplify" then A.simplifyElse else if pass == "remove" then A.removeInaccessible else A
      let same := M'.sameTable B
      let diff := match M'.firstDiff B with | some i => toString i | none => "-"
      -- hypothesis of C05_remove_states_preserves for the set the mirror keeps (and: the start state is kept)
      let keep := A.reachable
      let closed := pass != "remove" || (A.closedUnder keep && goodB A keep A.start && decide (0 ≤ (A.start : Int)) && keep.getD A.start false)
      s!"ok same={same} det={A.deterministic} closed={closed} detAfter={B.deterministic} sizes={A.states.size}/{M'.states.size}/{B.states.size} start={M'.start}/{B.start} diff={diff}"
    | .error e, _ => s!"error parseA {e}"
    | _, .error e => s!"error parseB {e}"
  | _ => "error bad-args"

/-- `condgen|<enabled 0/1>|<L>|<hasEnd 0/1>|<values>`: the tests the mirror emits, ranges first in run order, then equalities -/
def cmdCondGen (args : List String) : String :=
  match args with
  | [en, l, he, vs] =>
    let vals := (vs.splitOn " ").filterMap String.toNat?
    let cs := condChecks (en == "1") l.toNat! (he == "1") vals
    " ".intercalate (cs.map fun c => match c with
      | .range lo hi => s!"r:{lo}:{hi}"
      | .eq v => s!"e:{v}")
  | _ => "error bad-args"

def cmdSpin (args : List String) : String :=
  match args with
  | [opts, m] =>
    match parseMachine m with
    | .ok M =>
      let c : RtCtx := { M := M, ro := parseRtOpts opts }
      let ps := c.spinPaths
      " ;; ".intercalate ((ps.take 5).map fun (s, x, es) => s!"state={s} sym={x} path={" ".intercalate (es.map fmtEv)}")
    | .error e => s!"error parse {e}"
  | _ => "error bad-args"

def cmdLabels (args : List String) : String :=
  match args with
  | [opts, m] =>
    match parseMachine m with
    | .ok M =>
      let c : RtCtx := { M := M, ro := parseRtOpts opts }
      let o := c.semOpts
      let j (l : List String) := " ".intercalate l.eraseDups
      s!"feed.labels={j (M.feedLabels o.strictDone)} ;; feed.gotos={j (M.feedGotos o)} ;; end.labels={j M.endLabels} ;; end.gotos={j (M.endGotos o)}"
    | .error e => s!"error parse {e}"
  | _ => "error bad-args"

def parseOv (s : String) : List (Nat × Bool) :=
  (splitOn s ',').filterMap fun t =>
    match splitOn t ':' with
    | [k, v] => some (k.toNat!, v == "1")
    | _ => none

def fmtFlags (m : FlagMap) : String := " ".intercalate (m.map fun p => s!"{p.1}={if p.2 then 1 else 0}")

/-- full-table resolution, plus whether its restriction to each cluster equals the cluster table's
    own resolution of the options that belong to the cluster -/
def cmdCli (args : List String) : String :=
  match args with
  | [lv, ovs] =>
    let ov := parseOv ovs
    let full := resolve Gen.flagTable Gen.optLevels lv.toNat! ov
    let clusterOK := (Gen.clusterTables.all fun tbl =>
      let ids := tbl.map (·.id)
      let r := resolve tbl [] 0 (ov.filter fun p => ids.contains p.1)
      match full, r with
      | some fm, some cm => ids.all fun i => fm.get i == cm.get i
      | none, _ => true
      | some _, none => false) &&
      (full.isSome || Gen.clusterTables.any fun tbl =>
        (resolve tbl [] 0 (ov.filter fun p => (tbl.map (·.id)).contains p.1)).isNone)
    match full with
    | some m => s!"ok clusterProduct={clusterOK} {fmtFlags m}"
    | none => s!"error clusterProduct={clusterOK}"
  | _ => "error bad-args"

/-- `mlook <globals k:name,...> <stack frame;frame (outermost first), frame = k:name:v,...> <kind> <name>` -/
def cmdMlook (args : List String) : String :=
  match args with
  | [gs, st, k, x] =>
    let globals : List (Nat × String) := (splitOn gs ',').filterMap fun t =>
      match splitOn t ':' with
      | [a, b] => some (a.toNat!, b)
      | _ => none
    let frame (f : String) : MFrame := (splitOn f ',').filterMap fun t =>
      match splitOn t ':' with
      | [a, b, c] => some ((a.toNat!, b), c.toNat!)
      | _ => none
    let stack : List MFrame := if st == "-" then [] else (splitOn st ';').map frame
    match lookStack globals stack k.toNat! x with
    | .val v => s!"val {v}"
    | .undefined => "undefined"
    | .global n => s!"global {n}"
  | _ => "error bad-args"

def fmtOptList (o : Option (List Nat)) : String :=
  match o with
  | some l => "ok " ++ " ".intercalate (l.map toString)
  | none => "none"

def cmdLit (args : List String) : String :=
  match args with
  | [kind, codes] =>
    let cs := (splitOn codes ',').filterMap fun t => t.toNat?
    match kind with
    | "convstr" => fmtOptList (convertString cs)
    | "escape" => fmtOptList (some (escapeString cs))
    | "clex" => fmtOptList (cLex cs)
    | "charconst" => (match convertCharConst cs with | some v => s!"ok {v}" | none => "none")
    | "int" => (match convertInt cs with | some v => s!"ok {v}" | none => "none")
    | "casefold" => fmtOptList (some (cs.flatMap caseFoldSorted))
    | _ => "error bad-kind"
  | _ => "error bad-args"

def fmtFrame : Frame → String
  | .run b p => s!"run({b},{p})"
  | .m _ _ => "match"
  | .w _ _ _ => "wait"
  | .c _ _ alts _ => s!"case[{alts.length}]"
  | .loopMark id _ => s!"loop{id}"
  | .tryMark _ _ h => s!"try->{h}"

def fmtPathsS (t : STree) : String :=
  " ; ".intercalate (t.paths.map fun p => (" ".intercalate (p.1.map fmtEv)) ++ " => " ++
    (match p.2 with | .next K => "next[" ++ ",".intercalate (K.map fmtFrame) ++ "]" | .halt => "halt"))

/-- reference semantics of a source program vs the compiled machine -/
def cmdRefine (args : List String) : String :=
  match args with
  | [sd, sl, lim, ps, ms] =>
    match parseProg ps, parseMachine ms with
    | .ok p, .ok M =>
      let o : SemOpts := { strictDone := sd.startsWith "1", substLast := sl = "1", dropLoose := sd.toList.contains 'L',
                           waitEndForeach := sd.toList.contains 'E', skipLoses := sd.toList.contains 'S' }
      let spec := Src.sm p o
      let mach := M.smS o
      let r := explore spec mach nSym lim.toNat!
      let strictOK := r.mismatch.isNone && !r.outOfFuel && certOK spec mach nSym r.visited.toList
      if strictOK then s!"closed visited={r.visited.size} maxlag={r.maxLag} cert=true"
      else if r.outOfFuel then s!"fuel visited={r.visited.size}"
      else
        -- relaxed rule: actions pending when an error strikes may or may not have run
        let spec := Src.sm p o true
        let r2 := exploreWith (stepCheckF spec mach) spec mach nSym lim.toNat!
        match r2.mismatch with
        | some (w, ps, x) =>
          let strictInfo := match r.mismatch with
            | some (w0, ps0, x0) =>
              let spec0 := Src.sm p o
              s!" STRICT word={symStr w0} sym={x0} spec=[{",".intercalate ((ps0.a.getD []).map fmtFrame)}] mach={ps0.b} aLeads={ps0.aLeads} lag=[{" ".intercalate (ps0.lag.map fmtEv)}] treeSpec={fmtPathsS (spec0.tree ps0.a x0)} treeMach={fmtPaths (mach.tree ps0.b x0)}"
            | none => ""
          let spinsAt := fun (b : Option Nat) (y : Nat) =>
            (mach.tree b y).paths.any fun pth => pth.1.any fun e => e == .act (.ret "SPIN") || e == .act (.ret "YSPIN")
          let machSpins := spinsAt ps.b x || (match r.mismatch with | some (_, ps0, x0) => spinsAt ps0.b x0 | none => false)
          s!"mismatch{if machSpins then "-machine-spins" else ""} word={symStr w} sym={x} spec=[{",".intercalate ((ps.a.getD []).map fmtFrame)}] mach={ps.b} aLeads={ps.aLeads} lag=[{" ".intercalate (ps.lag.map fmtEv)}] treeSpec={fmtPathsS (spec.tree ps.a x)} treeMach={fmtPaths (mach.tree ps.b x)}{strictInfo}"
        | none =>
          if r2.outOfFuel then s!"fuel visited={r2.visited.size}"
          else
            let ok := certOKF spec mach nSym r2.visited.toList
            s!"closed-relaxed visited={r2.visited.size} maxlag={r2.maxLag} cert={ok}"
    | .error e, _ => s!"error parseProg {e}"
    | _, .error e => s!"error parseMachine {e}"
  | _ => "error bad-args"

/-- one-byte-lookahead ambiguity of a source program under the reference semantics -/
def cmdAmbig (args : List String) : String :=
  match args with
  | [lim, ps] =>
    match parseProg ps with
    | .ok p =>
      let r := Src.exploreAmbig p {} lim.toNat!
      match r.found with
      | some (w, x, why) => s!"ambiguous word={symStr w} sym={x} visited={r.visited} why={why}"
      | none =>
        if r.outOfFuel then s!"fuel visited={r.visited}"
        else s!"clean visited={r.visited} cert={Src.ambigCertOK p {} r.cfgs}"
    | .error e => s!"error parseProg {e}"
  | _ => "error bad-args"

def handle (line : String) : String :=
  match splitBar line with
  | "equiv" :: args => cmdEquiv args
  | "tree" :: args => cmdTree args
  | "rt" :: args => cmdRt args
  | "wf" :: args => cmdWf args
  | "spin" :: args => cmdSpin args
  | "optpass" :: args => cmdOptPass args
  | "condgen" :: args => cmdCondGen args
  | "labels" :: args => cmdLabels args
  | "cli" :: args => cmdCli args
  | "lit" :: args => cmdLit args
  | "refine" :: args => cmdRefine args
  | "ambig" :: args => cmdAmbig args
  | "mlook" :: args => cmdMlook args
  | "srcrun" :: args => cmdSrcRun args
  | "ping" :: _ => "pong"
  | _ => "error unknown-command"

partial def loop (h : IO.FS.Stream) (out : IO.FS.Stream) : IO Unit := do
  let line ← h.getLine
  if line.isEmpty then return ()
  let l := String.ofList (line.toList.filter (fun c => c != '\n' && c != '\r'))
  out.putStrLn (handle l)
  out.flush
  loop h out

def main : IO Unit := do
  loop (← IO.getStdin) (← IO.getStdout)
