import NmfuModel.Equiv
def main : IO Unit := IO.println "nmfumodel"
