import NmfuModel.Parse
import NmfuModel.Explore
open Nmfu

def splitBar (s : String) : List String := Id.run do
  let mut acc : Array String := #[]
  let mut cur : String := ""
  for c in s.toList do
    if c = '|' then
      acc := acc.push cur
      cur := ""
    else cur := cur.push c
  acc := acc.push cur
  return acc.toList

def symStr (w : List Nat) : String := " ".intercalate (w.map toString)

def fmtAEv : AEv → String
  | .ret c => s!"ret:{c}"
  | .yield c => s!"yield:{c}"
  | .hook n a => s!"hook:{n}:{a}"
  | .append o b => s!"append:{o}:{b}"
  | .appendC o e => s!"appendc:{o}:{hash e}"
  | .set o e => s!"set:{o}:{hash e}"
  | .setStr o bs => s!"setstr:{o}:{bs}"
  | .delete o => s!"delete:{o}"
  | .brk => "brk"

def fmtEv : MEv → String
  | .act a => fmtAEv a
  | .asked (.cond e) v => s!"ask:cond:{hash e}={v}"
  | .asked (.full o) v => s!"ask:full:{o}={v}"

def fmtLeaf : Leaf → String
  | .next s => s!"next:{s}"
  | .halt => "halt"

def fmtPS (p : PS AEv Quest) : String :=
  s!"a={p.a} b={p.b} aLeads={p.aLeads} lag=[{" ".intercalate (p.lag.map fmtEv)}]"

def fmtPaths (t : MTree) : String :=
  " ; ".intercalate (t.paths.map fun p => (" ".intercalate (p.1.map fmtEv)) ++ " => " ++ fmtLeaf p.2)

def cmdEquiv (args : List String) : String :=
  match args with
  | [sd, sl, lim, ma, mb] =>
    match parseMachine ma, parseMachine mb with
    | .ok A, .ok B =>
      let o : SemOpts := { strictDone := sd = "1", substLast := sl = "1" }
      let smA := A.sm o
      let smB := B.sm o
      let r := explore smA smB nSym lim.toNat!
      match r.mismatch with
      | some (w, p, x) =>
        s!"mismatch word={symStr w} sym={x} {fmtPS p} treeA={fmtPaths (smA.tree p.a x)} treeB={fmtPaths (smB.tree p.b x)}"
      | none =>
        if r.outOfFuel then s!"fuel visited={r.visited.size}"
        else
          let ok := certOK smA smB nSym r.visited.toList
          let lagLast := r.visited.any fun p => p.lag.any fun e =>
            match e with
            | .act (.hook _ _) => true
            | .act (.append _ _) => true
            | .act (.appendC _ e) => e.readsLast
            | .act (.set _ e) => e.readsLast
            | .asked (.cond e) _ => e.readsLast
            | _ => false
          s!"closed visited={r.visited.size} maxlag={r.maxLag} cert={ok} laggedLastReader={lagLast}"
    | .error e, _ => s!"error parseA {e}"
    | _, .error e => s!"error parseB {e}"
  | _ => "error bad-args"

def cmdTree (args : List String) : String :=
  match args with
  | [sd, sl, m, st, x] =>
    match parseMachine m with
    | .ok A =>
      let o : SemOpts := { strictDone := sd = "1", substLast := sl = "1" }
      fmtPaths ((A.sm o).step st.toNat! x.toNat!)
    | .error e => s!"error parse {e}"
  | _ => "error bad-args"

def handle (line : String) : String :=
  match splitBar line with
  | "equiv" :: args => cmdEquiv args
  | "tree" :: args => cmdTree args
  | "ping" :: _ => "pong"
  | _ => "error unknown-command"

partial def loop (h : IO.FS.Stream) (out : IO.FS.Stream) : IO Unit := do
  let line ← h.getLine
  if line.isEmpty then return ()
  let l := String.ofList (line.toList.filter (fun c => c != '\n' && c != '\r'))
  out.putStrLn (handle l)
  out.flush
  loop h out

def main : IO Unit := do
  loop (← IO.getStdin) (← IO.getStdout)
