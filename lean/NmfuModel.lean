import NmfuModel.Tree
import NmfuModel.Equiv
import NmfuModel.Explore
import NmfuModel.Expr
import NmfuModel.Mach
import NmfuModel.Parse
import NmfuModel.Rt
import NmfuModel.NoSpin
