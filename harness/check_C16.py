"""
C16 — wait never fails and stops at the first restart-semantics match.

`wait P` programs — P a literal, a case-insensitive literal, a regex, a concatenation — alone,
followed by more statements, and inside try/catch with marker hooks in the handler, compiled by
the real nmfu and compared with the reference semantics (restart automaton: on a mismatch the
partial match is abandoned and matching resumes from the pattern's start with the offending byte,
which is skipped if it cannot start the pattern; end-of-input is consumed without failing) by the
Lean equivalence certificate, over all inputs.  That no input routes a wait to a handler is part
of the equivalence: the reference never raises inside a wait, so a machine that calls the handler's
hook has no certificate.
"""
import sys, os, random
sys.path.insert(0, os.path.dirname(os.path.abspath(__file__)))
import common, refcheck
from check_C07 import random_regex

THEOREMS = ["Nmfu.C01_machine_refines_reference", "Nmfu.C16_wait_never_raises", "Nmfu.C16_wait_consumes"]

if __name__ == "__main__":
    t = common.tier()
    rng = random.Random(common.seed())
    progs = []
    n = 220 if t == "quick" else 3000
    for i in range(n):
        k = rng.random()
        if k < 0.3:
            pat = '"' + "".join(rng.choice("abcab") for _ in range(rng.randint(1, 5))) + '"'
        elif k < 0.4:
            pat = '"' + "".join(rng.choice("abAB") for _ in range(rng.randint(1, 4))) + '"i'
        elif k < 0.8:
            pat = "/" + random_regex(rng) + "/"
        else:
            pat = '("' + rng.choice(["ab", "a", "abc"]) + '" /' + rng.choice(["b+c", "[ab]x", "a?b"]) + "/)"
        shape = rng.randrange(7)
        if shape == 0:
            body = f"wait {pat};"
        elif shape == 1:
            body = f'wait {pat}; "z"; h1();'
        elif shape == 2:
            body = f'try {{ wait {pat}; "q"; }} catch {{ h0(); "r"; }} h1();'
        elif shape == 3:
            body = f'"s"; try {{ "t"; }} catch (nomatch) {{ wait {pat}; h0(); }} "u";'
        elif shape == 4:
            body = f'loop {{ wait {pat}; h0(); case {{ "!" -> {{ break; }} "." -> {{ }} }} }}'
        elif shape == 5:
            # a wait right after a statement ended by look-ahead on a negated class (its exclusions must not leak into the wait)
            pre = rng.choice(["/[^xy]+/", "/[^ab]*/", "/a[^b]*/", "/\\D+/"])
            body = f'try {{ "<"; {pre}; wait {pat}; h1(); }} catch {{ h0(); "r"; }}'
        else:
            pre = rng.choice(["/[^xy]+/", "/[^ab]*/", "/\\W*/"])
            body = f'{pre}; wait {pat}; ";";'
        src = "hook h0;\nhook h1;\nparser {\n  " + body + "\n}\n"
        progs.append({"name": f"wait-{i}", "src": src, "args": ["-feof-support"], "feats": {}, "also_O3": i % 3 == 0})
    refcheck.run("C16", THEOREMS, "NmfuProps.C16", progs,
                 "wait statements over literal / case-insensitive / regex / concatenation patterns in five program shapes (alone, followed by statements, inside try, inside a handler, inside a loop) with EOF support; distinct accepted programs with at least 3 states")
