"""
Tie between the Lean mirrors of the optimisation passes (NmfuModel/Opt.lean) and the real passes.

`record()` wraps DfaCompileCtx._optimize_simplify_transition_matches and
DfaCompileCtx._optimize_remove_inaccessible from outside (no change to /repo): every invocation the
real compile() makes is snapshotted — the exported machine before and after — together with the
number of modifications the pass reported.  `judge()` asks the model driver whether the mirror of the
pass maps the first snapshot onto the second (`optpass`), and whether the hypothesis of the
preservation theorem (C05_simplify_else_preserves: the table is deterministic) holds on it.
"""
import contextlib
from nmfu_api import nmfu
from export import export_machine, Unsupported

PASSES = {"simplify": "_optimize_simplify_transition_matches", "remove": "_optimize_remove_inaccessible"}
# the flag that gates each pass (`if not ProgramData.do(flag): return 0`): with the flag off the mirror is the identity
GATES = {"simplify": 300, "remove": 301}


@contextlib.contextmanager
def record(log, limit=12):
    if log is None:
        yield None
        return
    origs = {}

    def mk(kind, orig):
        def wrapped(self):
            if self.dfa is None or len(log) >= limit:
                return orig(self)
            try:
                before = export_machine(self)
            except Unsupported:
                return orig(self)
            enabled = bool(nmfu.ProgramData.do(nmfu.ProgramFlag(GATES[kind])))
            mod = orig(self)
            try:
                after = export_machine(self)
                log.append({"pass": kind, "mod": mod, "before": before, "after": after, "enabled": enabled})
            except Unsupported:
                pass
            return mod
        return wrapped
    for kind, name in PASSES.items():
        origs[name] = getattr(nmfu.DfaCompileCtx, name)
        setattr(nmfu.DfaCompileCtx, name, mk(kind, origs[name]))
    try:
        yield log
    finally:
        for name, o in origs.items():
            setattr(nmfu.DfaCompileCtx, name, o)


def judge(model, rec):
    """-> dict(pass, mod, same, det, raw)"""
    r = model.ask("optpass", rec["pass"] if rec.get("enabled", True) else "identity", rec["before"], rec["after"], timeout=60)
    out = {"pass": rec["pass"], "mod": rec["mod"], "enabled": rec.get("enabled", True), "raw": r[:300]}
    if not r.startswith("ok "):
        out["same"] = None
        return out
    kv = dict(t.split("=", 1) for t in r.split()[1:])
    out["same"] = kv.get("same") == "true"
    out["det"] = kv.get("det") == "true"
    out["closed"] = kv.get("closed") == "true"
    out["detAfter"] = kv.get("detAfter") == "true"
    out["sizes"] = kv.get("sizes")
    return out
