"""
C14 — math expressions evaluate as C arithmetic over the parser's variables.

The generator builds a well-typed expression tree T, prints it as nmfu source with *minimal*
parentheses (by C precedence, plus what the nmfu grammar requires), and embeds it in a
one-statement parser in one of four contexts (assignment, character append, if-condition,
conditional action).  The real nmfu compiles it and the compiled C evaluates it on random and
boundary values of the variables.  Independently, a reference machine is built from T itself
(not from nmfu's parse) and run by the Lean runtime model, whose `eval` is C arithmetic with
explicit undefined behaviour.  The two must agree whenever the evaluation is defined.
Lean: NmfuProps/C14.lean; the grammar's operator chain is regenerated into Generated/ExprLevels.lean.
"""
import sys, os, random, shutil, multiprocessing as mp
sys.path.insert(0, os.path.dirname(os.path.abspath(__file__)))
import common
from common import Check

THEOREMS = ["Nmfu.grammar_levels_agree_with_C", "Nmfu.index_oob_zero", "Nmfu.flat_irrelevant",
            "Nmfu.assign_converts", "Nmfu.cond_truthy", "Nmfu.contexts_agree"]

# C precedence (larger binds tighter) and the nmfu level of each operator
PREC = {"||": 1, "&&": 2, "|": 3, "^": 4, "&": 5, "==": 6, "!=": 6, "<": 7, ">": 7, "<=": 7, ">=": 7,
        "<<": 8, ">>": 8, "+": 9, "-": 9, "*": 10, "/": 10, "%": 10}
NLEVEL = {"||": 1, "&&": 2, "|": 3, "^": 4, "&": 5, "==": 6, "!=": 6, "<": 6, ">": 6, "<=": 6, ">=": 6,
          "<<": 7, ">>": 7, "+": 8, "-": 8, "*": 9, "/": 9, "%": 9}
TOK = {"+": "add", "-": "sub", "*": "mul", "/": "div", "%": "mod", "<": "lt", ">": "gt", "<=": "le", ">=": "ge",
       "==": "eq", "!=": "ne", "<<": "shl", ">>": "shr", "|": "bor", "^": "bxor", "&": "band", "||": "lor", "&&": "land"}


class Gen:
    """Expression trees: ('lit', v) ('var', outidx, name) ('len', outidx, name) ('idx', outidx, name, e)
    ('last',) ('chr', c) ('bin', op, l, r) ('not', e) ('neg', e); each with a static type 'int'/'bool'."""

    def __init__(self, rng, ints, strs, allow_last):
        self.r, self.ints, self.strs, self.allow_last = rng, ints, strs, allow_last

    def int_atom(self, d):
        r = self.r
        k = r.random()
        if k < 0.3 or (not self.ints and not self.strs and k < 0.8):
            return ("lit", r.choice([0, 1, 2, 3, 5, 7, 10, 48, 100, 255, 256, 1000, 65535, 2147483647, r.randrange(100000)]))
        if k < 0.55 and self.ints:
            i, n = r.choice(self.ints)
            return ("var", i, n)
        if k < 0.63 and self.strs:
            i, n = r.choice(self.strs)
            return ("len", i, n)
        if k < 0.72 and self.strs:
            i, n = r.choice(self.strs)
            if getattr(self, "in_range_idx_only", False):
                # without bounds checks an index outside the contents is the user's undefined behaviour: stay inside
                return ("idx", i, n, ("lit", r.choice([0, 1, 1, 2])))
            return ("idx", i, n, self.int_expr(d + 2) if r.random() < 0.4 else ("lit", r.choice([-1, 0, 1, 2, 3, 4, 7, 8, 8, 9, 255, 256])))   # (the output is str[8]: at and around the size)
        if k < 0.80 and self.allow_last:
            return ("last",)
        if k < 0.86:
            return ("chr", r.choice("ab0 z~'\\\n\t\r\0\b\"|"))     # (the escaped forms as well)
        if k < 0.92 and d < 3:
            return ("neg", self.int_atom(d + 1))
        return ("lit", r.randrange(10))

    def int_expr(self, d=0):
        r = self.r
        if d >= 3 or r.random() < 0.3:
            return self.int_atom(d)
        op = r.choice(["+", "-", "*", "+", "-", "/", "%", "&", "|", "^", "<<", ">>"])
        if op in ("/", "%"):
            if r.random() < 0.25:
                # constant operands, a negative one among them: C truncates towards zero, Python floors
                return ("bin", op, ("neg", ("lit", r.choice([1, 7, 8, 9, 100]))), ("lit", r.choice([2, 3, 7, 10])))
            return ("bin", op, self.int_expr(d + 1), ("lit", r.choice([1, 2, 3, 7, 10, 16])))
        if op in ("<<", ">>"):
            return ("bin", op, self.int_expr(d + 1), ("lit", r.randrange(0, 9)))
        return ("bin", op, self.int_expr(d + 1), self.int_expr(d + 1))

    def bool_expr(self, d=0):
        r = self.r
        k = r.random()
        if d >= 2 or k < 0.55:
            return ("bin", r.choice(["==", "!=", "<", ">", "<=", ">="]), self.int_expr(d + 1), self.int_expr(d + 1))
        if k < 0.85:
            return ("bin", r.choice(["&&", "||"]), self.bool_expr(d + 1), self.bool_expr(d + 1))
        return ("not", ("par", self.bool_expr(d + 1)))


def is_atom(e):
    return e[0] in ("lit", "var", "len", "idx", "last", "chr", "par")


def show(e, ctx_level=0, right=False):
    """nmfu source with minimal parentheses."""
    k = e[0]
    if k == "lit":
        return str(e[1])
    if k == "var":
        return e[2]
    if k == "len":
        return e[2] + ".len"
    if k == "idx":
        return f"{e[2]}[{show(e[3])}]"
    if k == "last":
        return "$last"
    if k == "chr":
        return "'" + {"'": "\\'", "\\": "\\\\", "\n": "\\n", "\t": "\\t", "\r": "\\r", "\0": "\\0", "\b": "\\b"}.get(e[1], e[1]) + "'"
    if k == "par":
        return "(" + show(e[1]) + ")"
    if k in ("not", "neg"):
        inner = e[1]
        s = show(inner) if is_atom(inner) else "(" + show(inner) + ")"
        s = ("!" if k == "not" else "-") + s
        return "(" + s + ")" if ctx_level >= 9 else s          # unary is not below mul in nmfu? it is an atom-level form
    op, l, r = e[1], e[2], e[3]
    lv = NLEVEL[op]
    chain = op not in ("==", "!=", "<", ">", "<=", ">=", "<<", ">>")
    ls = show(l, lv if chain else lv + 1, False)
    rs = show(r, lv + 1, True)
    s = f"{ls} {op} {rs}"
    # parenthesise when the context binds tighter, or equally tight on the right of a left-assoc chain
    need = lv < ctx_level
    return "(" + s + ")" if need else s


def toks(e):
    """Token stream of the *reference* tree in the exporter's format."""
    k = e[0]
    if k == "lit":
        return ["lit", str(e[1])]
    if k == "var":
        return ["out", str(e[1])]
    if k == "len":
        return ["len", str(e[1])]
    if k == "idx":
        return ["idx", str(e[1])] + toks(e[3])
    if k == "last":
        return ["last"]
    if k == "chr":
        return ["lit", str(ord(e[1]))]
    if k == "par":
        return toks(e[1])
    if k == "not":
        return ["bin", "eq", "0"] + toks(e[1]) + ["litb", "0"]
    if k == "neg":
        return ["bin", "sub", "0", "lit", "0"] + toks(e[1])
    return ["bin", TOK[e[1]], "0"] + toks(e[2]) + toks(e[3])


def typ(e):
    if e[0] == "bin" and e[1] in ("==", "!=", "<", ">", "<=", ">=", "&&", "||"):
        return "bool"
    if e[0] == "not":
        return "bool"
    if e[0] == "par":
        return typ(e[1])
    return "int"


def make_case(rng):
    """A one-statement program around an expression, its source and its reference machine."""
    int_decls = []
    for i in range(rng.randint(1, 3)):
        signed = rng.random() < 0.6
        width = rng.choice([None, 1, 2, 4, 8])
        attrs = [("signed" if signed else "unsigned")] + ([f"size {width}"] if width else [])
        bits = {None: 32, 1: 8, 2: 16, 4: 32, 8: 64}[width]
        int_decls.append((f"v{i}", signed, bits, "{" + ", ".join(attrs) + "}"))
    has_str = rng.random() < 0.6
    u8 = rng.random() < 0.3
    # (assigning a comparison to a bool output is rejected by the code generator with a diagnosed
    #  "Mismatched types" error on the current tree, so that context cannot be exercised)
    ctx = rng.choice(["assign", "assign", "appendc", "ifcond", "condact"])
    outs_src, outs_tok = [], []
    idx = 0
    ints, strs = [], []
    for n, s, b, a in int_decls:
        outs_src.append(f"out int{a} {n} = 1;")
        outs_tok += ["out", n, "int", "1" if s else "0", str(b), "defi", "1"]
        ints.append((idx, n))
        idx += 1
    outs_src.append("out bool bb = false;")
    outs_tok += ["out", "bb", "bool", "defi", "0"]
    bb = idx
    idx += 1
    outs_src.append("out int{signed, size 8} res = 0;")
    outs_tok += ["out", "res", "int", "1", "64", "defi", "0"]
    res = idx
    idx += 1
    sidx = None
    if has_str or ctx == "appendc":
        # (a byte >= 0x80 in the middle: an indexed byte is 0..255 whatever the element type and the indexing mode)
        mid = rng.choice([90, 233, 128, 255])
        # (sometimes without terminator: what lies at and beyond the length is then whatever was there before)
        unt = rng.random() < 0.3
        outs_src.append(f'out {"unterminated " if unt else ""}str[8] st = "a\\x{mid:02x}~";')
        outs_tok += ["out", "st", "str", "8", "0" if unt else "1", "8", "defs", "3", "97", str(mid), "126"]
        sidx = idx
        strs.append((idx, "st"))
        idx += 1
    allow_last = ctx in ("assign", "appendc", "condact", "assign_bool")
    g = Gen(rng, ints, strs, allow_last)
    unsafe = rng.random() < 0.3
    g.in_range_idx_only = unsafe
    if ctx in ("assign", "appendc"):
        e = g.int_expr()
    else:
        e = g.bool_expr()
    src_e = show(e)
    et = toks(e)
    if ctx == "assign":
        stmt = f'"x"; res = [{src_e}];'
        acts = ["acts", "1", "set", str(res)] + et
    elif ctx == "assign_bool":
        stmt = f'"x"; bb = [{src_e}];'
        acts = ["acts", "1", "set", str(bb)] + et
    elif ctx == "appendc":
        stmt = f'"x"; st += [{src_e}];'
        acts = ["acts", "1", "appendc", "2", str(sidx), "0"] + et
    elif ctx == "condact":
        stmt = f'"x"; if {src_e} {{ res = 11; }} else {{ res = 22; }}'
        acts = ["acts", "1", "cond", "2", "cexpr"] + et + ["acts", "1", "set", str(res), "lit", "11", "celse", "acts", "1", "set", str(res), "lit", "22"]
    else:  # ifcond: a condition point
        stmt = f'"x"; if {src_e} {{ "y"; res = 11; }} else {{ "z"; res = 22; }}'
        acts = None
    src = "\n".join(outs_src) + "\nparser {\n  " + stmt + '\n  "w";\n}\n'
    # reference machine (token stream as export.py writes it)
    nout = len(outs_src)
    t = ["machine", str(nout)] + outs_tok
    if ctx != "ifcond":
        # 0 --x/acts--> 1 --w--> 2(acc) ; 3 = fail
        t += ["4", "0",
              "state", "normal", "0", "2", "arm", "celse", "1", "0", "0", "1", "120"] + acts + ["arm", "celse", "3", "1", "1", "1", "257", "acts", "0",
              "state", "normal", "0", "2", "arm", "celse", "2", "0", "0", "1", "119", "acts", "0", "arm", "celse", "3", "1", "1", "1", "257", "acts", "0",
              "state", "normal", "1", "1", "arm", "celse", "3", "1", "1", "1", "257", "acts", "0",
              "state", "fail", "0", "0"]
    else:
        # 0 --x--> 1(cond) ; 1: e -> 2 ; else -> 3 ; 2 --y/set 11--> 4 ; 3 --z/set 22--> 4 ; 4 --w--> 5(acc) ; 6 fail
        t += ["7", "0",
              "state", "normal", "0", "2", "arm", "celse", "1", "0", "0", "1", "120", "acts", "0", "arm", "celse", "6", "1", "1", "1", "257", "acts", "0",
              "state", "cond", "0", "2", "arm", "cexpr"] + et + ["2", "1", "0", "0", "acts", "0", "arm", "celse", "3", "1", "0", "0", "acts", "0",
              "state", "normal", "0", "2", "arm", "celse", "4", "0", "0", "1", "121", "acts", "1", "set", str(res), "lit", "11", "arm", "celse", "6", "1", "1", "1", "257", "acts", "0",
              "state", "normal", "0", "2", "arm", "celse", "4", "0", "0", "1", "122", "acts", "1", "set", str(res), "lit", "22", "arm", "celse", "6", "1", "1", "1", "257", "acts", "0",
              "state", "normal", "0", "2", "arm", "celse", "5", "0", "0", "1", "119", "acts", "0", "arm", "celse", "6", "1", "1", "1", "257", "acts", "0",
              "state", "normal", "1", "1", "arm", "celse", "6", "1", "1", "1", "257", "acts", "0",
              "state", "fail", "0", "0"]
    t += ["acts", "0", "0", "0", "0", "end"]
    return {"src": src, "machine": " ".join(t), "ctx": ctx, "ints": int_decls, "expr": src_e, "u8": u8,
            "args": ["-O1"] + (["-fstrings-as-u8"] if u8 else []) + (["-funsafe-string-indexing"] if unsafe else [])}


def work(job):
    seed, k, wd_root = job
    from nmfu_api import compile_program
    import cdriver, rtdiff
    rng = random.Random(f"{seed}/c14/{k}")
    case = make_case(rng)
    res = {"k": k, "status": "ok", "evals": 0, "ub": 0, "viol": None, "ctx": case["ctx"], "expr": case["expr"]}
    o = compile_program(case["src"], case["args"])
    if not o.ok:
        res["status"] = "rejected: " + repr(o)[:200]
        res["src"] = case["src"]
        return res
    opts = cdriver.rt_opts_string()
    wd = os.path.join(wd_root, f"{os.getpid()}")
    shutil.rmtree(wd, ignore_errors=True)
    b, err = cdriver.build(o, wd)
    if b is None:
        res["status"] = "build: " + err[:300]
        res["src"] = case["src"]
        return res
    sessions = []
    for _ in range(10):
        ops = ["start"]
        for i, (n, s, bits, a) in enumerate(case["ints"]):
            lo, hi = (-(1 << (bits - 1)), (1 << (bits - 1)) - 1) if s else (0, (1 << bits) - 1)
            v = rng.choice([0, 1, 2, 7, 100, 255, hi, lo, hi - 1, rng.randint(lo, hi), rng.randint(-5, 300)])
            v = max(lo, min(hi, v))
            ops.append(f"seti:{i}:{v}")
        data = b"x" + (b"y" if rng.random() < 0.5 else b"z") + b"w"
        ops.append(f"feed:{data.hex()}")
        sessions.append(ops)
    # the reference first: a valuation on which the expression is undefined in C (signed overflow, a shift beyond the
    # width, ...) is not run at all - the compiled code may do anything there, crashing included
    ml = rtdiff.model().ask("rt", opts, case["machine"], ";".join(o_ for ses in sessions for o_ in ses)).split(" ## ")
    msegs = rtdiff.segments(ml)
    keep = []
    for ses, ms in zip(sessions, msegs):
        res["evals"] += 1
        if rtdiff.model_ub(ms):
            res["ub"] += 1
        else:
            keep.append((ses, ms))
    if len(msegs) != len(sessions):
        res["viol"] = {"kind": "model-sessions", "src": case["src"], "detail": f"{len(msegs)} model segments for {len(sessions)} sessions"}
        shutil.rmtree(wd, ignore_errors=True)
        return res
    cl, status, err = b.run([o_ for ses, _ in keep for o_ in ses]) if keep else ([], "ok", "")
    shutil.rmtree(wd, ignore_errors=True)
    if status != "ok":
        res["viol"] = {"kind": "binary-" + status, "src": case["src"], "args": case["args"], "ops": [o_ for ses, _ in keep for o_ in ses], "detail": err[-300:]}
        return res
    for cs, (ses, ms) in zip(rtdiff.segments(cl), keep):
        d = rtdiff.compare(cs, ms)
        if d is not None:
            res["viol"] = {"kind": "value-differs", "src": case["src"], "expr": case["expr"], "context": case["ctx"], "args": case["args"],
                           "ops": ses, "binary": cs, "reference": ms}
            break
    return res


def main():
    ck = Check("C14", "proof")
    import translate
    ck.coverage["generated_tables_changed"] = translate.regenerate({"ExprLevels.lean"})
    ck.lean_obligations("NmfuProps.C14", THEOREMS)
    n = 250 if ck.tier == "quick" else 4000
    wd = common.scratch_dir("c14")
    try:
        with mp.Pool(min(14, os.cpu_count() or 4)) as pool:
            results = pool.map(work, [(ck.seed, k, wd) for k in range(n)], chunksize=4)
    finally:
        shutil.rmtree(wd, ignore_errors=True)
    st = {"programs": 0, "rejected": 0, "evaluations": 0, "undefined_skipped": 0, "contexts": {}}
    exprs = set()
    for r in results:
        if r["status"] != "ok":
            st["rejected"] += 1
            if len([n for n in ck.notes if "rejected" in n]) < 5:
                ck.notes.append({"rejected": r["status"], "src": r.get("src", "")[:400]})
            continue
        st["programs"] += 1
        st["evaluations"] += r["evals"]
        st["undefined_skipped"] += r["ub"]
        st["contexts"][r["ctx"]] = st["contexts"].get(r["ctx"], 0) + 1
        exprs.add(r["expr"])
        if r["viol"]:
            ck.report(f"{r['viol']['kind']}/{r['expr']}", f"expression {r['expr']} ({r['ctx']}): generated C and C-arithmetic reference disagree", r["viol"])
        if len(ck.samples) < 5:
            ck.samples.append({"expr": r["expr"], "context": r["ctx"], "evaluations": r["evals"], "undefined": r["ub"]})
    if st["rejected"] > n * 0.2:
        ck.broken_obligation("the expression generator is rejected too often by the compiler (printing rules out of date?)", {"rejected": st["rejected"]})
    ck.finish({"evaluations": st["evaluations"], "distinct_nontrivial": len(exprs),
               "traces_validated_against_impl": st["evaluations"] - st["undefined_skipped"],
               "rule": "random well-typed expression trees over all operators and atoms, printed with minimal parentheses, in 4 use contexts, 10 valuations each (random and boundary); distinct by printed expression",
               "stats": st})


if __name__ == "__main__":
    main()
