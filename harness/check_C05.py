"""
C05 — optimisation levels and flags never change parser behaviour.

Per program: the machine compiled at -O0 is compared, by the Lean equivalence certificate
(`certOK`, sound for all inputs and all data outcomes: NmfuProps/C05.lean), with the machines
compiled at -O1/-O2/-O3, with each optimisation flag toggled alone, and with the short-circuit
thresholds varied; also the post-convert snapshot against the final machine of one compilation.
`collapse-transition-ranges` only affects code generation: the C binaries built with different
range lengths are run on the same inputs and their traces must be identical.
A mismatch witness (a word over bytes and end-of-input) is replayed on the real C binaries.
"""
import sys, os, json, random, shutil, multiprocessing as mp
sys.path.insert(0, os.path.dirname(os.path.abspath(__file__)))
import common
from common import Check
import population

THEOREMS = ["Nmfu.C05_optimised_equivalent", "Nmfu.C05_lag_at_most_one_step",
            "Nmfu.certOK_sound", "Nmfu.certOK_lag_one"]
# the optimiser itself, for every machine: the mirror of `_optimize_simplify_transition_matches`
# (compared with the real pass on every invocation observed) leaves every dispatch tree unchanged
OPT_THEOREMS = ["Nmfu.C05_simplify_else_preserves", "Nmfu.C05_simplify_else_preserves_with_start",
                "Nmfu.Machine.simplifyElse_dispatch", "Nmfu.feedArm_simplify", "Nmfu.endArm_simplify",
                "Nmfu.simplifyElse_needs_determinism", "Nmfu.Machine.simplifyElse_idem", "Nmfu.Machine.simplifyElse_deterministic"]
# … and of `_optimize_remove_inaccessible`: removing states no kept state refers to, and renumbering, leaves every dispatch
# tree the same up to the renumbering (hypothesis `closedUnder`, evaluated per snapshot on the set the mirror keeps)
REMOVE_THEOREMS = ["Nmfu.C05_remove_states_preserves", "Nmfu.dispatch_sim", "Nmfu.armTree_sim", "Nmfu.Acts.tree_sim",
                   "Nmfu.removeStates_renOK", "Nmfu.closedUnder_sound", "Nmfu.dispatch_mono", "Nmfu.C05_remove_states_call", "Nmfu.armTree_sim_finishFirst", "Nmfu.C05_O1_round_preserves"]
PASS_CFGS = ("O3", "O0+simplify", "O0+remove", "O1")
CHAIN_CFGS = ("O0+simplify", "O0+remove", "O1")   # settings under which no unmirrored pass modifies the table


def optpasses_name(kind):
    import optpasses
    return optpasses.PASSES[kind]


def flag_name(nmfu, value):
    return nmfu.ProgramFlag(value).name.lower().replace("_", "-")


def configs(nmfu, tier):
    simp, rem, dele, short = (flag_name(nmfu, v) for v in (300, 301, 302, 303))
    cfgs = [("O1", ["-O1"]), ("O2", ["-O2"]), ("O3", ["-O3"]),
            ("O0+simplify", ["-O0", "-f" + simp]), ("O0+remove", ["-O0", "-f" + rem]),
            ("O0+delete", ["-O0", "-f" + dele]), ("O0+short", ["-O0", "-f" + short]),
            ("O0+short/t0", ["-O0", "-f" + short, "--max-shortcircuit-fallthrough", "0"]),
            ("O3/t1", ["-O3", "--max-shortcircuit-fallthrough", "1"])]
    if tier == "thorough":
        cfgs += [("O3-simplify", ["-O3", "-fno-" + simp]), ("O3-remove", ["-O3", "-fno-" + rem]),
                 ("O3-short", ["-O3", "-fno-" + short]), ("O1+short", ["-O1", "-f" + short]),
                 ("O3/t100", ["-O3", "--max-shortcircuit-fallthrough", "100", "--max-shortcircuit-action-penalty", "0"])]
    return cfgs


_model = None


def _init():
    global _model
    from modeldrv import Model
    _model = Model()


def equiv(ta, tb, strict_done=0):
    r = _model.ask("equiv", strict_done, 1, 400000, ta, tb)
    mode = "strict"
    if r.startswith("mismatch"):
        r2 = _model.ask("equiv", strict_done, 0, 400000, ta, tb)
        if r2.startswith("closed"):
            return "closed-lastshift", r2, r
        return "mismatch", r, r2
    if r.startswith("closed"):
        if "cert=true" not in r:
            return "certfail", r, ""
        return "closed", r, ""
    return "other", r, ""


def work(job):
    from nmfu_api import compile_program, nmfu
    from export import export_machine, Unsupported
    prog, tier = job
    res = {"name": prog["name"], "pairs": [], "status": "ok", "hist": prog.get("hist", {})}
    try:
        base = compile_program(prog["src"], ["-O0"] + prog["args"], codegen=False,
                               want_pre=lambda self: export_machine(self))
        if not base.ok:
            res["status"] = "rejected:" + base.kind
            return res
        ta = export_machine(base.dctx)
        res["states"] = len(base.dctx.dfa.states)
        import rtdiff
        if rtdiff.machine_known_spin("", ta):
            res["status"] = "excluded:spin-through-outofspace-redirect (the finding recorded under C04)"
            return res
        import optpasses
        res["passes"] = []
        for name, args in configs(nmfu, tier):
            plog = []
            with optpasses.record(plog if name in PASS_CFGS else None):
                o = compile_program(prog["src"], args + prog["args"], codegen=False,
                                    want_pre=(lambda self: export_machine(self)) if name in PASS_CFGS else None)
            chain_all = True
            for rec in plog:
                j = optpasses.judge(_model, rec)
                j["cfg"] = name
                hyp = j.get("det") if rec["pass"] == "simplify" else j.get("closed")
                j["hyp"] = bool(hyp)
                if not j.get("same") or not hyp:
                    # the mirror does not reproduce the real pass here, or the theorem's hypothesis fails:
                    # compare the machine before and after this very invocation by the certificate
                    v, r, r2 = equiv(rec["before"], rec["after"])
                    j["equiv"] = v
                    j["equiv_detail"] = r[:1200]
                else:
                    j.pop("raw", None)
                chain_all = chain_all and bool(j.get("same")) and bool(hyp)
                res["passes"].append(j)
            if name in CHAIN_CFGS and o.ok and o.pre and plog and len(plog) < 12:
                # only mirrored passes run under these settings: the snapshots must form one chain from the machine
                # `convert` built to the machine the code generator gets, so that the final machine IS the mirrors
                # applied in turn to the first — every link covered by its theorem when `chain_all`
                final = export_machine(o.dctx)
                links = [o.pre] + [x for rec in plog for x in (rec["before"], rec["after"])] + [final]
                contiguous = all(links[k] == links[k + 1] for k in range(0, len(links), 2))
                res.setdefault("chains", []).append({"cfg": name, "invocations": len(plog), "contiguous": contiguous,
                                                     "by_theorem": contiguous and chain_all,
                                                     "starts_from_O0_machine": o.pre == ta})
            if not o.ok:
                res["pairs"].append({"cfg": name, "verdict": "verdict-differs", "detail": repr(o)})
                continue
            tb = export_machine(o.dctx)
            v, r, r2 = equiv(ta, tb)
            res["pairs"].append({"cfg": name, "args": args, "verdict": v, "detail": r[:1500], "detail2": r2[:600]})
            if name == "O3" and o.pre:
                v, r, r2 = equiv(o.pre, tb)
                res["pairs"].append({"cfg": "O3:pre-vs-post", "args": args, "verdict": v, "detail": r[:1500], "detail2": r2[:600]})
            if name == "O3" and tier == "thorough":
                v, r, r2 = equiv(ta, tb, strict_done=1)
                res["pairs"].append({"cfg": "O3/strict-done", "args": args, "verdict": v, "detail": r[:1500], "detail2": r2[:600]})
    except Unsupported as e:
        res["status"] = "unsupported:" + str(e)
    except Exception as e:
        res["status"] = "tool-error:" + repr(e)[:200]
    return res


def collapse_diff(prog, rng, wd):
    """Codegen-only flag: binaries with different collapsed-range lengths must behave identically."""
    from nmfu_api import compile_program, nmfu
    import cdriver, inputs
    col = flag_name(nmfu, 9)
    variants = [["-O1", "-fno-" + col], ["-O1", "-f" + col, "--collapsed-range-length", "1"],
                ["-O1", "-f" + col, "--collapsed-range-length", "4"], ["-O1", "-f" + col, "--collapsed-range-length", "300"]]
    bins = []
    dfa = None
    for i, v in enumerate(variants):
        o = compile_program(prog["src"], v + prog["args"] + ["-findirect-start-ptr"])
        if not o.ok:
            return None
        dfa = o.dctx.dfa
        b, err = cdriver.build(o, os.path.join(wd, f"v{i}"))
        if b is None:
            return {"build_error": err, "variant": v}
        bins.append((v, b))
    datas = [inputs.random_walk(dfa, rng, rng.randint(1, 20)) for _ in range(12)] + inputs.extra(prog)
    reps, _ = inputs.byte_classes(dfa)
    datas += [bytes([r]) for r in reps[:24]]
    n = 0
    for d in datas:
        ops = ["start", "feedy:" + d.hex()] + (["end"] if prog["feats"].get("eof") else [])
        ref = None
        for v, b in bins:
            lines, status, err = b.run(ops)
            n += 1
            if ref is None:
                ref = (lines, status, v)
            elif (lines, status) != ref[:2]:
                return {"mismatch": True, "input": d.hex(), "variant_a": ref[2], "variant_b": v,
                        "trace_a": ref[0][-6:], "trace_b": lines[-6:], "status": [ref[1], status]}
    return {"runs": n}


def canon_trace(lines):
    """What must not depend on the optimisation level: the hook calls and yields in order — up to
    the one step of lag the certificate allows at the point where the input stops — and, once the
    program has finished (DONE / finish code), the final dump.  -> (events, terminal code, final dump)"""
    out = []
    for l in lines:
        head = l.split(" | ")[0].split()
        if not head:
            continue
        if head[0] == "hook":
            out.append("hook " + head[1])
        elif head[0] in ("feed", "end", "start"):
            if head[1].startswith("YIELD_"):
                out.append(head[1])
            elif head[1] in ("DONE", "FAIL") or head[1].startswith("FINISH_"):
                # calls after a terminal result are only specified for FAIL (C10): stop here
                return out, head[1], (l.split(" | ")[-1] if head[1] != "FAIL" else "")
    return out, None, ""


def traces_agree(a, b):
    ea, ta, fa = a
    eb, tb, fb = b
    if ta is not None and tb is not None:
        return ea == eb and ta == tb and fa == fb
    # at least one side is still waiting for input: the shorter event list is a prefix, at most a step behind
    short, long_ = (ea, eb) if len(ea) <= len(eb) else (eb, ea)
    return long_[:len(short)] == short and len(long_) - len(short) <= 2


def level_diff(prog, rng, wd):
    """The binaries built at -O0, -O2 and -O3 against the one built at -O1, on the same inputs."""
    from nmfu_api import compile_program
    import cdriver, inputs
    bins = []
    dfa = None
    for i, v in enumerate((["-O1"], ["-O0"], ["-O2"], ["-O3"])):
        o = compile_program(prog["src"], v + prog["args"] + ["-findirect-start-ptr"])
        if not o.ok:
            return None
        if dfa is None:
            dfa = o.dctx.dfa
        import rtdiff
        probs = rtdiff.decl_width_problems(o)
        if probs:
            # a level at which a declared type cannot hold what the code stores in it behaves differently from the others
            return {"mismatch": True, "input": "", "variant_a": ["-O1"], "variant_b": v, "declared_width": probs}
        b, err = cdriver.build(o, os.path.join(wd, f"l{i}"))
        if b is None:
            return {"build_error": err, "variant": v}
        bins.append((v, b))
    datas = [inputs.random_walk(dfa, rng, rng.randint(1, 24), p_follow=0.93) for _ in range(10)] + inputs.extra(prog)
    n = 0
    for d in datas:
        # (no end() for parsers that yield: a yield pending at end-of-input needs the re-invocation protocol)
        ops = ["start", "feedy:" + d.hex()] + (["end"] if prog["feats"].get("eof") and "-fyield-support" not in prog["args"] else [])
        ref = None
        for v, b in bins:
            lines, status, err = b.run(ops)
            n += 1
            key = (canon_trace(lines), status)
            if ref is None:
                ref = (key, v, lines)
            elif key[1] != ref[0][1] or not traces_agree(key[0], ref[0][0]):
                return {"mismatch": True, "input": d.hex(), "variant_a": ref[1], "variant_b": v,
                        "trace_a": ref[2][-6:], "trace_b": lines[-6:]}
    return {"runs": n}


def binary_stage(job):
    prog, seed, wd = job
    rng = random.Random(f"{seed}/{prog['name']}/c05bin")
    mywd = os.path.join(wd, "bin-" + str(os.getpid()))
    try:
        return prog, level_diff(prog, rng, mywd), collapse_diff(prog, rng, mywd)
    except Exception as e:
        return prog, None, None
    finally:
        shutil.rmtree(mywd, ignore_errors=True)


def confirm_on_c(prog, argsA, argsB, word, wd):
    """Replay a model-level witness on the two real binaries; compare hook names, final dump and codes."""
    from nmfu_api import compile_program
    import cdriver
    traces = []
    for i, a in enumerate((argsA, argsB)):
        o = compile_program(prog["src"], a + prog["args"] + ["-findirect-start-ptr"])
        if not o.ok:
            return {"confirmed": False, "why": "compile " + repr(o)}
        b, err = cdriver.build(o, os.path.join(wd, f"c{i}"))
        if b is None:
            return {"confirmed": False, "why": "build " + err[:300]}
        data = bytes(x for x in word if x < 256)
        ops = ["start"] + (["feedy:" + data.hex()] if data else []) + (["end"] if 256 in word and prog["feats"].get("eof") else [])
        lines, status, err = b.run(ops)
        traces.append((lines, status))
    def canon(t):
        lines, status = t
        hooks = [l.split(" | ")[0].split()[1] for l in lines if l.startswith("hook")]
        codes = [l.split()[1] for l in lines if l.split()[0] in ("feed", "end")]
        final = lines[-1].split(" | ", 1)[1] if lines and " | " in lines[-1] else ""
        return hooks, [c for c in codes if c != "OK"], final, status
    ca, cb = canon(traces[0]), canon(traces[1])
    return {"confirmed": ca != cb, "trace_a": traces[0][0][-8:], "trace_b": traces[1][0][-8:]}


def main():
    ck = Check("C05", "translation_validation")
    ck.lean_obligations("NmfuProps.C05", THEOREMS)
    ck.lean_obligations("NmfuProps.C05Opt", OPT_THEOREMS)
    ck.lean_obligations("NmfuProps.C05Remove", REMOVE_THEOREMS)
    n_gen = 150 if ck.tier == "quick" else 2500
    progs = list(population.population(ck.seed, n_gen))
    with mp.Pool(min(14, os.cpu_count() or 4), initializer=_init) as pool:
        results = pool.map(work, [(p, ck.tier) for p in progs], chunksize=4)
    byname = {p["name"]: p for p in progs}
    stats = {"programs": len(progs), "accepted": 0, "pairs": 0, "closed": 0, "closed_lastshift": 0,
             "rejected": 0, "unsupported": 0, "verdict_differs": 0, "maxlag_hist": {}}
    hist = {}
    distinct = set()
    wd = common.scratch_dir("c05")
    try:
        for r in results:
            if r["status"].startswith("rejected"):
                stats["rejected"] += 1
                continue
            if r["status"].startswith("unsupported"):
                stats["unsupported"] += 1
                continue
            if r["status"].startswith("excluded"):
                stats["excluded_known_spin"] = stats.get("excluded_known_spin", 0) + 1
                continue
            if r["status"].startswith("tool-error"):
                ck.notes.append({"tool_error": r["name"], "detail": r["status"]})
                continue
            stats["accepted"] += 1
            prog_r = byname[r["name"]]
            for c in r.get("chains", []):
                cs = stats.setdefault("pass_chains", {}).setdefault(c["cfg"], {"compilations": 0, "contiguous": 0, "whole_optimisation_by_theorem": 0, "starts_from_the_O0_machine": 0})
                cs["compilations"] += 1
                cs["contiguous"] += 1 if c["contiguous"] else 0
                cs["whole_optimisation_by_theorem"] += 1 if c["by_theorem"] else 0
                cs["starts_from_the_O0_machine"] += 1 if c.get("starts_from_O0_machine") else 0
                if not c["contiguous"]:
                    # something other than the mirrored passes changed the table between two snapshots
                    ck.notes.append({"pass_chain_gap": r["name"], "cfg": c["cfg"]})
            for j in r.get("passes", []):
                ps = stats.setdefault("pass_invocations", {}).setdefault(j["pass"], {
                    "observed": 0, "modifying": 0, "mirror_agrees": 0, "hypothesis_holds": 0, "by_theorem": 0, "by_certificate": 0})
                ps["observed"] += 1
                ps["modifying"] += 1 if j["mod"] else 0
                ps["mirror_agrees"] += 1 if j.get("same") else 0
                ps["hypothesis_holds"] += 1 if j.get("hyp") else 0
                ck.obligations += 1
                if j.get("same") and j.get("hyp"):
                    # the mirror reproduces the real pass on this invocation and the hypothesis of its preservation theorem
                    # holds on the snapshot (simplify: deterministic table, C05_simplify_else_preserves; remove: the kept
                    # set is closed under reference, C05_remove_states_preserves)
                    ps["by_theorem"] += 1
                    ck.discharged += 1
                    continue
                ev = j.get("equiv")
                if ev == "mismatch":
                    d = j.get("equiv_detail", "")
                    word = [int(x) for x in d.split("word=")[1].split(" sym=")[0].split()] if "word=" in d else []
                    sym = int(d.split(" sym=")[1].split()[0]) if " sym=" in d else None
                    ck.report(f"{population.src_hash(prog_r['src'])}/pass-{j['pass']}",
                              f"the {j['pass']} pass changed the behaviour of the machine of {r['name']} (witness word {word + ([sym] if sym is not None else [])})",
                              {"program": prog_r["src"], "args": prog_r["args"], "cfg": j["cfg"], "pass": j["pass"],
                               "witness_word": word + ([sym] if sym is not None else []), "checker": d, "driver": j.get("raw")})
                elif not j.get("same"):
                    bm = stats.setdefault("pass_mirror_breaks", {}).setdefault(j["pass"], [])
                    if len(bm) < 5:
                        bm.append({"program": r["name"], "src": prog_r["src"], "args": prog_r["args"], "cfg": j["cfg"],
                                   "driver": j.get("raw"), "before_vs_after": ev})
                    else:
                        bm.append(r["name"])
                else:
                    # hypothesis of the theorem not met on this table; the certificate closed for this invocation
                    ps["by_certificate"] += 1
                    if ev in ("closed", "closed-lastshift"):
                        ck.discharged += 1
                    else:
                        ck.notes.append({"pass_undecided": r["name"], "pass": j["pass"], "detail": j.get("equiv_detail", "")[:200]})
            for k, v in r["hist"].items():
                hist[k] = hist.get(k, 0) + v
            if r.get("states", 0) >= 3:
                distinct.add(population.src_hash(byname[r["name"]]["src"]))
            for pr in r["pairs"]:
                stats["pairs"] += 1
                v = pr["verdict"]
                if v == "closed" or v == "closed-lastshift":
                    stats["closed" if v == "closed" else "closed_lastshift"] += 1
                    ml = pr["detail"].split("maxlag=")[1].split()[0] if "maxlag=" in pr["detail"] else "?"
                    stats["maxlag_hist"][ml] = stats["maxlag_hist"].get(ml, 0) + 1
                    ck.obligations += 1
                    ck.discharged += 1
                    if len(ck.samples) < 6 and ml not in ("0", "?"):
                        ck.samples.append({"program": r["name"], "cfg": pr["cfg"], "result": pr["detail"][:160]})
                elif v == "verdict-differs":
                    stats["verdict_differs"] += 1
                    ck.notes.append({"verdict_differs": r["name"], "cfg": pr["cfg"], "detail": pr["detail"][:200]})
                elif v == "mismatch":
                    ck.obligations += 1
                    prog = byname[r["name"]]
                    word = [int(x) for x in pr["detail"].split("word=")[1].split(" sym=")[0].split()] if "word=" in pr["detail"] else []
                    sym = int(pr["detail"].split(" sym=")[1].split()[0]) if " sym=" in pr["detail"] else None
                    full = word + ([sym] if sym is not None else [])
                    conf = confirm_on_c(prog, ["-O0"], pr.get("args", ["-O3"]), full, wd) if pr["cfg"] != "O3:pre-vs-post" else {"confirmed": None}
                    ck.report(f"{population.src_hash(prog['src'])}/{pr['cfg']}",
                              f"machines of {r['name']} at -O0 and {pr['cfg']} are not trace-equivalent (witness word {full})",
                              {"program": prog["src"], "args": prog["args"], "cfg": pr["cfg"], "cfg_args": pr.get("args"),
                               "witness_word": full, "checker": pr["detail"], "tolerant": pr["detail2"], "c_replay": conf})
                else:
                    ck.notes.append({"checker_inconclusive": r["name"], "cfg": pr["cfg"], "detail": pr["detail"][:300]})
        for pname, bm in stats.get("pass_mirror_breaks", {}).items():
            # the Lean mirror of the pass no longer reproduces what the real pass does (and the machines before
            # and after the invocation were not shown to differ): the theorem about the mirror says nothing about
            # the real pass any more
            ck.broken_obligation(f"correspondence optpass/{pname}: Machine.{'simplifyElse' if pname == 'simplify' else 'removeInaccessible'} "
                                 f"(NmfuModel/Opt.lean) differs from DfaCompileCtx.{optpasses_name(pname)} on {len(bm)} invocation(s)",
                                 json.dumps(bm[:5])[:3000])
        # codegen-only flag, on binaries
        rng = random.Random(ck.seed)
        accepted = [byname[r["name"]] for r in results if r["status"] == "ok"]
        rng.shuffle(accepted)
        # (programs that carry directed inputs first, then corpus, then generated)
        accepted.sort(key=lambda p: 0 if p.get("inputs") else (1 if p.get("origin") == "corpus" else 2))
        ncol = 70 if ck.tier == "quick" else 400
        col_runs = 0
        lvl_runs = 0
        with mp.Pool(min(14, os.cpu_count() or 4)) as pool:
            bres = pool.map(binary_stage, [(p, ck.seed, wd) for p in accepted[:ncol]], chunksize=1)
        for prog, dl, dc in bres:
            if dl is not None:
                if dl.get("mismatch") or dl.get("build_error"):
                    ck.report(f"{population.src_hash(prog['src'])}/levels",
                              f"binaries of {prog['name']} built at different optimisation levels disagree",
                              {"program": prog["src"], "args": prog["args"], **dl})
                else:
                    lvl_runs += dl["runs"]
            if dc is not None:
                if dc.get("mismatch") or dc.get("build_error"):
                    ck.report(f"{population.src_hash(prog['src'])}/collapse",
                              f"binaries of {prog['name']} built with different collapsed-range settings disagree",
                              {"program": prog["src"], "args": prog["args"], **dc})
                else:
                    col_runs += dc["runs"]
        stats["collapse_binary_runs"] = col_runs
        stats["level_binary_runs"] = lvl_runs
    finally:
        shutil.rmtree(wd, ignore_errors=True)
    if not ck.samples:
        ck.samples.append({"note": "all certificates closed with empty lag", "programs": stats["accepted"]})
    ck.finish({"programs": stats["accepted"], "disagreements_checked": stats["pairs"],
               "evaluations": stats["pairs"], "distinct_nontrivial": len(distinct),
               "rule": "corpus + generated programs accepted at -O0; distinct by source hash, non-trivial = at least 3 machine states; each compared against every optimisation configuration",
               "stats": stats, "statement_histogram": hist,
               "acceptance_rate": round(stats["accepted"] / max(1, stats["programs"]), 3)})


if __name__ == "__main__":
    main()
