"""Shared driver for the checks that compare the compiled machine with the Lean reference
semantics (C01, C07, C08, C09, C16): export the source independently, export the machine from the
real compiler, and run the `refine` command of the model driver."""
import os, sys, signal
from nmfu_api import compile_program
from export import export_machine, Unsupported as MUnsupported
import srcexport

_model = None


def model():
    global _model
    if _model is None:
        from modeldrv import Model
        _model = Model()
    return _model


def refine(src, args, timeout=60, strict_done=0, subst_last=0, limit=200000, compile_budget=10):
    """-> dict(status = closed | closed-relaxed | mismatch | rejected | unsupported | timeout | fuel | error, detail)"""
    # nmfu's own regex minimisation is exponential on some inputs: bound the compile
    class _Slow(BaseException):
        pass

    def _alarm(*_):
        raise _Slow()
    old = signal.signal(signal.SIGALRM, _alarm)
    signal.alarm(compile_budget)
    try:
        o = compile_program(src, args, codegen=True)
    except _Slow:
        return {"status": "unsupported", "detail": f"compile time budget ({compile_budget}s) exceeded"}
    finally:
        signal.alarm(0)
        signal.signal(signal.SIGALRM, old)
    if not o.ok:
        return {"status": "rejected", "detail": o.kind + ": " + o.msg.split("\n")[0][:160], "kind": o.kind}
    try:
        ps = srcexport.export_source(src)
    except srcexport.Unsupported as e:
        return {"status": "unsupported", "detail": "source exporter: " + str(e)}
    except Exception as e:
        return {"status": "unsupported", "detail": "source exporter error: " + repr(e)[:160]}
    try:
        mt = export_machine(o.dctx)
    except MUnsupported as e:
        return {"status": "unsupported", "detail": "machine exporter: " + str(e)}
    r = model().ask("refine", strict_done, subst_last, limit, ps, mt, timeout=timeout)
    st = r.split()[0] if r else "error"
    if st in ("closed", "closed-relaxed") and "cert=true" not in r:
        st = "certfail"
    out = {"status": st, "detail": r[:1500], "nstates": len(o.dctx.dfa.states)}
    if st == "mismatch-machine-spins":
        st = out["status"] = "mismatch"
        out["machine_spins"] = True
    if st == "mismatch":
        try:
            w = r.split("word=")[1].split(" sym=")[0].split()
            out["word"] = [int(x) for x in w] + [int(r.split(" sym=")[1].split()[0])]
        except Exception:
            out["word"] = None
    return out
