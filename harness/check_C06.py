"""
C06 — emitted C executes exactly the compiled state machine.

Lean side: NmfuProps/C06.lean (the runtime model's step *is* the machine step, for every machine,
state, symbol and store).  Tie: for each program x option set the compiled binary is forced into
every state and fed every byte-class representative (and `end`), in several data contexts, and
its return code, cursor, outputs and hook calls are compared with the Lean runtime model run on
the machine exported from the same compilation; plus multi-byte random walks.
A difference is a concrete failing (state, symbol, data) triple: the replay.
"""
import json, sys, os, random, shutil, multiprocessing as mp
sys.path.insert(0, os.path.dirname(os.path.abspath(__file__)))
import common
from common import Check
import population

THEOREMS = ["Nmfu.C06_step_is_machine_step", "Nmfu.C06_first_match_wins", "Nmfu.C06_end_uses_end_arm",
            "Nmfu.runTree_eq_run"]

OPTSETS = [
    ("default", []),
    ("collapsed-ranges", ["-fcollapse-transition-ranges", "--collapsed-range-length", "2"]),
    ("indirect+strict", ["-findirect-start-ptr", "-fstrict-done-token-generation"]),
    ("dynamic+u8", ["-fallocate-str-space-dynamic", "-fstrings-as-u8"]),
    ("O3+collapse1", ["-O3", "--collapsed-range-length", "1", "-findirect-start-ptr"]),
    ("O2+zero-len", ["-O2", "-fzero-len-input-support"]),
]


def contexts(case):
    """Data contexts: operations setting every scalar / string before the forced step."""
    from nmfu_api import nmfu
    T = nmfu.OutputStorageType
    ctxs = [[]]
    for val, fill in ((1, "full"), (0, "almost"), (7, "empty")):
        ops = []
        for i, o in enumerate(case.outs):
            if o.type in (T.INT, T.BOOL):
                ops.append(f"seti:{i}:{1 if (o.type == T.BOOL and val) else val}")
            elif o.type == T.ENUM:
                ops.append(f"seti:{i}:{val % max(1, len(o.enum_values))}")
            elif o.type == T.STR:
                cap = o.str_size - 1 if o.str_null else o.str_size
                n = {"full": cap, "almost": max(0, cap - 1), "empty": 0}[fill]
                ops.append(f"sets:{i}:{(b'a' * n).hex()}")
        ctxs.append(ops)
    return ctxs


def split_segments(lines):
    segs = []
    for l in lines:
        if l.startswith("start ") or not segs:
            segs.append([])
        segs[-1].append(l)
    return segs


def decl_probs(prog, oargs):
    """declared widths at -O0 (unreachable states are kept and numbered) and at -O1"""
    import rtdiff
    from nmfu_api import compile_program
    out = []
    for lvl in ("-O0", "-O1"):
        o = compile_program(prog["src"], [lvl] + prog["args"] + oargs)
        if o.ok:
            out += [f"{lvl}: {p}" for p in rtdiff.decl_width_problems(o)]
    return out


def work(job):
    import rtdiff, inputs
    prog, optsets, seed, wd_root = job
    rng = random.Random(f"{seed}/{prog['name']}")
    res = {"name": prog["name"], "cases": 0, "steps": 0, "walks": 0, "diffs": [], "status": "ok", "ub_segments": 0}
    for oname, oargs in optsets:
        wd = os.path.join(wd_root, f"{os.getpid()}")
        shutil.rmtree(wd, ignore_errors=True)
        case = rtdiff.Case(prog, ["-O1"] + prog["args"] + oargs, wd)
        if not case.ok:
            if case.why.startswith("build:"):
                res["diffs"].append({"kind": "build", "opt": oname, "detail": case.why[:600]})
            elif case.why.startswith("rejected") and oname == "default":
                res["status"] = case.why
                break
            continue
        for prob in decl_probs(prog, oargs):
            res["diffs"].append({"kind": "declared-width", "opt": oname, "detail": prob})
        if case.known_spin():
            res["status"] = "excluded:spin-through-outofspace-redirect (the finding recorded under C04)"
            break
        res["cases"] += 1
        res["states"] = case.nstates
        reps, _ = inputs.byte_classes(case.dfa)
        if len(optsets) > 4 and case.nstates <= 24:
            # thorough tier, small machine: every byte, not a representative of each class
            reps = list(range(256))
        elif len(reps) > 40:
            reps = rng.sample(reps, 40)
        ctxs = contexts(case)
        on_demand = case.flags["ALLOCATE_STR_SPACE_DYNAMIC_ON_DEMAND"]
        if on_demand:
            ctxs = [c for c in ctxs if not any(o.startswith("sets") for o in c)] or [[]]
        states = list(range(case.nstates))
        if len(states) > 60:
            states = rng.sample(states, 60)
        ops = []
        verb = "feed"
        for s in states:
            for ctx in ctxs:
                for b in reps:
                    ops += ["start"] + ctx + [f"force:{s}", f"{verb}:{b:02x}"]
                if case.eof():
                    ops += ["start"] + ctx + [f"force:{s}", "end"]
        # random walks
        for data in [inputs.random_walk(case.dfa, rng, rng.randint(1, 30)) for _ in range(12)] + inputs.extra(prog):
            ops += rtdiff.feed_ops(case, data)
            res["walks"] += 1
        clines, status, err = case.run_c(ops, timeout=60)
        mlines = case.run_model(ops)
        if status != "ok":
            res["diffs"].append({"kind": "binary-" + status, "opt": oname, "detail": err[-400:], "tail": clines[-3:]})
            continue
        cs, ms = rtdiff.segments(clines), rtdiff.segments(mlines)
        res["steps"] += len(cs)
        if len(cs) != len(ms):
            res["diffs"].append({"kind": "segments", "opt": oname, "detail": f"{len(cs)} vs {len(ms)}"})
            continue
        # map segment index back to ops
        seg_ops = []
        for o in ops:
            if o == "start":
                seg_ops.append([])
            seg_ops[-1].append(o)
        for k, (c, m) in enumerate(zip(cs, ms)):
            if rtdiff.model_ub(m):
                res["ub_segments"] += 1
            d = rtdiff.compare(c, m)
            if d is not None:
                res["diffs"].append({"kind": d[0], "opt": oname, "args": case.args, "ops": seg_ops[k],
                                     "binary": c, "model": m, "first": [d[2], d[3]]})
                if len(res["diffs"]) > 3:
                    break
        shutil.rmtree(wd, ignore_errors=True)
    return res


EXAMPLE_SRC = ('out str[3] s;\nhook full;\nparser {\n  try { s += /a+/; ";"; } catch (outofspace) { full(); wait ";"; }\n  "!";\n}\n')


def example_still_current():
    """lean/NmfuProps/Examples.lean transcribes the machine nmfu compiles from EXAMPLE_SRC (the
    non-vacuity examples of the runtime theorems): compare a fresh export with the transcription."""
    from nmfu_api import compile_program
    from export import export_machine
    o = compile_program(EXAMPLE_SRC, ["-O1", "-feof-support"])
    if not o.ok:
        return False, "example program no longer accepted: " + o.kind
    want = open(os.path.join(os.path.dirname(os.path.abspath(__file__)), "example_machine.txt")).read().split()
    got = export_machine(o.dctx).split()
    return got == want, "" if got == want else "fresh export differs from the transcribed machine"


def main():
    ck = Check("C06", "proof")
    ck.lean_obligations("NmfuProps.C06", THEOREMS)
    # the test emitted for one transition: mirror (condChecks) vs the real generator, and the theorem about the mirror
    ck.lean_obligations("NmfuProps.C06Cond", ["Nmfu.C06_condition_is_membership", "Nmfu.runs_covers", "Nmfu.runChecks_test"])
    import condgen
    from modeldrv import Model
    cm = Model()
    cst, cbreaks, cfailing = condgen.run(cm, ck.seed, 600 if ck.tier == "quick" else 12000)
    cm.close()
    ck.coverage["condition_generator"] = cst
    ck.obligations += cst["cases"]
    ck.discharged += cst["mirror_agrees"]
    for f in cfailing[:5]:
        ck.report(f"condition/{f['length']}/{f['byte']}",
                  f"the test emitted for a transition listing {len(f['values'])} values (collapsed-range length {f['length']}, collapsing {'on' if f['collapse'] else 'off'}) "
                  f"{'holds of' if f['emitted_test_holds'] else 'does not hold of'} byte {f['byte']}, which the transition {'lists' if f['listed'] else 'does not list'}", f)
    if cbreaks:
        ck.broken_obligation(f"correspondence condgen: condChecks (NmfuModel/CondGen.lean) differs from CodegenCtx._generate_condition_for_transition on {len(cbreaks)} of {cst['cases']} value sets",
                             json.dumps(cbreaks[:3])[:3000])
    cur, why = example_still_current()
    ck.coverage["example_machine_current"] = cur
    if not cur:
        ck.notes.append({"stale_example": "NmfuProps/Examples.lean: " + why + " (the examples still hold of the transcribed machine, but it is no longer what nmfu produces)"})
    n_gen = 40 if ck.tier == "quick" else 600
    optsets = OPTSETS[:4] if ck.tier == "quick" else OPTSETS
    progs = list(population.population(ck.seed, n_gen))
    wd = common.scratch_dir("c06")
    try:
        with mp.Pool(min(14, os.cpu_count() or 4)) as pool:
            results = pool.map(work, [(p, optsets, ck.seed, wd) for p in progs], chunksize=1)
    finally:
        shutil.rmtree(wd, ignore_errors=True)
    byname = {p["name"]: p for p in progs}
    st = {"programs": 0, "cases": 0, "single_steps_and_walk_segments": 0, "walks": 0, "ub_segments": 0, "rejected": 0}
    distinct = set()
    for r in results:
        if r["status"].startswith("excluded"):
            st["excluded_known_spin"] = st.get("excluded_known_spin", 0) + 1
            continue
        if r["status"] != "ok":
            st["rejected"] += 1
            continue
        st["programs"] += 1
        st["cases"] += r["cases"]
        st["single_steps_and_walk_segments"] += r["steps"]
        st["walks"] += r["walks"]
        st["ub_segments"] += r["ub_segments"]
        if r.get("states", 0) >= 3:
            distinct.add(population.src_hash(byname[r["name"]]["src"]))
        for d in r["diffs"]:
            prog = byname[r["name"]]
            ck.report(f"{population.src_hash(prog['src'])}/{d.get('opt')}/{d['kind']}",
                      f"generated C of {r['name']} ({d.get('opt')}) and the machine model disagree: {d.get('first', d.get('detail'))}",
                      {"program": prog["src"], "args": d.get("args", prog["args"]), **d})
        if len(ck.samples) < 3 and r["steps"]:
            ck.samples.append({"program": r["name"], "option_sets": r["cases"], "segments_compared": r["steps"]})
    ck.finish({"evaluations": st["single_steps_and_walk_segments"], "distinct_nontrivial": len(distinct),
               "traces_validated_against_impl": st["single_steps_and_walk_segments"],
               "rule": "every (state, byte-class representative [thorough, machines up to 24 states: every byte] or end, data context) of every accepted program under each option set, plus 12 random walks; distinct programs by source hash with at least 3 states",
               "stats": st})


if __name__ == "__main__":
    main()
