"""
Type-directed generator of nmfu programs (mostly valid) over a small alphabet.
Every random choice comes from one random.Random(seed).

gen_program(rng, **features) -> (source text, meta dict)
The compiler decides acceptance; callers record the acceptance rate and statement histogram.
"""
import random

ALPHA = "abcdxy01 "


class G:
    def __init__(self, rng, feats):
        self.r = rng
        self.f = feats
        self.hist = {}
        self.outs = []     # (kind, name, extra)
        self.hooks = []
        self.fcodes = []
        self.ycodes = []
        self.loops = []
        self.depth = 0

    def note(self, k):
        self.hist[k] = self.hist.get(k, 0) + 1

    # ------------------------------------------------------------ declarations
    def decls(self):
        r = self.r
        lines = []
        n_int = r.choice([0, 1, 1, 2])
        for i in range(n_int):
            attrs = []
            if r.random() < 0.4:
                attrs.append(r.choice(["signed", "unsigned"]))
            if r.random() < 0.4:
                attrs.append("size " + str(r.choice([1, 2, 4, 8])))
            a = ("{" + ", ".join(attrs) + "}") if attrs else ""
            d = f" = {r.randint(0, 9)}" if r.random() < 0.3 else ""
            name = f"i{i}"
            lines.append(f"out int{a} {name}{d};")
            self.outs.append(("int", name, None))
        if r.random() < 0.4:
            d = r.choice(["", " = true", " = false"])
            lines.append(f"out bool b0{d};")
            self.outs.append(("bool", "b0", None))
        if r.random() < 0.3:
            lines.append("out enum{EA,EB,EC} e0;")
            self.outs.append(("enum", "e0", ["EA", "EB", "EC"]))
        n_str = r.choice([0, 1, 1, 2]) if self.f.get("strings", True) else 0
        for i in range(n_str):
            size = r.choice([2, 3, 4, 6, 9])
            unterm = r.random() < 0.3
            name = f"s{i}"
            d = ""
            if r.random() < 0.25:
                dv = self.lit_text(r.randint(0, size - 1 if not unterm else size))
                d = f' = "{dv}"'
            lines.append(f"out {'unterminated ' if unterm else ''}str[{size}] {name}{d};")
            self.outs.append(("str", name, (size, not unterm)))
        if self.f.get("raw", False) and r.random() < 0.3:
            lines.append("out raw{uint32_t} r0;")
            self.outs.append(("raw", "r0", 4))
        if self.f.get("hooks", True):
            for i in range(r.choice([0, 1, 2])):
                lines.append(f"hook h{i};")
                self.hooks.append(f"h{i}")
        if r.random() < 0.4:
            lines.append("finishcode F0;")
            self.fcodes.append("F0")
        if self.f.get("yields", False):
            lines.append("yieldcode Y0, Y1;")
            self.ycodes += ["Y0", "Y1"]
        return lines

    def outs_of(self, kind):
        return [o for o in self.outs if o[0] == kind]

    # ------------------------------------------------------------ patterns
    def lit_text(self, n=None):
        r = self.r
        if n is None:
            n = r.choice([1, 1, 2, 2, 3])
        return "".join(r.choice(ALPHA) for _ in range(n))

    def regex(self):
        r = self.r

        def atom(d):
            k = r.random()
            if k < 0.35:
                return r.choice("abcdxy01")
            if k < 0.5:
                return "[" + "".join(sorted(set(r.choice("abcdxy01") for _ in range(r.randint(1, 3))))) + "]"
            if k < 0.58:
                return "[^" + "".join(sorted(set(r.choice("abcd01") for _ in range(r.randint(1, 2))))) + "]"
            if k < 0.66:
                return r.choice(["\\d", "\\w", "\\s"])
            if k < 0.7:
                return "[a-c]"
            if k < 0.74 and self.f.get("dot", True):
                return "."
            if d < 1 and r.random() < 0.5:
                return "(" + alt(d + 1) + ")"
            return r.choice("abcd")

        def piece(d):
            a = atom(d)
            k = r.random()
            if k < 0.72:
                return a
            if k < 0.78:
                return a + "?"
            if k < 0.8:
                return a + "+"
            if k < 0.88:
                return a + "*"
            if k < 0.94:
                return a + "{2}"
            return a + "{1,2}"

        def seq(d):
            return "".join(piece(d) for _ in range(r.choice([1, 1, 2, 2, 3] if d == 0 else [1, 1, 2])))

        def alt(d):
            if r.random() < 0.25:
                return seq(d) + "|" + seq(d)
            return seq(d)
        return "/" + alt(0) + "/"

    def match_expr(self, allow_end=True):
        r = self.r
        k = r.random()
        if k < 0.45:
            self.note("m_lit")
            return '"' + self.lit_text() + '"'
        if k < 0.55:
            self.note("m_casei")
            return '"' + self.lit_text() + '"i'
        if k < 0.62:
            self.note("m_bin")
            t = self.lit_text()
            return '"' + " ".join(f"{ord(c):02x}" for c in t) + '"b'
        if k < 0.9:
            self.note("m_regex")
            return self.regex()
        if k < 0.95 and self.f.get("eof", False) and allow_end:
            self.note("m_end")
            return "end"
        self.note("m_concat")
        return "(" + " ".join(self.match_expr(False) for _ in range(2)) + ")"

    # ------------------------------------------------------------ math
    def math(self, d=0, want_bool=False, no_last=False):
        r = self.r
        if no_last:
            old = self.f.get("last", True)
            self.f["last"] = False
            try:
                return self.math(d, want_bool)
            finally:
                self.f["last"] = old
        ints = self.outs_of("int")
        strs = self.outs_of("str")

        def atom():
            k = r.random()
            if k < 0.3 or (not ints and not strs and k < 0.7):
                return str(r.choice([0, 1, 2, 3, 7, 10, 48, 255]))
            if k < 0.55 and ints:
                return r.choice(ints)[1]
            if k < 0.65 and strs:
                return r.choice(strs)[1] + ".len"
            if k < 0.72 and strs:
                return r.choice(strs)[1] + "[" + str(r.randint(0, 3)) + "]"
            if k < 0.8 and self.f.get("last", True):
                return "$last"
            if k < 0.85:
                return "'" + r.choice("ab0 ") + "'"
            if d < 2:
                return "(" + self.math(d + 1) + ")"
            return "1"
        if want_bool:
            op = r.choice(["==", "!=", "<", ">", "<=", ">="])
            e = f"({self.math(d + 1)}) {op} ({self.math(d + 1)})"
            if r.random() < 0.2 and d < 1:
                e = f"{e} {r.choice(['&&', '||'])} {self.math(d + 1, True)}"
            return e
        k = r.random()
        if k < 0.4 or d >= 2:
            return atom()
        if k < 0.75:
            return f"{atom()} {r.choice(['+', '-', '*'])} {atom()}"
        if k < 0.85:
            return f"{atom()} {r.choice(['&', '|', '^'])} {atom()}"
        if k < 0.92:
            return f"{atom()} {r.choice(['/', '%'])} {r.choice(['2', '3', '10'])}"
        return f"{atom()} << {r.randint(0, 3)}"

    # ------------------------------------------------------------ statements
    def action_stmt(self, in_loop=False):
        r = self.r
        opts = []
        for o in self.outs:
            opts.append(("assign", o))
        for o in self.outs:
            if o[0] in ("str", "raw"):
                opts += [("appendc", o), ("delete", o)]
        for h in self.hooks:
            opts += [("hook", h), ("hook", h)]
        if self.ycodes and r.random() < 0.5:
            opts.append(("yield", r.choice(self.ycodes)))
        if not opts:
            return None
        k, o = r.choice(opts)
        if k == "assign":
            kind, name, extra = o
            if kind == "int":
                self.note("a_int")
                if r.random() < 0.3:
                    return f"{name} = {r.randint(0, 300)};"
                return f"{name} = [{self.math()}];"
            if kind == "bool":
                self.note("a_bool")
                if r.random() < 0.5:
                    return f"{name} = {r.choice(['true', 'false'])};"
                return f"{name} = [{self.math(want_bool=True)}];"
            if kind == "enum":
                self.note("a_enum")
                return f"{name} = {r.choice(extra)};"
            if kind == "str":
                self.note("a_str")
                size, term = extra
                cap = size - 1 if term else size
                n = r.randint(0, cap) if r.random() < 0.9 else cap + 1
                return f'{name} = "{self.lit_text(n)}";'
            if kind == "raw":
                return f"delete {name};"
        if k == "appendc":
            self.note("a_appendc")
            return f"{o[1]} += [{self.math()}];"
        if k == "delete":
            self.note("a_delete")
            return f"delete {o[1]};"
        if k == "hook":
            self.note("a_hook")
            return f"{o}();"
        if k == "yield":
            self.note("a_yield")
            return f"yield {o};"

    def stmt(self, depth):
        r = self.r
        k = r.random()
        strs = self.outs_of("str")
        if k < 0.30 or depth >= 2:
            self.note("s_match")
            return [self.match_expr() + ";"]
        if k < 0.42:
            a = self.action_stmt()
            if a:
                return [a]
            return [self.match_expr() + ";"]
        if k < 0.50 and strs:
            self.note("s_append")
            return [f"{r.choice(strs)[1]} += {self.match_expr(False)};"]
        if k < 0.54:
            self.note("s_wait")
            return [f"wait {self.match_expr(False)};"]
        if k < 0.64:
            self.note("s_case")
            n = r.randint(1, 3)
            lines = ["case {"]
            firsts = r.sample("abcdxy01", 6)
            for i in range(n):
                ps = []
                for j in range(r.choice([1, 1, 2])):
                    f0 = firsts[2 * i + j]
                    kk = r.random()
                    if kk < 0.5:
                        ps.append('"' + f0 + self.lit_text(r.randint(0, 2)) + '"')
                    elif kk < 0.8:
                        ps.append("/" + f0 + self.regex()[1:])
                    else:
                        ps.append(self.match_expr(False))
                pats = ", ".join(ps)
                lines.append(f"  {pats} -> {{")
                lines += ["    " + x for x in self.block(depth + 1, r.randint(0, 2))]
                lines.append("  }")
            if r.random() < 0.5:
                lines.append("  else -> {")
                lines += ["    " + x for x in self.block(depth + 1, r.randint(0, 2))]
                lines.append("  }")
            lines.append("}")
            return lines
        if k < 0.70:
            self.note("s_optional")
            first = '"' + self.lit_text(r.randint(1, 2)) + '"' if r.random() < 0.6 else "/" + r.choice("abcdxy01") + self.regex()[1:]
            return ["optional {", "  " + first + ";"] + ["  " + x for x in self.block(depth + 1, r.randint(0, 2))] + ["}"]
        if k < 0.79:
            self.note("s_loop")
            name = f"L{len(self.loops)}"
            self.loops.append(name)
            body = self.block(depth + 1, r.randint(1, 2), must_match=True)
            # a way out: a case with a break
            brk = ["case {", f'  "{r.choice(";.")}" -> {{ break{" " + name if r.random() < 0.3 else ""}; }}',
                   f"  {self.match_expr(False)} -> {{", *["    " + x for x in self.block(depth + 2, r.randint(0, 1))], "  }", "}"]
            self.loops.pop()
            if r.random() < 0.6:
                return [f"loop {name} {{"] + ["  " + x for x in brk] + ["}"]
            # (no dead code after an unconditional finish: nmfu uses what follows a finish to decide
            #  which byte triggers it, the reference finishes at once)
            body = [l for l in body if not l.startswith("finish")]
            return [f"loop {name} {{"] + ["  " + x for x in body + brk] + ["}"]
        if k < 0.87:
            self.note("s_try")
            opt = r.choice(["", "", "(nomatch)", "(outofspace)", "(nomatch, outofspace)"])
            body = self.block(depth + 1, r.randint(1, 3), must_match=True)
            h = self.block(depth + 1, r.randint(0, 2))
            return ["try {"] + ["  " + x for x in body] + [f"}} catch {opt} {{"] + ["  " + x for x in h] + ["}"]
        if k < 0.92 and (strs or self.outs_of("int")):
            self.note("s_foreach")
            acts = []
            for _ in range(r.randint(1, 2)):
                if strs and r.random() < 0.5:
                    acts.append(f"{r.choice(strs)[1]} += [$last];")
                elif self.outs_of("int"):
                    nm = r.choice(self.outs_of("int"))[1]
                    acts.append(f"{nm} = [{nm} * 10 + ($last - '0')];")
                elif self.hooks:
                    acts.append(f"{r.choice(self.hooks)}();")
            if not acts:
                return [self.match_expr() + ";"]
            if r.random() < 0.3:
                # conditional per-byte actions (an `if` over actions in the do-block, possibly with an else branch)
                self.note("s_foreach_cond")
                conds = ["$last != '_'", "$last >= 'a'", "$last == '0'", "$last < 'x'"]
                if self.outs_of("int"):
                    conds.append(f"{r.choice(self.outs_of('int'))[1]} < 100")
                k2 = r.randint(1, len(acts))
                wrapped = [f"if {r.choice(conds)} {{"] + ["  " + a for a in acts[:k2]] + ["}"]
                if r.random() < 0.4 and self.hooks:
                    wrapped += ["else {", f"  {r.choice(self.hooks)}();", "}"]
                acts = wrapped + acts[k2:]
            if self.loops and r.random() < 0.6:
                # the body leaves an enclosing loop: the do-block belongs to the bytes the foreach reads, not to what follows the loop
                self.note("s_foreach_break")
                body = ["case {", f"  /[{r.choice(['a-z', '0-9', 'a-c'])}]/ -> {{}}", f'  "{r.choice(";.")}" -> {{ break; }}', "}"]
                return ["foreach {"] + ["  " + x for x in body] + ["} do {"] + ["  " + a for a in acts] + ["}"]
            inner = self.match_expr(False)
            if r.random() < 0.25:
                inner = "wait " + inner
            return ["foreach {", "  " + inner + ";", "} do {"] + ["  " + a for a in acts] + ["}"]
        if self.outs:
            self.note("s_if")
            lines = [f"if {self.math(want_bool=True, no_last=True)} {{"] + ["  " + x for x in self.block(depth + 1, r.randint(1, 2))] + ["}"]
            if r.random() < 0.3:
                lines += [f"elif {self.math(want_bool=True, no_last=True)} {{"] + ["  " + x for x in self.block(depth + 1, 1)] + ["}"]
            if r.random() < 0.5:
                lines += ["else {"] + ["  " + x for x in self.block(depth + 1, r.randint(1, 2))] + ["}"]
            return lines
        return [self.match_expr() + ";"]

    def block(self, depth, n, must_match=False):
        lines = []
        for _ in range(n):
            lines += self.stmt(depth)
        if must_match and not any(self._is_match_line(l) for l in lines):
            lines.insert(0, self.match_expr(False) + ";")
        if self.r.random() < 0.06 and depth > 0:
            lines.append(self.r.choice(["finish;"] + [f"finish {c};" for c in self.fcodes]))
        return lines

    @staticmethod
    def _is_match_line(l):
        s = l.strip()
        return s.startswith('"') or s.startswith("/") or s.startswith("(") or s.startswith("wait") or "+= \"" in s or "+= /" in s

    def program(self):
        d = self.decls()
        body = self.block(0, self.r.randint(1, 4))
        if not body:
            body = ['"a";']
        return "\n".join(d + ["parser {"] + ["  " + x for x in body] + ["}"]) + "\n"


def gen_program(rng, **feats):
    g = G(rng, feats)
    src = g.program()
    return src, {"hist": g.hist, "hooks": g.hooks, "outs": g.outs, "fcodes": g.fcodes, "ycodes": g.ycodes}


def feature_args(feats):
    a = []
    if feats.get("eof"):
        a.append("-feof-support")
    if feats.get("yields"):
        a.append("-fyield-support")
    return a


if __name__ == "__main__":
    import sys
    seed = int(sys.argv[1]) if len(sys.argv) > 1 else 1
    src, meta = gen_program(random.Random(seed), eof=True, yields=seed % 2 == 0)
    print(src)
