"""
Run registered checks against seeded changes (kept under /verif/seeded/<property>/<n>/).

  seedrun.py import /tmp/seeded-C05        copy a sub-agent's output into /verif/seeded/C05/
  seedrun.py run C05 [n] [--checks C05,C06] [--tier quick]
        git apply the patch to /repo, run the checks, record the outcome in result.json, undo.
Never commits anything in /repo; refuses to start if /repo is dirty.
"""
import sys, os, json, subprocess, shutil, glob, time

VERIF = os.path.dirname(os.path.dirname(os.path.abspath(__file__)))
REPO = "/repo"


def sh(cmd, **kw):
    return subprocess.run(cmd, shell=True, capture_output=True, text=True, **kw)


def do_import(src):
    pid = os.path.basename(src.rstrip("/")).split("-")[-1]
    for d in sorted(glob.glob(os.path.join(src, "[0-9]*"))):
        n = os.path.basename(d)
        dst = os.path.join(VERIF, "seeded", pid, n)
        os.makedirs(dst, exist_ok=True)
        for f in os.listdir(d):
            p = os.path.join(d, f)
            if os.path.isfile(p) and os.path.getsize(p) < 200000 and not f.endswith((".o", ".out")) and "." in f:
                shutil.copy(p, os.path.join(dst, f))
        demo = os.path.join(dst, "demonstration.md")
        if os.path.exists(demo):
            os.rename(demo, os.path.join(dst, "demonstration"))
        print("imported", dst)


def run(pid, only=None, checks=None, tier="quick"):
    if sh("git -C /repo status --porcelain").stdout.strip():
        sys.exit("refusing: /repo has uncommitted changes")
    for d in sorted(glob.glob(os.path.join(VERIF, os.environ.get("SEED_DIR", "seeded"), pid, "[0-9]*"))):
        n = os.path.basename(d)
        if only and n != only:
            continue
        patch = os.path.join(d, "patch.diff")
        a = sh(f"git -C /repo apply --whitespace=nowarn {patch}")
        if a.returncode != 0:
            a = sh(f"git -C /repo apply --3way --whitespace=nowarn {patch}")
        res = {"applied": a.returncode == 0, "checks": {}}
        if a.returncode != 0:
            res["apply_error"] = a.stderr[-500:]
            sh("git -C /repo reset -q && git -C /repo checkout -- .")
        else:
            try:
                rdir = os.path.join(d, "replays")
                shutil.rmtree(rdir, ignore_errors=True)
                os.makedirs(rdir, exist_ok=True)
                for c in (checks or [pid]):
                    t = time.time()
                    r = sh(f"cd {VERIF} && VERIF_REPLAYS={rdir} timeout 1500 ./check {c} --tier {tier}")
                    lines = [l for l in r.stdout.splitlines() if l.startswith(("VIOLATION", "KNOWN-FINDING", "OK ", "TOOL-ERROR"))]
                    res["checks"][c] = {"exit": r.returncode, "violations": sum(l.startswith("VIOLATION") for l in lines),
                                        "first": [l[:300] for l in lines if l.startswith("VIOLATION")][:3],
                                        "no_failing_input": any("no-failing-input-found" in l for l in lines),
                                        "wall": round(time.time() - t, 1), "tail": r.stdout[-300:] if r.returncode not in (0, 1) else ""}
                    print(pid, n, c, "exit", r.returncode, "violations", res["checks"][c]["violations"], flush=True)
            finally:
                sh("git -C /repo reset -q && git -C /repo checkout -- .")
        # keep the replay files the recorded VIOLATION lines name, drop the rest
        keep = {w.split("replay=")[1].split()[0] for v in res["checks"].values() for w in v.get("first", []) if "replay=" in w}
        for f in glob.glob(os.path.join(d, "replays", "*")):
            if f not in keep:
                os.unlink(f)
        res["detected"] = any(v["exit"] == 1 and v["violations"] > 0 for v in res["checks"].values())
        json.dump(res, open(os.path.join(d, "result.json"), "w"), indent=1)
    sh(f"git -C {VERIF} checkout -- lean/NmfuModel/Generated")


def summary():
    rows = []
    for f in sorted(glob.glob(os.path.join(VERIF, os.environ.get("SEED_DIR", "seeded"), "*", "*", "result.json"))):
        d = json.load(open(f))
        pid, n = f.split(os.sep)[-3:-1]
        m = json.load(open(f.replace("result.json", "meta.json")))
        by = [c for c, v in d["checks"].items() if v["exit"] == 1 and v["violations"] > 0]
        rows.append((pid, n, "yes (" + ", ".join(by) + ")" if by else ("patch does not apply" if not d["applied"] else "NO"),
                     (m.get("summary") or "")[:150].replace("|", "/")))
    out = ["# Seeded changes and what the registered checks said", "",
           "Each change keeps the 138 tests green and breaks its property (see `demonstration` next to the patch).",
           "`detected` = the quick tier of the listed check exits 1 with a VIOLATION line while the patch is applied to /repo.", "",
           "| property | n | detected | change |", "|---|---|---|---|"]
    out += [f"| {a} | {b} | {c} | {d} |" for a, b, c, d in rows]
    det = sum(1 for r in rows if r[2].startswith("yes"))
    out += ["", f"{det} of {len(rows)} detected."]
    open(os.path.join(VERIF, os.environ.get("SEED_DIR", "seeded"), "SUMMARY.md"), "w").write("\n".join(out) + "\n")
    print(f"{det} of {len(rows)} detected")


if __name__ == "__main__":
    if sys.argv[1] == "summary":
        summary()
    elif sys.argv[1] == "import":
        do_import(sys.argv[2])
    else:
        args = sys.argv[2:]
        checks = None
        tier = "quick"
        only = None
        pid = args[0]
        i = 1
        while i < len(args):
            if args[i] == "--checks":
                checks = args[i + 1].split(","); i += 2
            elif args[i] == "--tier":
                tier = args[i + 1]; i += 2
            else:
                only = args[i]; i += 1
        run(pid, only, checks, tier)
