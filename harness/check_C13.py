"""
C13 — macros behave exactly like their textual expansion.

The generator builds a program with macro declarations and calls (all argument kinds, nested
calls, arguments passed through) and, from the same structure, the program in which every call is
replaced by the macro body with the arguments substituted — an expander written here, independent
of ParseCtx._parse_macro_call / bind_arguments_for.  Both are compiled by the real nmfu:
  * the verdicts must agree (accepted exactly when the expansion is);
  * the machines must be equivalent (Lean equivalence certificate, sound for all inputs);
  * an argument of the wrong kind, or a wrong number of arguments, must be a diagnosed error.
"""
import sys, os, random, re, multiprocessing as mp
sys.path.insert(0, os.path.dirname(os.path.abspath(__file__)))
import common
from common import Check
import population

THEOREMS = ["Nmfu.C13_expansion_equivalent",
            # the binding mechanism, name by name (NmfuProps/C13Lookup.lean)
            "Nmfu.C13_lookup_is_textual", "Nmfu.C13_lookup_transparent", "Nmfu.C13_lookup_innermost_wins", "Nmfu.C13_parameter_shadows"]

KINDS = ["macro", "hook", "out", "match", "expr", "loop", "finishcode", "yieldcode"]


class MacroGen:
    def __init__(self, rng):
        self.r = rng
        self.macros = {}     # name -> (args [(kind, name)], body lines as templates)

    def actual(self, kind, env):
        """An actual argument of the kind, as source text; env = enclosing macro's formals (for pass-through)."""
        r = self.r
        formals = [n for k, n in env if k == kind]
        if formals and r.random() < 0.7:
            return r.choice(formals)
        if kind == "hook":
            return r.choice(["h0", "h1"])
        if kind == "out":
            return r.choice(["i0", "i1"])
        if kind == "match":
            return r.choice(['"ab"', '"c"i', "/d+x/", '("a" "b")', '"78 79"b'])
        if kind == "expr":
            return r.choice(["5", "[i0 + 1]", "[2 * 3]", "'a'", "[i1 & 7]"])
        if kind == "loop":
            return "L"
        if kind == "finishcode":
            return "F0"
        if kind == "yieldcode":
            return "Y0"
        if kind == "macro":
            zs = [n for n, (a, b) in self.macros.items() if not a]
            return r.choice(zs) if zs else "leaf"

    def body_stmt(self, args, depth, own_name):
        r = self.r
        usable = [a for a in args]
        if usable and r.random() < 0.55:
            kind, name = r.choice(usable)
            if kind == "hook":
                return f"{name}();"
            if kind == "out":
                return r.choice([f"{name} = 3;", f"{name} = [{name} + 1];"])
            if kind == "match":
                return r.choice([f"{name};", f"wait {name};", f"s0 += {name};"])
            if kind == "expr":
                return r.choice([f"i0 = {name};", f"s0 += {name};"])
            if kind == "loop":
                return f'case {{ "!" -> {{ break {name}; }} "?" -> {{ }} }}'
            if kind == "finishcode":
                return f'optional {{ "$"; finish {name}; }}'
            if kind == "yieldcode":
                return f"yield {name};"
            if kind == "macro":
                return f"{name}();"
        callees = [n for n in self.macros if n != own_name]
        if callees and depth < 2 and r.random() < 0.8:
            return self.call(r.choice(callees), args)
        return r.choice(['"q";', "h0();", 'i1 = 9;', '"zz";'])

    def call(self, name, env):
        a, _ = self.macros[name]
        return f"{name}(" + ", ".join(self.actual(k, env) for k, n in a) + ");"

    def build(self):
        r = self.r
        self.macros["leaf"] = ([], ['"l";', "h1();"])
        for i in range(r.randint(1, 3)):
            name = f"m{i}"
            nargs = r.randint(0, 3)
            args = []
            for j in range(nargs):
                # same formal names are reused across macros on purpose (pass-through under one name)
                prev = [a for n, (aa, b) in self.macros.items() for a in aa]
                if prev and r.random() < 0.5:
                    k = r.choice(prev)[0]       # same kind as a formal of an earlier macro: pass-through is likely
                else:
                    k = r.choice(KINDS)
                args.append((k, r.choice([f"a{j}", f"{k[0]}x"])))
            names = [n for k, n in args]
            if len(set(names)) != len(names):
                args = [(k, f"a{j}") for j, (k, n) in enumerate(args)]
            body = [self.body_stmt(args, 0, name) for _ in range(r.randint(1, 3))]
            self.macros[name] = (args, body)

    def decl_text(self):
        out = []
        for name, (args, body) in self.macros.items():
            out.append(f"macro {name}(" + ", ".join(f"{k} {n}" for k, n in args) + ") {")
            out += ["  " + l for l in body]
            out.append("}")
        return out

    # ---- independent expander
    def expand_line(self, line, depth=0):
        m = re.match(r"^(\w+)\((.*)\);$", line.strip())
        if m and m.group(1) in self.macros and depth < 6:
            name = m.group(1)
            args, body = self.macros[name]
            actuals = split_args(m.group(2))
            if len(actuals) != len(args):
                return [line]
            out = []
            for b in body:
                t = b
                for (k, n), act in zip(args, actuals):
                    if k == "expr" and act.startswith("["):
                        # substituting a math expression: inside [...] it needs parentheses, as an
                        # integer-expression on its own it keeps its brackets
                        t = re.sub(rf"\[([^\]]*)\b{n}\b([^\]]*)\]", lambda mm: "[" + mm.group(1) + "(" + act[1:-1] + ")" + mm.group(2) + "]", t)
                    t = re.sub(rf"\b{n}\b", lambda mm: act, t)
                out += self.expand_line(t, depth + 1)
            return out
        return [line]


def split_args(s):
    out, cur, d, q = [], "", 0, False
    for ch in s:
        if ch == '"':
            q = not q
        if not q and ch in "([":
            d += 1
        if not q and ch in ")]":
            d -= 1
        if ch == "," and d == 0 and not q:
            out.append(cur.strip())
            cur = ""
        else:
            cur += ch
    if cur.strip():
        out.append(cur.strip())
    return out


def make_pair(rng):
    g = MacroGen(rng)
    g.build()
    decls = ["out int i0 = 0;", "out int i1 = 0;", "out str[6] s0;", "hook h0;", "hook h1;", "finishcode F0;", "yieldcode Y0;"]
    calls = []
    for _ in range(rng.randint(1, 3)):
        name = rng.choice([n for n in g.macros])
        calls.append(g.call(name, []))
    body_m = ['"<";', "loop L {"] + ["  " + c for c in calls] + ['  case { "." -> { break L; } "," -> { } }', "}", '">";']
    body_x = ['"<";', "loop L {"]
    for c in calls:
        body_x += ["  " + l for l in g.expand_line(c)]
    body_x += ['  case { "." -> { break L; } "," -> { } }', "}", '">";']
    with_m = "\n".join(decls + g.decl_text() + ["parser {"] + ["  " + l for l in body_m] + ["}"]) + "\n"
    expanded = "\n".join(decls + ["parser {"] + ["  " + l for l in body_x] + ["}"]) + "\n"
    return with_m, expanded, g


def fixed_pairs():
    """Hand-written pairs around argument scoping: an argument that mentions a parameter of the
    calling macro (resolved through the caller's frame), a global of the same name as a parameter,
    an argument whose name equals another parameter of the callee, three levels of nesting."""
    d = "out int a = 5;\nout int b = 0;\nout int v = 100;\nout int x = 7;\nout int y = 9;\nhook h0;\n"
    P = []
    P.append((d + 'macro store(out dst, expr e) { dst = e; }\nmacro outer(out v, out w) { "x"; store(w, [v + 1]); "y"; }\nparser { outer(a, b); }\n',
              d + 'parser { "x"; b = [a + 1]; "y"; }\n'))
    P.append((d + 'macro store(out dst, expr e) { dst = e; }\nmacro outer(out src, out w) { "x"; store(w, [src + 1]); "y"; }\nparser { outer(a, b); }\n',
              d + 'parser { "x"; b = [a + 1]; "y"; }\n'))
    P.append((d + 'macro set2(out x, out y) { x = 1; y = 2; }\nmacro rev(out x, out y) { "q"; set2(y, x); }\nparser { rev(a, b); "z"; }\n',
              d + 'parser { "q"; b = 1; a = 2; "z"; }\n'))
    P.append((d + 'macro set2(out b, out a) { b = 1; a = 2; }\nparser { "q"; set2(a, b); "z"; }\n',
              d + 'parser { "q"; a = 1; b = 2; "z"; }\n'))
    P.append((d + 'macro m3(match p, out o) { p; o = [o + 1]; }\nmacro m2(match p, out o) { m3(p, o); m3((p "!"), o); }\nmacro m1(out v) { m2(/k+/, v); }\nparser { m1(b); ";"; }\n',
              d + 'parser { /k+/; b = [b + 1]; (/k+/ "!"); b = [b + 1]; ";"; }\n'))
    P.append((d + 'macro use(expr e, out o) { o = e; h0(); }\nmacro wrap(out x, out o) { "w"; use([x * 2 + y], o); }\nparser { wrap(a, b); "."; }\n',
              d + 'parser { "w"; b = [a * 2 + y]; h0(); "."; }\n'))
    # a macro's own parameter shadows what its callers (or the globals) call by that name, whatever its kind
    P.append((d + 'out int z = 40;\nmacro inner(out v) { y = [v + 1]; }\nmacro outer(expr v) { inner(z); "="; y = [y + v]; }\nparser { outer(7); ";"; }\n',
              d + 'out int z = 40;\nparser { y = [z + 1]; "="; y = [y + 7]; ";"; }\n'))
    P.append((d + 'macro m1(finishcode a0, out a1, expr a2) { "zz"; a1 = [a1 + 1]; }\nmacro m2(expr ex, expr a1, out a2) { m1(F0, a2, ex); a2 = 3; }\nfinishcode F0;\nparser { "<"; m2([b & 7], [2 * 3], b); ">"; }\n',
              d + 'finishcode F0;\nparser { "<"; "zz"; b = [b + 1]; b = 3; ">"; }\n'))
    # names inside a math argument mean what they mean at the call
    P.append((d + 'macro inner(expr p, expr q) { x = [p]; }\nmacro outer(expr q) { inner([q + 1], 5); }\nparser { "a"; outer(10); "b"; }\n',
              d + 'parser { "a"; x = [10 + 1]; "b"; }\n'))
    P.append((d + 'macro store(out v, expr e) { v = e; }\nmacro outer(out x) { "x"; store(b, [x + v]); "y"; }\nparser { outer(a); }\n',
              d + 'parser { "x"; b = [a + v]; "y"; }\n'))
    P.append((d + 'macro foo() { x = 7; }\nmacro m(hook foo) { foo(); }\nparser { "a"; m(h0); "b"; }\n',
              d + 'parser { "a"; h0(); "b"; }\n'))
    # names of the calling macros forwarded through two levels: each level's hidden bindings must stay apart
    P.append((d + 'macro B(expr e2, out dst) { dst = e2; "k"; }\nmacro A(expr e, out n) { B([n * 100 + e], v); }\nmacro T(out n) { A([n + 1], y); }\n'
                  'parser { "a"; T(a); "b"; }\n',
              d + 'parser { "a"; v = [y * 100 + (a + 1)]; "k"; "b"; }\n'))
    P.append((d + 'macro B(expr e2, out dst) { dst = e2; "k"; }\nmacro A(expr e, out n, out m) { B([n + m * 10 + e], v); }\nmacro T(out n, out m) { A([n - m], m, n); }\n'
                  'parser { "a"; T(x, y); "b"; }\n',
              d + 'parser { "a"; v = [y + x * 10 + (x - y)]; "k"; "b"; }\n'))
    # an enumeration constant passed as an expr argument and compared with an enum output inside the macro
    e = "out enum{IDLE,HEADER,BODY} st;\nout int hits;\nhook h0;\n"
    P.append((e + 'macro expect(expr want, match text) { if st == want { text; hits = [hits + 1]; } else { h0(); "?"; } }\n'
                  'parser { "a"; st = HEADER; expect(HEADER, "hd"); st = BODY; expect(IDLE, "id"); "z"; }\n',
              e + 'parser { "a"; st = HEADER; if st == HEADER { "hd"; hits = [hits + 1]; } else { h0(); "?"; } st = BODY; '
                  'if st == IDLE { "id"; hits = [hits + 1]; } else { h0(); "?"; } "z"; }\n'))
    P.append((e + 'macro setst(expr v) { st = v; "k"; }\nmacro twice(expr v) { setst(v); setst(BODY); }\nparser { "a"; twice(HEADER); "z"; }\n',
              e + 'parser { "a"; st = HEADER; "k"; st = BODY; "k"; "z"; }\n'))
    # a global named in a math argument, forwarded through a macro that does not bind the name to one that does
    P.append((d + 'macro store(expr value, out v) { v = value; h0(); }\nmacro snapshot(expr e) { store(e, b); }\n'
                  'parser { "a"; v = 3; snapshot([v * 10 + a]); "z"; }\n',
              d + 'parser { "a"; v = 3; b = [v * 10 + a]; h0(); "z"; }\n'))
    P.append((d + 'macro store(expr value, out x) { x = value; }\nmacro mid(expr e, out y) { store([e + y], b); }\nmacro top(expr e) { mid(e, a); }\n'
                  'parser { "a"; top([x + 1]); "z"; }\n',
              d + 'parser { "a"; b = [(x + 1) + a]; "z"; }\n'))
    return P


def bad_call_programs(rng):
    """Wrong kind / wrong arity: must be diagnosed errors."""
    base = "out int i0;\nout str[4] s0;\nhook h0;\nfinishcode F0;\nyieldcode Y0;\n"
    progs = []
    progs.append(base + 'macro m(hook h) { h(); }\nparser { m("ab"); "x"; }\n')
    progs.append(base + 'macro m(out o) { o = 1; }\nparser { m(/a+/); "x"; }\n')
    progs.append(base + 'macro m(match p) { p; }\nparser { m(5); "x"; }\n')
    progs.append(base + 'macro m(match p) { p; }\nparser { m(i0); "x"; }\n')
    progs.append(base + 'macro m(expr e) { i0 = e; }\nparser { m(/a/); "x"; }\n')
    progs.append(base + 'macro m(loop l) { break l; }\nparser { loop Z { m("a"); "x"; } }\n')
    progs.append(base + 'macro m(finishcode c) { finish c; }\nparser { "x"; m(5); }\n')
    progs.append(base + 'macro m(hook h, out o) { h(); o = 2; }\nparser { m(h0); "x"; }\n')
    progs.append(base + 'macro m(hook h) { h(); }\nparser { m(h0, h0); "x"; }\n')
    progs.append(base + 'macro m() { "a"; }\nparser { m(h0); "x"; }\n')
    progs.append(base + 'macro m(macro q) { q(); }\nparser { m("a"); "x"; }\n')
    progs.append(base + 'macro m(hook h) { h(); }\nparser { m(nothere); "x"; }\n')
    progs.append(base + 'macro m(out o) { o = 1; }\nparser { m(h0); "x"; }\n')
    progs.append(base + 'macro m(hook h) { h(); }\nparser { m(i0); "x"; }\n')
    progs.append(base + 'macro m(yieldcode y) { yield y; }\nparser { m(F0); "x"; }\n')
    return progs


_model = None


def work(job):
    global _model
    from nmfu_api import compile_program
    from export import export_machine, Unsupported
    seed, k = job
    rng = random.Random(f"{seed}/c13/{k}")
    if k < 0:
        with_m, expanded = fixed_pairs()[-k - 1]
        g = None
    else:
        with_m, expanded, g = make_pair(rng)
    res = {"k": k, "with_macros": with_m, "expanded": expanded, "verdicts": None, "equiv": None, "viol": None}
    args = ["-O1", "-fyield-support"]
    a = compile_program(with_m, args, codegen=False)
    ta = export_machine(a.dctx) if a.ok else None
    b = compile_program(expanded, args, codegen=False)
    tb = export_machine(b.dctx) if b.ok else None
    res["verdicts"] = (a.kind, b.kind)
    if a.kind == "internal" or b.kind == "internal":
        res["viol"] = {"kind": "internal-exception", "detail": (a.msg if a.kind == "internal" else b.msg)[:200]}
        return res
    if a.ok != b.ok:
        res["viol"] = {"kind": "verdict-differs", "macros": a.kind + ": " + a.msg.split("\n")[0][:150], "expansion": b.kind + ": " + b.msg.split("\n")[0][:150]}
        return res
    if a.ok:
        if _model is None:
            from modeldrv import Model
            _model = Model()
        r = _model.ask("equiv", 0, 1, 400000, ta, tb)
        res["equiv"] = r[:200]
        if not (r.startswith("closed") and "cert=true" in r):
            res["viol"] = {"kind": "machines-differ", "checker": r[:800]}
    return res


def main():
    ck = Check("C13", "translation_validation")
    ck.lean_obligations("NmfuProps", THEOREMS)
    n = 300 if ck.tier == "quick" else 5000
    with mp.Pool(min(14, os.cpu_count() or 4)) as pool:
        results = pool.map(work, [(ck.seed, k) for k in range(-len(fixed_pairs()), n)], chunksize=8)
    st = {"pairs": n, "both_accepted": 0, "both_rejected": 0, "equivalent": 0, "bad_calls": 0, "bad_calls_diagnosed": 0, "nested_calls": 0}
    distinct = set()
    for r in results:
        distinct.add(population.src_hash(r["with_macros"]))
        v = r["verdicts"]
        if v[0] == "ok" and v[1] == "ok":
            st["both_accepted"] += 1
            ck.obligations += 1
            if r["viol"] is None:
                st["equivalent"] += 1
                ck.discharged += 1
        elif v[0] != "ok" and v[1] != "ok":
            st["both_rejected"] += 1
        if r["viol"]:
            sig = r["viol"]["kind"] + "/" + re.sub(r"\d+", "N", r["viol"].get("macros", r["viol"].get("detail", "")))[:60]
            ck.report(sig, f"macro program vs its expansion: {r['viol']['kind']} {r['viol'].get('macros', '')} | {r['viol'].get('expansion', '')}",
                      {"with_macros": r["with_macros"], "expanded": r["expanded"], **r["viol"]})
        if len(ck.samples) < 3 and v[0] == "ok":
            ck.samples.append({"with_macros": r["with_macros"][-300:], "verdicts": v})
    from nmfu_api import compile_program
    rng = random.Random(ck.seed)
    for src in bad_call_programs(rng):
        o = compile_program(src, ["-O1", "-fyield-support"])
        st["bad_calls"] += 1
        if o.kind in ("parse", "compile", "codegen"):
            st["bad_calls_diagnosed"] += 1
        else:
            ck.report(f"bad-call-not-diagnosed/{o.kind}", f"wrong argument kind / count is not a diagnosed error: outcome {o.kind} {o.msg[:120]}", {"program": src})
    # the lookup itself: the real `_lookup_named_entity` on constructed stacks vs the Lean mirror
    import c13_lookup
    from modeldrv import Model
    n_look, bad, hist = c13_lookup.run(Model(), random.Random(ck.seed + 13), 4000 if ck.tier == "quick" else 60000)
    st["lookups_compared"] = n_look
    st["lookup_outcomes"] = hist
    for b in bad[:5]:
        ck.report(f"lookup/{b['kind']}/{b['implementation'].split()[0]}-vs-{b['model'].split()[0]}",
                  f"argument lookup of {b['name']} as {b['kind']}: implementation says {b['implementation']}, the model (innermost frame that mentions the name decides) says {b['model']}", b)
    ck.finish({"programs": st["both_accepted"], "disagreements_checked": st["pairs"] + st["bad_calls"],
               "evaluations": st["pairs"] + st["bad_calls"], "distinct_nontrivial": len(distinct),
               "rule": "generated programs with 1-3 macros over all 8 argument kinds, nested calls and pass-through arguments, paired with their expansion by an independent expander; plus wrong-kind / wrong-arity calls; plus the argument lookup called directly on random bound-argument stacks against the Lean mirror; distinct by source",
               "stats": st})


if __name__ == "__main__":
    main()
