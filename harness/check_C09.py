"""
C09 — acceptance implies one-byte-lookahead unambiguity.

Lean (NmfuProps/C09.lean): the local rules of NmfuModel/Ambig.lean mean what the property says in
terms of languages, for all words — a case passes at every derivative iff no word matches one
pattern while being a prefix (proper or not) of a word of another; the look-ahead rule holds iff
no member of the statement's language followed by the symbol is a prefix of another member while
the symbol starts what follows; a closed set of configurations on which the rules hold covers
every input.

Per program accepted by the real nmfu: the source is exported independently (srcexport.py), the
reachable configurations of the reference semantics are walked and every decision point is
tested against every symbol (bytes and end-of-input).  An accepted program with an ambiguous
decision point is a violation (witness word + symbol).  Programs nmfu rejects as ambiguous are
counted, with the share the reference also finds ambiguous.
Programs: clause sets (literals, case-insensitive literals, regexes; 2-4 clauses; non-greedy and
greedy with priorities), statement pairs `A; B` with A ended by look-ahead (open-ended regex,
optional, loop exit through a case, end of try / if, case clause), the generic population.
"""
import sys, os, random, multiprocessing as mp, shutil, signal
sys.path.insert(0, os.path.dirname(os.path.abspath(__file__)))
import common
from common import Check
import population

THEOREMS = ["Nmfu.C09_case_rule_exact", "Nmfu.C09_lookahead_rule_exact", "Nmfu.C09_no_ambiguity_on_any_input", "Nmfu.C09_caseConflict_iff",
            "Nmfu.C09_case_frame_rule", "Nmfu.C09_match_frame_rule"]


def work(prog):
    import refine, srcexport
    from nmfu_api import compile_program

    class _Slow(BaseException):
        pass

    def _alarm(*_):
        raise _Slow()
    old = signal.signal(signal.SIGALRM, _alarm)
    signal.alarm(10)
    try:
        o = compile_program(prog["src"], ["-O1"] + prog["args"], codegen=False)
    except _Slow:
        return {"name": prog["name"], "verdict": "slow", "ref": "skipped", "detail": ""}
    finally:
        signal.alarm(0)
        signal.signal(signal.SIGALRM, old)
    verdict = "accepted" if o.ok else o.kind + ": " + o.msg.split("\n")[0][:100]
    if not o.ok and o.kind not in ("compile",):
        return {"name": prog["name"], "verdict": verdict, "ref": "skipped", "detail": ""}
    try:
        ps = srcexport.export_source(prog["src"])
    except Exception as e:
        return {"name": prog["name"], "verdict": verdict, "ref": "unsupported", "detail": repr(e)[:120]}
    r = refine.model().ask("ambig", 20000, ps, timeout=25)
    return {"name": prog["name"], "verdict": verdict, "ref": r.split()[0] if r else "error", "detail": r[:400]}


ATOM = ["a", "b", "c", "[ab]", "[^a]", "\\d", "."]


def rx(rng, first=None):
    f = first if first is not None else rng.choice(ATOM)
    return f + rng.choice(["", "b", "b*", "b+", "c?", "[ab]*", "(bc)*", "\\d+", "x{1,2}", ".*;"])


def pat(rng, first):
    k = rng.random()
    tail = "".join(rng.choice("abc1") for _ in range(rng.randint(0, 2)))
    if k < 0.45:
        return f'"{first}{tail}"'
    if k < 0.55:
        return f'"{first}{tail}"i'
    return "/" + rx(rng, first) + "/"


def gen(rng, i):
    k = rng.random()
    if k < 0.4:   # clause sets
        greedy = rng.random() < 0.35
        ncl = rng.randint(2, 4)
        firsts = [rng.choice("abAB1") for _ in range(8)] if rng.random() < 0.7 else rng.sample("abcdxy01", 8)
        lines = []
        for j in range(ncl):
            pats = [pat(rng, firsts[(2 * j + t) % 8]) for t in range(rng.choice([1, 1, 2]))]
            prio = f"prio {rng.randint(1, 2)} " if greedy and rng.random() < 0.6 else ""
            body = rng.choice([f"h{j % 3}();", "", f'"{rng.choice("ab;")}"; h{j % 3}();'])
            lines.append(f"    {prio}{', '.join(pats)} -> {{ {body} }}")
        if rng.random() < 0.3:
            lines.append("    else -> { h2(); }")
        body = ("greedy case {\n" if greedy else "case {\n") + "\n".join(lines) + "\n  }\n  " + rng.choice(['";";', '"a";', 'h0(); "$";', '/[ab]+/; "$";'])
    elif k < 0.48:   # three clauses finishing on the same string, the top priority shared or not
        p = [rng.randint(0, 2) for _ in range(3)]
        kw = rng.choice(["if", "ab", "a1"])
        lines = [f'    prio {p[0]} /[a-z][a-z0-9]*/ -> {{ x = 1; }}', f'    prio {p[1]} "{kw}" -> {{ x = 2; }}',
                 f'    prio {p[2]} /{kw[0]}[{kw[1]}-{kw[1]}z]/ -> {{ x = 3; }}']
        rng.shuffle(lines)
        body = "greedy case {\n" + "\n".join(lines) + '\n  }\n  ";";'
    elif k < 0.56:   # A ended by look-ahead, then an if whose branches start differently
        r = rx(rng)
        b1, b2 = rng.sample(['"a";', '"b";', '/[ab]/;', '/\\d/;', '/[^a]/; ";";', '";";', '/b+c/;'], 2)
        body = f'optional {{ "q"; x = 1; }}\n  /{r}/;\n  if x == 1 {{ {b1} }} else {{ {b2} }}\n  "$";'
    else:         # A; B with A ended by look-ahead
        first_b = rng.choice(['"a";', '"b";', '/[ab]/;', '/b+c/;', '/\\d/;', '";";', 'case { "a" -> { h1(); } ";" -> { } }',
                              'optional { "b"; }  ";";', 'wait "b";', '/[^a]/;', 'loop { case { "a" -> { } ";" -> { break; } } }'])
        shape = rng.randrange(10)
        r = rx(rng)
        if shape == 0:
            a = f"/{r}/;"
        elif shape == 1:
            a = f'optional {{ /{r}/; h0(); }}'
        elif shape == 2:
            a = f'loop {{ case {{ /{r}/ -> {{ h0(); }} "!" -> {{ break; }} }} }}'
        elif shape == 3:
            a = f'try {{ "<"; /{r}/; }} catch {{ h2(); }}'
        elif shape == 4:
            a = f'case {{ /{r}/ -> {{ h0(); }} "z" -> {{ h1(); }} }}'
        elif shape == 5:
            a = f'x = 1; if x == 1 {{ /{r}/; }} else {{ "q"; }}'
        elif shape == 6:
            a = f'wait /{r}/;'
        elif shape == 7:
            a = f'foreach {{ /{r}/; }} do {{ h0(); }}'
        elif shape == 8:
            a = f'try {{ loop {{ /{r}/; {rng.choice(["", "h0();"])} }} }} catch {{ h2(); }}'
        else:
            a = f'try {{ loop {{ "{rng.choice("ab")}"; /{rx(rng)}/; }} }} catch {{ h2(); }}'
        body = a + "\n  " + first_b + "\n  h1();\n  \"$\";"
    src = "out int x;\nhook h0;\nhook h1;\nhook h2;\nparser {\n  " + body + "\n}\n"
    return {"name": f"amb-{i}", "src": src, "args": ["-feof-support"], "feats": {}}


if __name__ == "__main__":
    ck = Check("C09", "proof")
    ck.lean_obligations("NmfuProps.C09", THEOREMS)
    t = common.tier()
    rng = random.Random(common.seed())
    progs = [gen(rng, i) for i in range(700 if t == "quick" else 10000)]
    progs += [dict(p, args=[a for a in p["args"] if a.startswith("-f")]) for p in population.corpus()]
    # ambiguities that go through an Else transition (inverted sets, the wildcard): a byte that both continues a statement
    # found by look-ahead and starts what comes next only because an inverted set or '.' admits it
    k = 0
    for inv in ("[^z]", ".", "[^0-9]", "\\D"):
        for src in ('parser {\n  loop {\n    "q";\n    optional { /' + inv + 'b/; }\n  }\n}\n',
                    'parser {\n  loop {\n    /q+/;\n    optional { /' + inv + '/; ";"; }\n  }\n}\n',
                    'out int c = 0;\nparser {\n  case { "0" -> { c = 0; } "1" -> { c = 1; } }\n  /x(ay)?/;\n  if c == 0 { /' + inv + 'p/; } else { /[^b]q/; }\n}\n',
                    'out int c = 0;\nparser {\n  /x(ay)?/;\n  if c == 0 { /[^a]p/; } else { /' + inv + 'q/; }\n}\n',
                    'parser {\n  /a+/;\n  /' + inv + 'z/;\n}\n',
                    'parser {\n  loop { case { /ab*/ -> {} /' + inv + '/ -> { break; } } }\n}\n'):
            progs.append({"name": f"else-amb-{k}", "src": src, "args": ["-feof-support"], "feats": {}})
            k += 1
    with mp.Pool(min(14, os.cpu_count() or 4)) as pool:
        results = pool.map(work, progs, chunksize=4)
    byname = {p["name"]: p for p in progs}
    st = {"programs": len(progs), "accepted": 0, "accepted_clean": 0, "accepted_ambiguous": 0, "rejected": 0,
          "rejected_as_ambiguous": 0, "rejected_as_ambiguous_and_reference_ambiguous": 0, "rejected_other": 0,
          "budget_or_unsupported": 0}
    reasons = {}
    for r in results:
        prog = byname[r["name"]]
        if r["verdict"] == "accepted":
            if r["ref"] == "clean":
                st["accepted"] += 1
                st["accepted_clean"] += 1
                ck.obligations += 1
                ck.discharged += 1
                if len(ck.samples) < 4:
                    ck.samples.append({"program": r["name"], "result": r["detail"][:80]})
            elif r["ref"] == "ambiguous":
                st["accepted"] += 1
                st["accepted_ambiguous"] += 1
                ck.obligations += 1
                why = r["detail"].split("why=")[-1]
                ck.report(f"{population.src_hash(prog['src'])}/ambiguous",
                          f"{r['name']}: accepted by nmfu, but the reference semantics has an ambiguous decision point ({why})",
                          {"program": prog["src"], "args": prog["args"], "reference": r["detail"]})
            else:
                st["budget_or_unsupported"] += 1
        else:
            st["rejected"] += 1
            amb = "mbig" in r["verdict"]
            if amb:
                st["rejected_as_ambiguous"] += 1
                if r["ref"] == "ambiguous":
                    st["rejected_as_ambiguous_and_reference_ambiguous"] += 1
            else:
                st["rejected_other"] += 1
                k = r["verdict"][:60]
                reasons[k] = reasons.get(k, 0) + 1
    st["rejected_other_reasons"] = dict(sorted(reasons.items(), key=lambda kv: -kv[1])[:8])
    if st["budget_or_unsupported"] * 10 > max(1, st["accepted"]):
        print(f"TOOL-ERROR: {st['budget_or_unsupported']} programs undecided")
        sys.exit(2)
    ck.finish({"programs": st["accepted"], "evaluations": st["accepted"], "stats": st,
               "rule": "generated clause sets (non-greedy / greedy with priorities, overlapping first characters) and statement pairs A; B with A ended by look-ahead in eight shapes, plus the test corpus; every reachable reference configuration x 257 symbols"})
