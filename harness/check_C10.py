"""
C10 — result codes and the start pointer follow the documented protocol.

Lean: NmfuProps/C10.lean (OK consumes the chunk, the cursor stays within the chunk, FAIL is
absorbing in the failure state, yield resumption is exact), for every machine.
Direct evaluation on the compiled binary, over call histories that continue after terminal
results:
  P1  feed returned OK  =>  (indirect) the cursor is at the end of the chunk;
  P2  after feed has returned FAIL, every later feed / end returns FAIL;
  P3  the cursor after FAIL is the index of the byte at which the one-byte-per-call run of the
      same binary reports FAIL; after DONE / finish codes it is the index of the byte at which
      that run reports them (the last byte read);
  P4  strict-done mode: same codes as the default mode except that a DONE reported by a
      transition is reported by the following call instead (a later byte or end);
  P5  yields: re-invocation from the reported cursor (covered with C02: sessions under all
      chunkings agree) and the cursor never moves backwards;
and the binary's trace must equal the Lean runtime model's on the same history.
"""
import sys, os, random, shutil, multiprocessing as mp
sys.path.insert(0, os.path.dirname(os.path.abspath(__file__)))
import common
from common import Check
import population

THEOREMS = ["Nmfu.C10_ok_consumes_chunk", "Nmfu.C10_cursor_within_chunk", "Nmfu.C10_fail_absorbing", "Nmfu.C10_fail_absorbing_empty_chunk",
            "Nmfu.C10_yield_resume_exact", "Nmfu.noStuck_of_leavesOK", "Nmfu.C10_end_fail_is_final", "Nmfu.C10_end_fail_then_empty_chunk",
            "Nmfu.emptyFails_failTarget", "Nmfu.C10_fail_is_final", "Nmfu.runOps_good", "Nmfu.apiStep_of_failed",
            "Nmfu.C10_cannot_fail", "Nmfu.C10_session_fail_is_final", "Nmfu.start_good"]


def parse(lines):
    """[(kind, code, pos, dump)] for feed/end lines; hooks skipped."""
    out = []
    for l in lines:
        head, _, dump = l.partition(" | ")
        w = head.split()
        if w and w[0] == "feed":
            out.append(("feed", w[1], None if w[2] == "-" else int(w[2]), dump))
        elif w and w[0] == "end":
            out.append(("end", w[1], None, dump))
    return out


def is_term(code):
    return code in ("FAIL", "DONE") or code.startswith("FINISH_")


def work(job):
    import rtdiff, inputs
    prog, seed, wd_root, tier = job
    rng = random.Random(f"{seed}/{prog['name']}/c10")
    res = {"name": prog["name"], "status": "ok", "histories": 0, "viol": [], "corr": [], "term_seen": {}, "states": 0}
    wd = os.path.join(wd_root, str(os.getpid()))
    shutil.rmtree(wd, ignore_errors=True)
    # (yields land on consuming transitions at -O3: the early-advance template is live there)
    lvl = "-O3" if "-fyield-support" in prog["args"] and (rng.random() < 0.5 or prog.get("origin") == "corpus") else "-O1"
    base = [lvl] + prog["args"] + ["-findirect-start-ptr"]
    case = rtdiff.Case(prog, base, os.path.join(wd, "a"))
    if not case.ok:
        res["status"] = case.why
        shutil.rmtree(wd, ignore_errors=True)
        return res
    strict = rtdiff.Case(prog, base + ["-fstrict-done-token-generation"], os.path.join(wd, "b"))
    res["states"] = case.nstates
    # hypothesis of C10_end_fail_is_final on the exported machine
    wf = rtdiff.model().ask("wf", case.opts, case.mt, timeout=60)
    if "endFailOK=false" in wf:
        res["corr"].append({"kind": "endFailOK fails: some FAIL of end() does not leave the fail state behind", "args": case.args})
    # hypotheses of C10_fail_is_final (or, for a parser that has no way to fail, of C10_cannot_fail)
    if "startClosed=false" in wf:
        res["corr"].append({"kind": "startClosed fails: start() can leave a state outside the table", "args": case.args})
    if "failClosed=false" in wf:
        res["corr"].append({"kind": "failClosed fails: some call leaves a state outside the table, or a FAIL leaves another index than failTarget", "args": case.args})
    if "emptyFailsTarget=false" in wf:
        if "hasFailState=false" in wf and not case.eof() and "neverFailsOnBytes=true" in wf:
            res["cannot_fail"] = res.get("cannot_fail", 0) + 1       # C10_cannot_fail applies instead
        else:
            res["corr"].append({"kind": "the empty-chunk test of feed does not name the index a FAIL leaves behind", "args": case.args, "wf": wf[-200:]})
    if "endFailExact=false" in wf:
        res["corr"].append({"kind": "endFailExact fails: some FAIL of end() leaves another index than the one feed's empty-chunk test names", "args": case.args})
    has_yield = bool(list(case.outcome.cctx.yield_codes))
    # the reference semantics of the program, when it can be expressed and the machine was shown equivalent to it
    ref_ps = None
    try:
        import srcexport, refine
        # (not for programs that read $last: when a pending action or condition observes the last byte may shift by one
        #  position — the documented slack — and a concrete run of the reference has to pick one)
        # (the $last of a foreach's per-byte action is the byte being read: no slack there)
        ps_, last_outside = srcexport.export_source_info(prog["src"])
        if not last_outside and refine.refine(prog["src"], base, timeout=25)["status"] == "closed":
            ref_ps = ps_
    except Exception:
        ref_ps = None
    # (empty chunks are only defined for parsers whose feed starts with the end check)
    zl = case if case.outcome.cctx._needs_end_check() else rtdiff.Case(prog, base + ["-fzero-len-input-support"], os.path.join(wd, "z"))
    n_in = 10 if tier == "quick" else 40
    for data in [inputs.random_walk(case.dfa, rng, rng.randint(1, 16)) for _ in range(n_in)] + inputs.extra(prog):
        n = len(data)
        if n == 0:
            continue
        tail = bytes(rng.choice(data) for _ in range(2)) + b"\x00"
        # history A: whole chunk, then two more feeds and end (continuing after any terminal result)
        opsA = ["start", f"feedy:{data.hex()}", f"feedy:{tail.hex()}", f"feedy:{data[:1].hex()}"] + (["end", "end"] if case.eof() else [])
        # history B: one byte per call
        opsB = ["start"] + [f"feedy:{data[i:i+1].hex()}" for i in range(n)] + (["end"] if case.eof() else [])
        # history C: end right after a prefix, then feeding goes on
        k = rng.randint(0, n)
        opsC = ["start"] + ([f"feedy:{data[:k].hex()}"] if k else []) + (["end"] if case.eof() else []) + [f"feedy:{data[k:].hex() or '00'}"] + (["end"] if case.eof() else [])
        # history D (parsers that accept empty chunks: zero-length support, or yields): empty chunks in
        # between and after a terminal result
        opsD = ["start", "feedy:", f"feedy:{data.hex()}", "feedy:", f"feedy:{tail.hex()}", "feedy:", "feedy:"]
        hist = [("A", opsA, case), ("B", opsB, case), ("C", opsC, case)]
        if zl is not None and zl.ok:
            hist.append(("D", opsD, zl))
            if zl.eof():
                # history E: end() after a prefix, then empty chunks (a FAIL reported by end() is final for those as well)
                hist.append(("E", ["start"] + ([f"feedy:{data[:k].hex()}"] if k else []) + ["end", "feedy:", f"feedy:{data[k:].hex() or '00'}", "feedy:", "end"], zl))
        for tag, ops, case_ in hist:
            cl, status, err = case_.run_c(ops)
            res["histories"] += 1
            if status != "ok":
                res["viol"].append({"kind": "binary-" + status, "history": ops, "detail": err[-300:]})
                continue
            ml = case_.run_model(ops)
            d = rtdiff.compare(cl, ml)
            if d is not None:
                res["corr"].append({"kind": "model-vs-binary", "history": ops, "first": [d[2], d[3]], "args": case_.args})
            ev = parse(cl)
            # P1, P5 on every feed line
            ci = 0
            chunk_lens = [len(bytes.fromhex(o.split(":")[1])) for o in ops if o.startswith("feedy:")]
            failed = False
            lastpos = 0
            for kind, code, pos, dump in ev:
                if kind == "feed":
                    clen = chunk_lens[ci] if ci < len(chunk_lens) else 0
                    if code == "OK" and pos is not None and pos != clen:
                        res["viol"].append({"kind": "P1-ok-without-consuming", "history": ops, "line": [kind, code, pos], "chunk_len": clen, "args": case.args})
                    if pos is not None and (pos < lastpos or pos > clen):
                        res["viol"].append({"kind": "P5-cursor-outside", "history": ops, "line": [kind, code, pos], "args": case.args})
                    if failed and code != "FAIL":
                        res["viol"].append({"kind": "P2-fail-not-absorbing", "history": ops, "line": [kind, code, pos], "args": case.args})
                    if code == "FAIL":
                        failed = True
                    if code.startswith("YIELD_"):
                        lastpos = pos or 0
                    else:
                        ci += 1
                        lastpos = 0
                    if is_term(code):
                        res["term_seen"][code.split("_")[0]] = res["term_seen"].get(code.split("_")[0], 0) + 1
                else:
                    if failed and code != "FAIL":
                        res["viol"].append({"kind": "P2-fail-not-absorbing", "history": ops, "line": [kind, code], "args": case.args})
                    if kind == "end" and code == "FAIL":
                        failed = True      # (a FAIL reported by end() is as final as one reported by feed)
            if tag == "A":
                evA = ev
            elif tag == "B":
                evB = ev
        # P3: cursor at the first terminal result of the whole-chunk run = index named by the 1-byte run
        firstA = next(((c, p) for (kd, c, p, _) in evA if kd == "feed" and is_term(c)), None)
        idxB = None
        j = 0
        for (kd, c, p, _) in evB:
            if kd != "feed":
                continue
            if is_term(c):
                idxB = (c, j)
                break
            if not c.startswith("YIELD_"):
                j += 1
        firstA_in_data = None
        # only the first feed op of history A carries `data`
        seen_first = False
        for (kd, c, p, _) in evA:
            if kd != "feed":
                continue
            if is_term(c):
                firstA_in_data = (c, p)
                break
            if not c.startswith("YIELD_"):
                break
        if firstA_in_data is not None or (idxB is not None and idxB[1] < n):
            a = firstA_in_data
            b = idxB if (idxB is not None and idxB[1] < n) else None
            if (a is None) != (b is None) or (a is not None and (a[0] != b[0] or a[1] != b[1])):
                res["viol"].append({"kind": "P3-terminal-cursor", "input": data.hex(), "whole_chunk": a, "byte_per_call": b, "args": case.args})
        # P3 (absolute): where the reference semantics fails on this input is where FAIL leaves the cursor — for programs
        # the reference expresses and whose compiled machine it was shown equivalent to (so that a difference is the cursor's)
        if ref_ps is not None and firstA_in_data is not None and firstA_in_data[0] == "FAIL" and not has_yield:
            r = rtdiff.model().ask("srcrun", case.opts, ref_ps, case.mt, " ".join(str(b) for b in data), timeout=20)
            res["ref_positions"] = res.get("ref_positions", 0) + 1
            p_bin = firstA_in_data[1]
            ok = (r == f"halt FAIL at {p_bin}") or (r == f"alive after {n}" and p_bin == n) or not r.startswith(("halt", "alive"))
            if not ok:
                res["viol"].append({"kind": "P3-fail-cursor-vs-reference", "input": data.hex(), "binary_cursor": p_bin, "reference": r, "args": case.args})
        # P4: strict-done only postpones DONE
        if strict.ok and not has_yield:
            ops = ["start"] + [f"feedy:{data[i:i+1].hex()}" for i in range(n)] + [f"feedy:{tail[:1].hex()}"] + (["end"] if case.eof() else [])
            c1, s1, _ = case.run_c(ops)
            c2, s2, _ = strict.run_c(ops)
            m2 = strict.run_model(ops)
            d = rtdiff.compare(c2, m2)
            if d is not None:
                res["corr"].append({"kind": "model-vs-binary(strict)", "history": ops, "first": [d[2], d[3]], "args": strict.args})
            e1 = [(k, c) for (k, c, p, _) in parse(c1)]
            e2 = [(k, c) for (k, c, p, _) in parse(c2)]
            t1 = next((i for i, (k, c) in enumerate(e1) if is_term(c)), None)
            t2 = next((i for i, (k, c) in enumerate(e2) if is_term(c)), None)
            ok = True
            if t1 is None:
                ok = t2 is None
            elif e1[t1][1] == "DONE":
                if t2 is None:
                    # postponed beyond the last call of this history (no end() without EOF support)
                    ok = t1 == len(e1) - 1 and e1[:t1] == e2[:t1]
                else:
                    ok = e2[t2][1] == "DONE" and t2 in (t1, t1 + 1) and e1[:t1] == e2[:t1]
            else:
                ok = t2 == t1 and e2[t2][1] == e1[t1][1]
            if not ok:
                res["viol"].append({"kind": "P4-strict-done", "history": ops, "default": e1, "strict": e2, "args": strict.args})
        if len(res["viol"]) > 4:
            break
    shutil.rmtree(wd, ignore_errors=True)
    return res


def main():
    ck = Check("C10", "proof")
    ck.lean_obligations("NmfuProps.C10Final", THEOREMS)
    n_gen = 60 if ck.tier == "quick" else 800
    progs = list(population.population(ck.seed, n_gen))
    wd = common.scratch_dir("c10")
    try:
        with mp.Pool(min(14, os.cpu_count() or 4)) as pool:
            results = pool.map(work, [(p, ck.seed, wd, ck.tier) for p in progs], chunksize=1)
    finally:
        shutil.rmtree(wd, ignore_errors=True)
    byname = {p["name"]: p for p in progs}
    st = {"programs": 0, "histories": 0, "rejected": 0, "terminal_codes_seen": {}, "fail_cursors_checked_against_reference": 0,
          "machines_under_C10_fail_is_final": 0, "machines_under_C10_cannot_fail": 0}
    distinct = set()
    for r in results:
        if r["status"] != "ok":
            st["rejected"] += 1
            continue
        st["programs"] += 1
        st["histories"] += r["histories"]
        st["fail_cursors_checked_against_reference"] += r.get("ref_positions", 0)
        st["machines_under_C10_cannot_fail"] += r.get("cannot_fail", 0)
        st["machines_under_C10_fail_is_final"] += 1 - r.get("cannot_fail", 0)
        for k, v in r["term_seen"].items():
            st["terminal_codes_seen"][k] = st["terminal_codes_seen"].get(k, 0) + v
        prog = byname[r["name"]]
        if r["states"] >= 3:
            distinct.add(population.src_hash(prog["src"]))
        for v in r["viol"]:
            ck.report(f"{v['kind']}", f"{r['name']}: {v['kind']} {v.get('line', v.get('input', ''))}",
                      {"program": prog["src"], "prog_args": prog["args"], **v})
        for v in r["corr"]:
            ck.broken_obligation(f"correspondence model/binary for {r['name']}: {v['kind']}", v)
        if len(ck.samples) < 4 and r["histories"]:
            ck.samples.append({"program": r["name"], "histories": r["histories"]})
    ck.finish({"evaluations": st["histories"], "distinct_nontrivial": len(distinct),
               "traces_validated_against_impl": st["histories"],
               "rule": "per accepted program: random walks; three call histories each (whole chunk then further feeds and two end calls; one byte per call; end in the middle then more feeds) + strict-done comparison; distinct programs by source hash with at least 3 states",
               "stats": st})


if __name__ == "__main__":
    main()
