"""
Build and drive the real generated C.

For one compiled program (header + source text from the real nmfu, program name `p`) a driver
`main.c` is generated that reads commands on stdin and prints one line per observable event, in
exactly the format of the Lean runtime model (NmfuModel/Rt.lean, command `rt` of the driver):

  start <CODE> | <dump>        feed <CODE> <pos|-> | <dump>      end <CODE> | <dump>
  hook <name> <inval> | <dump>  free                              dump | <dump>

Commands: start, feed:<hex>, feedy:<hex> (re-invoke while a yield code is returned; indirect
mode), end, free, force:<state>, seti:<out>:<val>, sets:<out>:<hex>, dump.
The input chunk is copied into an exact-size malloc block so that sanitizers see overreads.
"""
import os, subprocess, shutil, hashlib
from nmfu_api import nmfu

T = nmfu.OutputStorageType


def rt_opts_string():
    """Options of the current ProgramData as the Lean model's option letters."""
    F = nmfu.ProgramFlag
    do = nmfu.ProgramData.do
    s = ""
    if do(F.STRICT_DONE_TOKEN_GENERATION): s += "s"
    if do(F.ALLOCATE_STR_SPACE_DYNAMIC): s += "d"
    if do(F.ALLOCATE_STR_SPACE_DYNAMIC_ON_DEMAND): s += "o"
    if do(F.DELETE_STRING_FREE_MEMORY): s += "f"
    if do(F.STRINGS_AS_U8): s += "u"
    if do(F.UNSAFE_STRING_INDEXING): s += "x"
    if do(F.INDIRECT_START_PTR): s += "i"
    if do(F.ZERO_LEN_INPUT_SUPPORT): s += "z"
    if do(F.USE_PACKED_ENUMS): s += "p"
    if do(F.EOF_SUPPORT): s += "e"
    return s or "-"


def gen_main(outcome):
    """C driver text for a compiled program (must be called while its flags are still loaded)."""
    F = nmfu.ProgramFlag
    do = nmfu.ProgramData.do
    cctx = outcome.cctx
    outs = cctx.state_object_spec
    hooks = list(cctx.hooks)
    fcs = list(cctx.finish_codes)
    ycs = list(cctx.yield_codes)
    dyn = do(F.ALLOCATE_STR_SPACE_DYNAMIC)
    indirect = do(F.INDIRECT_START_PTR)
    eof = do(F.EOF_SUPPORT)
    L = []
    a = L.append
    a('#include "p.h"')
    a("#include <stdio.h>\n#include <stdlib.h>\n#include <string.h>\n#include <unistd.h>")
    a("static p_state_t S;")
    a("static void hexs(const unsigned char *p, unsigned long n) { for (unsigned long i = 0; i < n; i++) printf(\"%02x\", p[i]); }")
    a("static void dump(p_state_t *s) {")
    first = True
    for o in outs:
        sep = "" if first else " "
        first = False
        if o.type == T.STR:
            a(f'  printf("{sep}{o.name}=%lu:", (unsigned long)s->{o.name}_counter);')
            if dyn:
                a(f'  if (s->c.{o.name}) hexs((const unsigned char *)s->c.{o.name}, s->{o.name}_counter); else if (s->{o.name}_counter) printf("NULL");')
            else:
                a(f'  hexs((const unsigned char *)s->c.{o.name}, s->{o.name}_counter);')
            if o.str_null:
                if dyn:
                    a(f'  printf(":%s", !s->c.{o.name} ? "N" : (s->c.{o.name}[s->{o.name}_counter] == 0 ? "z" : "n"));')
                else:
                    a(f'  printf(":%s", s->c.{o.name}[s->{o.name}_counter] == 0 ? "z" : "n");')
            else:
                a('  printf(":-");')
        elif o.type == T.RAW:
            a(f'  printf("{sep}{o.name}=%lu:", (unsigned long)s->{o.name}_counter);')
            a(f'  hexs((const unsigned char *)&s->c.{o.name}, s->{o.name}_counter);')
            a('  printf(":-");')
        elif o.type == T.BOOL:
            a(f'  printf("{sep}{o.name}=%u", (unsigned)*(const unsigned char *)&s->c.{o.name});')
        elif o.type == T.INT and not o.int_signed:
            a(f'  printf("{sep}{o.name}=%llu", (unsigned long long)s->c.{o.name});')
        else:
            a(f'  printf("{sep}{o.name}=%lld", (long long)s->c.{o.name});')
    a("}")
    a("static const char *code(int r) {")
    a("  switch (r) { case P_OK: return \"OK\"; case P_FAIL: return \"FAIL\"; case P_DONE: return \"DONE\";")
    for c in fcs:
        a(f'  case P_FINISH_{c}: return "FINISH_{c}";')
    for c in ycs:
        a(f'  case P_YIELD_{c}: return "YIELD_{c}";')
    a('  default: return "?"; } }')
    glob = do(F.HOOK_GLOBAL)
    for h in hooks:
        name = f"p_{h}_hook" if glob else f"drv_{h}_hook"
        a(f'void {name}(p_state_t *s, uint8_t inval) {{ printf("hook {h} %d | ", inval); dump(s); printf("\\n"); }}')
    a("static int isyield(int r) { return " + (" || ".join(f"r == P_YIELD_{c}" for c in ycs) or "0") + "; }")
    a("static unsigned char *unhex(const char *h, size_t *n) { size_t l = strlen(h) / 2; unsigned char *b = malloc(l ? l : 1); for (size_t i = 0; i < l; i++) { unsigned v; sscanf(h + 2 * i, \"%2x\", &v); b[i] = v; } *n = l; if (!l) { free(b); b = malloc(0); } return b; }")
    a("int main(void) {")
    a("  char *line = NULL; size_t cap = 0; ssize_t len;")
    a("  memset(&S, 0xAA, sizeof S);")
    a("  { const char *al = getenv(\"DRV_ALARM\"); alarm(al ? atoi(al) : 10); }")
    a("  while ((len = getline(&line, &cap, stdin)) > 0) {")
    a("    if (line[len-1] == '\\n') line[--len] = 0;")
    a('    if (!strcmp(line, "start")) {')
    a("      memset(&S, 0xAA, sizeof S);")
    a('      printf("begin\\n");')
    if not glob:
        for h in hooks:
            a(f"      S.{h}_hook = drv_{h}_hook;")
    a("      int r = p_start(&S);")
    a('      printf("start %s | ", code(r)); dump(&S); printf("\\n");')
    a('    } else if (!strncmp(line, "feed:", 5)) {')
    a("      size_t n; unsigned char *b = unhex(line + 5, &n);")
    if indirect:
        a("      const uint8_t *p = b; int r = p_feed(&p, b + n, &S);")
        a('      printf("feed %s %ld | ", code(r), (long)(p - b)); dump(&S); printf("\\n");')
    else:
        a("      int r = p_feed(b, b + n, &S);")
        a('      printf("feed %s - | ", code(r)); dump(&S); printf("\\n");')
    a("      free(b);")
    a('    } else if (!strncmp(line, "feedy:", 6)) {')
    a("      size_t n; unsigned char *b = unhex(line + 6, &n);")
    if indirect:
        a("      const uint8_t *p = b; int r; size_t it = 0;")
        a("      do { r = p_feed(&p, b + n, &S);")
        a('        printf("feed %s %ld | ", code(r), (long)(p - b)); dump(&S); printf("\\n"); it++;')
        a("      } while (isyield(r) && it <= 4 * n + 8);")
    else:
        a('      printf("badop feedy\\n");')
    a("      free(b);")
    a('    } else if (!strcmp(line, "end")) {')
    if eof:
        a('      int r = p_end(&S); printf("end %s | ", code(r)); dump(&S); printf("\\n");')
    else:
        a('      printf("badop end\\n");')
    a('    } else if (!strcmp(line, "free")) {')
    if dyn:
        a('      p_free(&S); printf("free\\n");')
    else:
        a('      printf("free\\n");')
    a('    } else if (!strncmp(line, "force:", 6)) {')
    a("      S.state = atoi(line + 6);")
    a('    } else if (!strncmp(line, "seti:", 5)) {')
    a("      int idx = atoi(line + 5); const char *vs = strchr(line + 5, ':') + 1;")
    a("      long long v = (vs[0] == '-') ? strtoll(vs, NULL, 10) : (long long)strtoull(vs, NULL, 10);")
    a("      switch (idx) {")
    for i, o in enumerate(outs):
        if o.type in (T.INT, T.BOOL, T.ENUM):
            a(f"        case {i}: S.c.{o.name} = v; break;")
    a("        default: break; }")
    a('    } else if (!strncmp(line, "sets:", 5)) {')
    a("      int idx = atoi(line + 5); const char *h = strchr(line + 5, ':') + 1; size_t n; unsigned char *b = unhex(h, &n);")
    a("      switch (idx) {")
    for i, o in enumerate(outs):
        if o.type == T.STR:
            a(f"        case {i}: memcpy(S.c.{o.name}, b, n); {'S.c.' + o.name + '[n] = 0; ' if o.str_null else ''}S.{o.name}_counter = n; break;")
        elif o.type == T.RAW:
            a(f"        case {i}: memcpy(&S.c.{o.name}, b, n); S.{o.name}_counter = n; break;")
    a("        default: break; }")
    a("      free(b);")
    a('    } else if (!strcmp(line, "dump")) {')
    a('      printf("dump | "); dump(&S); printf("\\n");')
    a('    } else { printf("badop %s\\n", line); }')
    a("    fflush(stdout);")
    a("  }")
    a("  free(line);")
    a("  return 0;")
    a("}")
    return "\n".join(L) + "\n"


class Binary:
    def __init__(self, path, workdir):
        self.path = path
        self.workdir = workdir

    def run(self, ops, timeout=20):
        """ops: list of command strings.  Returns (lines, status) with status in ok|timeout|crash:<rc>|sanitizer.
        A wall-clock timeout is confirmed by CPU time before it is believed: on a loaded machine a parser that is
        merely not scheduled must not look like one that does not return."""
        r = self._run(ops, timeout, None)
        if r[1] == "timeout":
            return self._run(ops, timeout * 15 + 30, max(2, int(timeout)))
        return r

    def _run(self, ops, timeout, cpu):
        inp = "\n".join(ops) + "\n"
        env = dict(os.environ)
        env["ASAN_OPTIONS"] = "detect_leaks=1:abort_on_error=0:exitcode=97"
        env["UBSAN_OPTIONS"] = "halt_on_error=1:exitcode=98:print_stacktrace=0"
        pre = None
        if cpu is not None:
            env["DRV_ALARM"] = str(int(timeout) + 60)       # only the CPU limit decides in the confirmation run

            def pre():
                import resource
                resource.setrlimit(resource.RLIMIT_CPU, (cpu, cpu + 1))
        try:
            p = subprocess.run([self.path], input=inp, capture_output=True, text=True, timeout=timeout, env=env, preexec_fn=pre)
        except subprocess.TimeoutExpired as e:
            out = e.stdout.decode() if isinstance(e.stdout, bytes) else (e.stdout or "")
            return out.splitlines(), "timeout", ""
        lines = p.stdout.splitlines()
        if p.returncode == 0:
            return lines, "ok", p.stderr
        if p.returncode in (-14, -24, -9) and (cpu is not None or p.returncode == -14):
            return lines, "timeout", p.stderr
        if p.returncode in (97, 98) or "Sanitizer" in p.stderr or "runtime error" in p.stderr:
            return lines, "sanitizer", p.stderr[-3000:]
        return lines, f"crash:{p.returncode}", p.stderr[-2000:]


def build(outcome, workdir, sanitize=False, cc=None, extra=()):
    """Write p.h/p.c/main.c into workdir and compile.  Returns (Binary|None, compiler output)."""
    os.makedirs(workdir, exist_ok=True)
    with open(os.path.join(workdir, "p.h"), "w") as f:
        f.write(outcome.header)
    with open(os.path.join(workdir, "p.c"), "w") as f:
        f.write(outcome.source)
    with open(os.path.join(workdir, "main.c"), "w") as f:
        f.write(gen_main(outcome))
    exe = os.path.join(workdir, "t")
    if sanitize:
        # arithmetic of the user's own expressions (overflow, shifts) is the program's business
        cmd = [cc or "clang", "-g", "-O1", "-fsanitize=address,undefined", "-fno-sanitize=signed-integer-overflow,shift,bool,enum",
               "-fno-omit-frame-pointer", "-fno-sanitize-recover=undefined"]
    else:
        cmd = [cc or "gcc", "-O1"]
    cmd += ["-w", *extra, "-o", exe, "main.c", "p.c"]
    p = subprocess.run(cmd, cwd=workdir, capture_output=True, text=True)
    if p.returncode != 0:
        return None, (p.stdout + p.stderr)[-3000:]
    return Binary(exe, workdir), ""
