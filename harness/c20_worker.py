"""Subprocess worker for C20: compile a sequence of (source, args) jobs in ONE process, in order,
optionally perturbing the heap between phases, and print the exported machine of each."""
import sys, os, json, random
sys.path.insert(0, os.path.dirname(os.path.abspath(__file__)))


def main():
    jobs = json.load(sys.stdin)
    from nmfu_api import compile_program
    from export import export_machine, Unsupported
    # compile under the interpreter's default recursion limit, as a command-line run does (nmfu_api raises it for the
    # harness's own recursive walks): what nmfu itself does to the limit then persists from job to job, as it would
    # in any process that compiles several programs
    sys.setrecursionlimit(1000)

    def export_deep(dctx):
        keep = sys.getrecursionlimit()
        sys.setrecursionlimit(max(keep, 20000))
        try:
            return export_machine(dctx)
        finally:
            sys.setrecursionlimit(keep)
    rng = random.Random(jobs.get("junk_seed", 0))
    junk = []
    out = []
    for j in jobs["jobs"]:
        if jobs.get("junk"):
            # perturb allocation patterns so id()s and dict/set layouts differ between runs
            junk.append([object() for _ in range(rng.randrange(1, 5000))])
            if rng.random() < 0.5 and junk:
                junk.pop(rng.randrange(len(junk)))
        o = compile_program(j["src"], j["args"], codegen=True)
        if not o.ok:
            out.append({"kind": o.kind, "msg": o.msg.split("\n")[0][:120]})
            continue
        try:
            from nmfu_api import nmfu
            import re
            # the resolved configuration, and the emitted text with state numbers and addresses blanked
            # (numbering may legitimately follow hash order; everything else is a function of source and options)
            flags = sorted(f.name for f in nmfu.ProgramFlag if nmfu.ProgramData.do(f))
            api = sorted(set(re.findall(r"\b[A-Za-z_]+_hook\b|\bstate->[A-Za-z_]+_hook\b", o.source)))
            out.append({"kind": "ok", "machine": export_deep(o.dctx), "nstates": len(o.dctx.dfa.states),
                        "source_len": len(o.source), "flags": flags, "hook_refs": api, "header": o.header})
        except Unsupported as e:
            out.append({"kind": "unsupported", "msg": str(e)})
    json.dump(out, sys.stdout)


if __name__ == "__main__":
    main()
