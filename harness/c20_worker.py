"""Subprocess worker for C20: compile a sequence of (source, args) jobs in ONE process, in order,
optionally perturbing the heap between phases, and print the exported machine of each."""
import sys, os, json, random
sys.path.insert(0, os.path.dirname(os.path.abspath(__file__)))


def main():
    jobs = json.load(sys.stdin)
    from nmfu_api import compile_program
    from export import export_machine, Unsupported
    rng = random.Random(jobs.get("junk_seed", 0))
    junk = []
    out = []
    for j in jobs["jobs"]:
        if jobs.get("junk"):
            # perturb allocation patterns so id()s and dict/set layouts differ between runs
            junk.append([object() for _ in range(rng.randrange(1, 5000))])
            if rng.random() < 0.5 and junk:
                junk.pop(rng.randrange(len(junk)))
        o = compile_program(j["src"], j["args"], codegen=True)
        if not o.ok:
            out.append({"kind": o.kind, "msg": o.msg.split("\n")[0][:120]})
            continue
        try:
            out.append({"kind": "ok", "machine": export_machine(o.dctx), "nstates": len(o.dctx.dfa.states),
                        "source_len": len(o.source)})
        except Unsupported as e:
            out.append({"kind": "unsupported", "msg": str(e)})
    json.dump(out, sys.stdout)


if __name__ == "__main__":
    main()
