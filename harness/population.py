"""Program populations shared by the checks: corpus first, then generated programs."""
import glob, os, random, hashlib
from progen import gen_program, feature_args

REPO = os.environ.get("NMFU_REPO", "/repo")
VERIF = os.path.dirname(os.path.dirname(os.path.abspath(__file__)))


def corpus():
    files = sorted(glob.glob(os.path.join(REPO, "example/test/*.ok.nmfu"))) + \
        sorted(glob.glob(os.path.join(REPO, "example/*.nmfu"))) + \
        sorted(glob.glob(os.path.join(VERIF, "corpus/*.nmfu")))
    for f in files:
        src = open(f).read()
        feats = {"eof": True, "yields": True}
        yield {"name": os.path.basename(f), "src": src, "feats": feats, "args": feature_args(feats), "origin": "corpus"}


def generated(seed, n, **fixed):
    for k in range(n):
        rng = random.Random(f"{seed}/{k}")
        feats = {"eof": rng.random() < 0.5, "yields": rng.random() < 0.3}
        feats.update(fixed)
        src, meta = gen_program(rng, **feats)
        yield {"name": f"gen-{seed}-{k}", "src": src, "feats": feats, "args": feature_args(feats),
               "origin": "generated", "hist": meta["hist"]}


def population(seed, n_generated, with_corpus=True, **fixed):
    if with_corpus:
        yield from corpus()
    yield from generated(seed, n_generated, **fixed)


def src_hash(src):
    return hashlib.sha1(src.encode()).hexdigest()[:10]
