"""Program populations shared by the checks: corpus first, then generated programs."""
import glob, os, random, hashlib
from progen import gen_program, feature_args

REPO = os.environ.get("NMFU_REPO", "/repo")
VERIF = os.path.dirname(os.path.dirname(os.path.abspath(__file__)))


def corpus():
    files = sorted(glob.glob(os.path.join(REPO, "example/test/*.ok.nmfu"))) + \
        sorted(glob.glob(os.path.join(REPO, "example/*.nmfu"))) + \
        sorted(glob.glob(os.path.join(VERIF, "corpus/*.nmfu")))
    for f in files:
        src = open(f).read()
        feats = {"eof": True, "yields": True}
        yield {"name": os.path.basename(f), "src": src, "feats": feats, "args": feature_args(feats), "origin": "corpus"}


def generated(seed, n, **fixed):
    for k in range(n):
        rng = random.Random(f"{seed}/{k}")
        feats = {"eof": rng.random() < 0.5, "yields": rng.random() < 0.3}
        feats.update(fixed)
        src, meta = gen_program(rng, **feats)
        yield {"name": f"gen-{seed}-{k}", "src": src, "feats": feats, "args": feature_args(feats),
               "origin": "generated", "hist": meta["hist"]}


def boundary_programs():
    """Deterministic programs around buffer capacities and counter widths: constants and defaults of
    length N-1 / N / N+1, appends up to and beyond N, N at the integer-size boundaries."""
    out = []

    def add(name, src, **feats):
        f = {"eof": True, "yields": False}
        f.update(feats)
        out.append({"name": "bnd-" + name, "src": src, "feats": f, "args": feature_args(f), "origin": "boundary"})
    for n in (1, 2, 4, 255, 256, 257):
        for unt in (False, True):
            kind = "unterminated str" if unt else "str"
            tag = f"{'u' if unt else 't'}{n}"
            if not (n == 1 and not unt):
                add(f"fill-{tag}", f"out {kind}[{n}] s;\nhook full;\nhook okh;\nparser {{\n  try {{ s += /x+/; \";\"; okh(); }} catch (outofspace) {{ full(); wait \";\"; }}\n  \"!\";\n}}\n")
            if n <= 4:
                for ln in (n - 1, n, n + 1):
                    if ln < 0:
                        continue
                    lit = "abcdefgh"[:ln]
                    add(f"const-{tag}-{ln}", f"out {kind}[{n}] s;\nparser {{\n  \"a\"; s = \"{lit}\"; \"b\";\n}}\n")
                    if ln >= 1:
                        add(f"default-{tag}-{ln}", f"out {kind}[{n}] s = \"{lit}\";\nparser {{\n  \"a\"; s += /[a-z]*/; \";\";\n}}\n")
                add(f"charappend-{tag}", f"out {kind}[{n}] s;\nhook full;\nparser {{\n  loop {{ case {{ \"+\" -> {{ try {{ \"k\"; s += [65]; }} catch (outofspace) {{ full(); }} }} \"-\" -> {{ delete s; }} \";\" -> {{ break; }} }} }}\n}}\n")
    add("raw-fill", "out raw{uint16_t} r;\nhook full;\nparser {\n  try { r += /x+/; \";\"; } catch (outofspace) { full(); wait \";\"; }\n}\n")
    return out


def population(seed, n_generated, with_corpus=True, boundary=True, **fixed):
    if with_corpus:
        yield from corpus()
    if boundary:
        yield from boundary_programs()
    yield from generated(seed, n_generated, **fixed)


def src_hash(src):
    return hashlib.sha1(src.encode()).hexdigest()[:10]
