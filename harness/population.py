"""Program populations shared by the checks: corpus first, then generated programs."""
import glob, os, random, hashlib
from progen import gen_program, feature_args

REPO = os.environ.get("NMFU_REPO", "/repo")
VERIF = os.path.dirname(os.path.dirname(os.path.abspath(__file__)))


def corpus():
    files = sorted(glob.glob(os.path.join(REPO, "example/test/*.ok.nmfu"))) + \
        sorted(glob.glob(os.path.join(REPO, "example/*.nmfu"))) + \
        sorted(glob.glob(os.path.join(VERIF, "corpus/*.nmfu")))
    for f in files:
        src = open(f).read()
        feats = {"eof": True, "yields": True}
        # a regression program may bring directed inputs along: "// inputs: <text> | <text>" (Python string escapes allowed)
        directed = []
        for line in src.splitlines():
            if line.startswith("// inputs:"):
                directed += [x.strip().encode("latin-1").decode("unicode_escape").encode("latin-1").hex() for x in line[len("// inputs:"):].split("|")]
        yield {"name": os.path.basename(f), "src": src, "feats": feats, "args": feature_args(feats), "origin": "corpus",
               **({"inputs": directed} if directed else {})}


def generated(seed, n, **fixed):
    for k in range(n):
        rng = random.Random(f"{seed}/{k}")
        feats = {"eof": rng.random() < 0.5, "yields": rng.random() < 0.3}
        feats.update(fixed)
        src, meta = gen_program(rng, **feats)
        yield {"name": f"gen-{seed}-{k}", "src": src, "feats": feats, "args": feature_args(feats),
               "origin": "generated", "hist": meta["hist"]}


def boundary_programs():
    """Deterministic programs around buffer capacities and counter widths: constants and defaults of
    length N-1 / N / N+1, appends up to and beyond N, N at the integer-size boundaries."""
    out = []

    def add(name, src, inputs=(), **feats):
        f = {"eof": True, "yields": False}
        f.update(feats)
        out.append({"name": "bnd-" + name, "src": src, "feats": f, "args": feature_args(f), "origin": "boundary",
                    "inputs": [bytes(i).hex() for i in inputs]})
    for n in (1, 2, 4, 255, 256, 257):
        for unt in (False, True):
            kind = "unterminated str" if unt else "str"
            tag = f"{'u' if unt else 't'}{n}"
            if not (n == 1 and not unt):
                cap = n if unt else n - 1
                add(f"fill-{tag}", f"out {kind}[{n}] s;\nhook full;\nhook okh;\nparser {{\n  try {{ s += /x+/; \";\"; okh(); }} catch (outofspace) {{ full(); wait \";\"; }}\n  \"!\";\n}}\n",
                    inputs=[b"x" * max(cap - 1, 1) + b";!", b"x" * max(cap, 1) + b";!", b"x" * (cap + 1) + b";!", b"x" * (cap + 44) + b";!"])
            if n <= 4:
                for ln in (n - 1, n, n + 1):
                    if ln < 0:
                        continue
                    lit = "abcdefgh"[:ln]
                    add(f"const-{tag}-{ln}", f"out {kind}[{n}] s;\nparser {{\n  \"a\"; s = \"{lit}\"; \"b\";\n}}\n")
                    if ln >= 1:
                        add(f"default-{tag}-{ln}", f"out {kind}[{n}] s = \"{lit}\";\nparser {{\n  \"a\"; s += /[a-z]*/; \";\";\n}}\n")
                add(f"charappend-{tag}", f"out {kind}[{n}] s;\nhook full;\nparser {{\n  loop {{ case {{ \"+\" -> {{ try {{ \"k\"; s += [65]; }} catch (outofspace) {{ full(); }} }} \"-\" -> {{ delete s; }} \";\" -> {{ break; }} }} }}\n}}\n")
    # more states than one byte can number (the state variable's type), cut anywhere
    lit = "".join("abcdefghij"[i % 10] for i in range(300))
    add("long-literal", f"hook h;\nparser {{\n  \"{lit}\"; h(); \";\";\n}}\n",
        inputs=[lit.encode() + b";", lit.encode()[:270] + b"!", lit.encode()[:129]])
    # indexing bytes >= 0x80 (char vs uint8_t storage), the index at and around the size
    add("index-high", "out str[4] hdr;\nout int value = 0;\nout bool big = false;\nhook high;\nparser {\n  hdr += b/[00-ff][00-ff][00-ff]/;\n  value = [hdr[0] * 256 + hdr[1]];\n  if hdr[2] >= 128 { big = true; high(); \"x\"; } else { \"y\"; }\n  \";\";\n}\n",
        inputs=[bytes([0x81, 0x02, 0xfe, 0x78, 0x3b]), bytes([0x01, 0x90, 0x7f, 0x79, 0x3b]), bytes([0xff, 0xff, 0x80, 0x78, 0x3b])])
    add("index-edge", "out str[4] hdr;\nout int edge = 0;\nparser {\n  hdr += b/[00-ff][00-ff][00-ff]/;\n  edge = [hdr[2] + hdr[3] * 3 + hdr[4] * 5 + hdr[5] * 7];\n  \";\";\n}\n",
        inputs=[bytes([0x81, 0x02, 0xfe, 0x3b]), bytes([0xff, 0xff, 0x80, 0x3b])])
    # a break two conditional levels deep
    add("nested-cond-break", "out int depth = 0;\nout int n = 0;\nparser {\n  loop {\n    case {\n      \"(\" -> { depth = [depth + 1]; }\n      \")\" -> { if depth > 1 { depth = [depth - 1]; } else { if depth == 1 { n = [n + 1]; break; } } }\n      /[a-z]/ -> { }\n    }\n  }\n  \";\";\n}\n",
        inputs=[b"(a(b)c);", b"());"])
    add("empty-assign", "out str[8] tag;\nhook got;\nhook after;\nparser {\n  loop {\n    tag += /[a-z]+/; \";\"; got();\n    tag = \"\"; \"!\"; after();\n    case { \".\" -> { break; } \",\" -> { } }\n  }\n}\n",
        inputs=[b"abc;!,x;!.", b"q;!."])
    add("raw-fill", "out raw{uint16_t} r;\nhook full;\nparser {\n  try { r += /x+/; \";\"; } catch (outofspace) { full(); wait \";\"; }\n}\n")
    return out


def population(seed, n_generated, with_corpus=True, boundary=True, **fixed):
    if with_corpus:
        yield from corpus()
    if boundary:
        yield from boundary_programs()
    yield from generated(seed, n_generated, **fixed)


def src_hash(src):
    return hashlib.sha1(src.encode()).hexdigest()[:10]
