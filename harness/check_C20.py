"""
C20 — compilation is a pure function of source and options.

Each program is compiled (a) alone in a fresh process, (b) after several other programs in the
same process, (c) under other PYTHONHASHSEEDs with the heap perturbed between phases (so id()s,
set / dict iteration orders and weak-reference tables differ), (d) twice in a row in one process.
The accept / reject verdicts must be equal and the compiled machines must be behaviourally
equivalent: decided by the Lean equivalence certificate (sound for all inputs and all data
outcomes, NmfuProps/C05.lean + C20.lean), which is indifferent to state numbering, transition
order and on-value order, i.e. exactly to what hash order may legitimately change.
"""
import sys, os, json, random, subprocess, multiprocessing as mp
sys.path.insert(0, os.path.dirname(os.path.abspath(__file__)))
import common
from common import Check
import population

THEOREMS = ["Nmfu.C20_same_behaviour", "Nmfu.certOK_sound"]
HERE = os.path.dirname(os.path.abspath(__file__))


def run_worker(jobs, hashseed, junk, junk_seed=0):
    env = dict(os.environ)
    env["PYTHONHASHSEED"] = str(hashseed)
    p = subprocess.run(["/venv/bin/python", os.path.join(HERE, "c20_worker.py")],
                       input=json.dumps({"jobs": jobs, "junk": junk, "junk_seed": junk_seed}),
                       capture_output=True, text=True, env=env, timeout=600)
    if p.returncode != 0:
        raise RuntimeError("worker failed: " + p.stderr[-500:])
    return json.loads(p.stdout[p.stdout.index("["):])


def work(job):
    group, seed, tier = job
    rng = random.Random(f"{seed}/c20/{group[0]['name']}")
    extra = [[], [], ["-fhook-per-state"], ["-fallocate-str-space-dynamic"], ["-fallocate-str-space-dynamic-on-demand"], ["-fstrings-as-u8"]]
    jobs = [{"src": p["src"], "args": ["-O" + str(rng.choice([0, 1, 3]))] + p["args"] + rng.choice(extra)} for p in group]
    res = {"names": [p["name"] for p in group], "compared": 0, "viol": [], "tool": None}
    try:
        # (a) each alone, fresh process
        alone = [run_worker([j], 0, False)[0] for j in jobs]
        runs = []
        # (b) in sequence in one process, each twice
        seq = []
        for j in jobs:
            seq += [j, j]
        runs.append(("same process, after other programs, twice in a row", seq, 0, False, [i // 2 for i in range(len(seq))]))
        # (c) other hash seeds + junk, shuffled order
        for hs in ([1, 2, 3, 4242] if tier == "quick" else [1, 2, 3, 5, 7, 4242, 99991, 123456789]):
            order = list(range(len(jobs)))
            rng.shuffle(order)
            runs.append((f"PYTHONHASHSEED={hs}, perturbed heap, order {order}", [jobs[i] for i in order], hs, True, order))
    except Exception as e:
        res["tool"] = repr(e)[:300]
        return res
    from modeldrv import Model
    model = Model()
    for what, seq, hs, junk, idxs in runs:
        try:
            outs = run_worker(seq, hs, junk, junk_seed=rng.randrange(10 ** 6))
        except Exception as e:
            res["tool"] = repr(e)[:300]
            continue
        for o, i in zip(outs, idxs):
            ref = alone[i]
            res["compared"] += 1
            if o["kind"] != ref["kind"]:
                res["viol"].append({"kind": "verdict-differs", "history": what, "program": group[i]["src"], "args": jobs[i]["args"],
                                    "alone": ref["kind"] + " " + ref.get("msg", ""), "here": o["kind"] + " " + o.get("msg", "")})
                continue
            if o["kind"] != "ok":
                continue
            for what_differs in ("flags", "hook_refs", "header"):
                if o.get(what_differs) != ref.get(what_differs):
                    res["viol"].append({"kind": f"{what_differs}-differ", "history": what, "program": group[i]["src"], "args": jobs[i]["args"],
                                        "alone": str(ref.get(what_differs))[:600], "here": str(o.get(what_differs))[:600]})
                    break
            r = model.ask("equiv", 0, 1, 400000, ref["machine"], o["machine"])
            if not (r.startswith("closed") and "cert=true" in r):
                res["viol"].append({"kind": "machines-differ", "history": what, "program": group[i]["src"], "args": jobs[i]["args"],
                                    "checker": r[:800]})
    model.close()
    return res


def main():
    ck = Check("C20", "translation_validation")
    ck.lean_obligations("NmfuProps.C20", THEOREMS)
    n_gen = 60 if ck.tier == "quick" else 700
    progs = list(population.population(ck.seed, n_gen))
    rng = random.Random(ck.seed)
    rng.shuffle(progs)
    groups = [progs[i:i + 4] for i in range(0, len(progs), 4)]
    # programs that could interact through state kept between compilations: a compilation that fails
    # inside a macro body, then programs using the same names; a name that is both a hook and a macro;
    # three greedy clauses finishing on the same input
    def hp(name, src, args=()):
        return {"name": name, "src": src, "args": list(args), "feats": {}}
    h1 = hp("hist-fails-in-macro", 'out int a;\nmacro put(out target) { "x"; target = 7; nosuchhook(); }\nparser { put(a); }\n')
    h2 = hp("hist-same-names", 'out int a;\nout int target;\nparser { "x"; target = 7; }\n')
    h3 = hp("hist-undeclared", 'out int a;\nparser { "x"; target = 7; }\n')
    h4 = hp("hist-hook-and-macro", 'hook greet;\nmacro greet() { "hello "; }\nparser { greet(); "world"; }\n')
    h5 = hp("hist-greedy-three", 'out int which;\nparser { greedy case { /[a-z]+/ -> { which = 1; } prio 1 "define" -> { which = 2; } prio 1 /defin[e]/ -> { which = 3; } } ";"; }\n')
    h6 = hp("hist-macro-args", 'out int a;\nout int b;\nmacro two(out x, expr e) { x = e; "k"; }\nmacro one(out y) { two(y, [y + 1]); }\nparser { one(a); one(b); }\n')
    # a regex whose alphabet keeps two disjoint inverted sets (which one became the Else transition used to depend on set order)
    h7 = hp("hist-two-inverted-sets", 'parser { b/ff([6f-92]+[^00-72][^2e-fe]{2,2})+/; }\n', ["-feof-support"])
    h8 = hp("hist-two-inverted-sets-text", 'out str[8] s;\nparser { s += /[^a-m]+[^n-z]/; /[^a-m][^n-z]{2}/; "."; }\n')
    # verdicts that hang on a set of frontier states: an if whose branches start with inverted sets after an open-ended match
    h9 = hp("hist-if-after-lookahead", 'out int c = 0;\nparser { /x(ay)?/; if c == 0 { /[^a]p/; } else { /[^b]q/; } }\n')
    h10 = hp("hist-if-after-lookahead-2", 'out int c = 0;\nparser { /x(ay)?(bz)?/; if c == 0 { /[^a]p/; } elif c == 1 { /[^b]q/; } else { /[^ab]r/; } }\n')
    # interpreter-wide limits: a short program with a deep automaton (beyond the recursion limit: diagnosed) next to a long
    # program of many shallow statements - the verdict on the first must not depend on having compiled the second
    h11 = hp("hist-deep-literal", 'out int n = 0;\nparser { "' + "a" * 1500 + '"; n = 1; }\n')
    h12 = hp("hist-many-statements", "parser {\n" + "".join(f'  "{chr(97 + i % 26)}";\n' for i in range(400)) + "}\n")
    h13 = hp("hist-deep-literal-casei", 'parser { "' + "b" * 1200 + '"i; }\n')
    groups += [[h1, h2, h3, h4], [h4, h5, h1, h3], [h6, h1, h6, h2], [h7, h8, h5, h7], [h9, h10, h9, h5], [h12, h11, h13, h2]]
    progs = progs + [h1, h2, h3, h4, h5, h6, h7, h8, h9, h10, h11, h12, h13]
    with mp.Pool(min(14, os.cpu_count() or 4)) as pool:
        results = pool.map(work, [(g, ck.seed, ck.tier) for g in groups], chunksize=1)
    st = {"programs": len(progs), "histories_compared": 0}
    for r in results:
        st["histories_compared"] += r["compared"]
        if r["tool"]:
            ck.notes.append({"tool_error": r["tool"]})
        for v in r["viol"]:
            ck.report(f"{v['kind']}/{population.src_hash(v['program'])}",
                      f"{v['kind']} between the compilation alone in a fresh process and: {v['history']}", v)
        if len(ck.samples) < 3:
            ck.samples.append({"programs": r["names"], "comparisons": r["compared"]})
        ck.obligations += r["compared"]
        ck.discharged += r["compared"] - len(r["viol"])
    ck.finish({"programs": st["programs"], "disagreements_checked": st["histories_compared"],
               "evaluations": st["histories_compared"], "distinct_nontrivial": len(progs),
               "rule": "programs in groups of 4: alone in a fresh process vs same-process sequences (each twice) vs other hash seeds with perturbed heap and shuffled order; distinct programs",
               "stats": st})


if __name__ == "__main__":
    main()
