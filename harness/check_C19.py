"""
C19 — command-line options resolve to a consistent configuration.

Translator: the flag table (value, default, implies, exclusive_with), the -O level table and the
clusters of related flags are re-extracted from the current nmfu.py into
lean/NmfuModel/Generated/Flags.lean; `lake build` re-checks NmfuProps/C19.lean and C19Order.lean
(order independence for every command line) against them.
Correspondence + direct evaluation on the real `ProgramData.load_commandline_flags`:
  * every assignment (absent / on / off) of the flags related by implies / exclusive metadata x
    every -O level (thorough: all; quick: every single-cluster assignment + a seeded sample),
    options in a random order: complete flag map equal to the Lean model's; implied flags on,
    exclusive flags never both on, two explicitly requested exclusive flags -> error; and the
    full-table model equals the product of the cluster models;
  * several permutations of the same options: identical outcome;
  * every optimisation flag x level x explicit setting: override beats level, levels cumulative;
  * long random command lines with repeated flags and all option forms: equal to the model;
  * unknown / malformed options raise an error.
"""
import sys, os, random, itertools, io, contextlib
sys.path.insert(0, os.path.dirname(os.path.abspath(__file__)))
import common
from common import Check

THEOREMS = ["Nmfu.C19_override_beats_level", "Nmfu.C19_levels_cumulative", "Nmfu.C19_related_flags_consistent",
            "Nmfu.C19_order_independent_partial", "Nmfu.clusters_closed", "Nmfu.lastVal_normalize",
            "Nmfu.resolve_get_unrelated",
            # NmfuProps/C19Order.lean: projection onto closed sets of flags, and order freedom of the whole table
            "Nmfu.resolveNF_proj_some", "Nmfu.resolveNF_fail_cluster", "Nmfu.resolveNF_order_free",
            "Nmfu.C19_cluster_order_free", "Nmfu.C19_order_independent_all", "Nmfu.C19_order_independent_perm_all",
            "Nmfu.C19_consistent_all", "Nmfu.C19_explicit_exclusive_is_error", "Nmfu.clusterGoodB_all", "Nmfu.clusterOrderFreeB_all"]


def main():
    ck = Check("C19", "proof")
    import translate
    changed = translate.regenerate({"Flags.lean"})
    ck.coverage["generated_tables_changed"] = changed
    ck.lean_obligations("NmfuProps.C19Order", THEOREMS)
    from nmfu_api import nmfu
    from modeldrv import Model
    model = Model()
    F = nmfu.ProgramFlag
    PD = nmfu.ProgramData
    byval = {int(f.value): f for f in F}
    rng = random.Random(ck.seed)

    def fname(f):
        return f.name.lower().replace("_", "-")

    def real(tokens):
        try:
            with contextlib.redirect_stdout(io.StringIO()):
                PD.load_commandline_flags(tokens + ["x.nmfu"])
            return ("ok", {int(f.value): bool(PD.do(f)) for f in F})
        except RuntimeError as e:
            return ("error", "RuntimeError")
        except SystemExit:
            return ("exit", None)
        except Exception as e:
            return ("error", type(e).__name__)

    def model_cli(level, ov):
        r = model.ask("cli", level, ",".join(f"{k}:{1 if v else 0}" for k, v in ov))
        w = r.split()
        cp = "clusterProduct=true" in r
        if w[0] == "ok":
            return ("ok", {int(x.split("=")[0]): x.split("=")[1] == "1" for x in w[2:]}, cp)
        return ("error", None, cp)

    def tokens_for(level, ov, style=0):
        t = []
        if level is not None:
            t.append(f"-O{level}")
        for k, v in ov:
            n = fname(byval[k])
            form = style if style else rng.randrange(3)
            if form == 0 or form == 3:
                t.append(("-f" if v else "-fno-") + n)
            elif form == 1:
                t += ["--flag", f"{n}={'yes' if v else 'no'}"]
            else:
                t += ["--flag", n] if v else ["--flag", f"{n}=off"]
        return t

    related = sorted({int(f.value) for f in F if f.implies or f.exclusive_with} |
                     {int(x) for f in F for x in list(f.implies) + list(f.exclusive_with)})
    # clusters from the generated file (same computation as translate)
    import re
    gen = open(os.path.join(common.LEAN, "NmfuModel", "Generated", "Flags.lean")).read()
    clusters = [[int(x) for x in c.split(",")] for c in re.findall(r"\[([\d, ]+)\]", gen.split("relatedClusters")[1].split("\n")[0])]
    stats = {"related_flags": len(related), "assignments_checked": 0, "permutation_groups": 0, "long_lines": 0,
             "malformed_lines": 0, "level_cases": 0, "error_outcomes": 0, "exception_classes": {}}
    samples = []

    def check_case(level, ov, what):
        toks = tokens_for(level, ov, style=3)
        rr = real(toks)
        mr = model_cli(level if level is not None else 1, ov)
        stats["assignments_checked"] += 1
        if rr[0] == "error":
            stats["error_outcomes"] += 1
            stats["exception_classes"][rr[1]] = stats["exception_classes"].get(rr[1], 0) + 1
        if (rr[0] == "ok") != (mr[0] == "ok") or (rr[0] == "ok" and rr[1] != mr[1]):
            diff = {k: (rr[1][k], mr[1].get(k)) for k in rr[1] if mr[1] and rr[1][k] != mr[1].get(k)} if rr[0] == "ok" and mr[0] == "ok" else None
            ck.broken_obligation(f"correspondence resolve vs load_commandline_flags ({what})",
                                 {"tokens": toks, "real": rr[0], "model": mr[0], "diff": diff})
        if not mr[2]:
            ck.broken_obligation("full-table model differs from the product of the cluster models", {"tokens": toks})
        # direct predicates on the real implementation
        ovd = dict(ov)
        both = [(f, x) for f in F for x in f.exclusive_with if ovd.get(int(f.value)) is True and ovd.get(int(x)) is True]
        if rr[0] == "ok":
            fl = rr[1]
            for f in F:
                if fl[int(f.value)]:
                    for x in f.implies:
                        if not fl[int(x)]:
                            ck.report("implied-flag-off", f"{f.name} is on but the implied {F(x).name} is off", {"tokens": toks})
                for x in f.exclusive_with:
                    if fl[int(f.value)] and fl[int(x)]:
                        ck.report("exclusive-both-on", f"{f.name} and {F(x).name} are both on", {"tokens": toks})
            if both:
                ck.report("explicit-exclusive-accepted", f"{both[0][0].name} and {F(both[0][1]).name} both requested explicitly, no error", {"tokens": toks})
        elif rr[0] == "error" and rr[1] != "RuntimeError":
            ck.report("cli-internal-exception", f"flag resolution raised {rr[1]}", {"tokens": toks})
        return rr

    # 1. assignments of the related flags
    all_assign = itertools.product([None, True, False], repeat=len(related))
    quick = ck.tier == "quick"
    cases = []
    for c in clusters:                      # every single-cluster assignment
        for vals in itertools.product([None, True, False], repeat=len(c)):
            cases.append([(k, v) for k, v in zip(c, vals) if v is not None])
    if quick:
        for _ in range(6000):
            cases.append([(k, v) for k, v in ((k, rng.choice([None, True, False])) for k in related) if v is not None])
    else:
        for vals in all_assign:
            cases.append([(k, v) for k, v in zip(related, vals) if v is not None])
    for i, ov in enumerate(cases):
        for level in ([rng.randrange(4)] if quick or len(ov) > 5 else [0, 1, 2, 3]):
            o = list(ov)
            rng.shuffle(o)
            rr = check_case(level, o, "related flags")
            if len(samples) < 3 and len(o) >= 3:
                samples.append({"tokens": tokens_for(level, o, style=3), "outcome": rr[0]})
    # 2. permutations
    for _ in range(300 if quick else 3000):
        ov = [(k, rng.choice([True, False])) for k in rng.sample(related, rng.randint(2, 6))]
        level = rng.randrange(4)
        outs = set()
        for _ in range(6):
            o = list(ov)
            rng.shuffle(o)
            rr = real(tokens_for(level, o, style=3))
            outs.add(repr(rr))
        stats["permutation_groups"] += 1
        if len(outs) > 1:
            ck.report("order-dependent", "the outcome depends on the order of the options", {"options": tokens_for(level, ov, style=3), "outcomes": sorted(outs)[:2]})
    # 3. optimisation flags
    levels = PD._OPTIMIZE_LEVELS
    optflags = [f for lv in levels.values() for f in lv]
    for f in optflags:
        prev = None
        for level in sorted(levels):
            for v in (None, True, False):
                ov = [] if v is None else [(int(f.value), v)]
                extra = [(int(g.value), rng.choice([True, False])) for g in rng.sample(optflags, 2) if g != f]
                rr = check_case(level, ov + extra, "optimisation flags")
                stats["level_cases"] += 1
                if rr[0] != "ok":
                    continue
                val = rr[1][int(f.value)]
                if v is not None and val != v:
                    ck.report("override-does-not-beat-level", f"{f.name} explicitly {v} but resolved {val} at -O{level}", {"tokens": tokens_for(level, ov + extra, style=3)})
                if v is None:
                    if prev is True and not val:
                        ck.report("levels-not-cumulative", f"{f.name} on at a lower level but off at -O{level}", {"flag": f.name, "level": level})
                    prev = val
    # 4. long lines with repeats and all forms, over all flags
    allflags = [int(f.value) for f in F]
    for _ in range(1500 if quick else 20000):
        ov = [(rng.choice(allflags), rng.choice([True, False])) for _ in range(rng.randint(1, 12))]
        level = rng.choice([None, 0, 1, 2, 3])
        toks = tokens_for(level, ov)
        rng_pos = rng.randrange(len(toks) + 1)
        rr = real(toks)
        mr = model_cli(level if level is not None else 1, ov)
        stats["long_lines"] += 1
        if (rr[0] == "ok") != (mr[0] == "ok") or (rr[0] == "ok" and rr[1] != mr[1]):
            ck.broken_obligation("correspondence resolve vs load_commandline_flags (long lines)", {"tokens": toks, "real": rr[0], "model": mr[0]})
    # 5. malformed / unknown
    bad_lines = [["-fnot-a-flag"], ["-fno-not-a-flag"], ["--flag", "bogus"], ["--flag", "bogus=yes"], ["--flag"], ["-O9"], ["-Ox"], ["-O"], ["-O-9"], ["-O-1"], ["-O+1"], ["-O1x"],
                 ["--nonsense", "3"], ["--max-shortcircuit-fallthrough", "abc"], ["--max-shortcircuit-fallthrough"], ["-"], ["-q"],
                 ["--flag", "eof-support=yes=no"], ["-d", "nothing"], ["--dump", "bogus"], ["-o", "a.b"], ["-fEOF_SUPPORT_X"],
                 # a value that is neither an affirmative nor a negative; junk after an option that takes no value
                 ["--flag", "strings-as-u8=maybe"], ["--flag", "eof-support=true"], ["--flag", "eof-support="], ["--flag", "eof-support=0"],
                 ["-tfoo"], ["-t1"], ["-dfoo"], ["-d"]]
    for _ in range(60 if quick else 600):
        junk = "".join(rng.choice("abcxyz-_=9") for _ in range(rng.randint(1, 8)))
        bad_lines.append([rng.choice(["-f", "-fno-", "--", "-O", "--flag "]).strip() + junk] if rng.random() < 0.7 else ["--flag", junk])
    for toks in bad_lines:
        rr = real(list(toks))
        stats["malformed_lines"] += 1
        known = False
        if toks[0].startswith("-f"):
            n = toks[0][2:]
            n = n[3:] if n.startswith("no-") else n
            known = n.upper().replace("-", "_") in F.__members__
        if toks[0] == "--flag" and len(toks) > 1:
            known = toks[1].split("=")[0].upper().replace("-", "_") in F.__members__ and toks[1].count("=") <= 1 and \
                (toks[1].count("=") == 0 or toks[1].split("=")[1] in ("yes", "on", "no", "off"))
        if toks[0].startswith("-O") and toks[0][2:].isdigit() and int(toks[0][2:]) in levels:
            known = True
        if rr[0] == "ok" and not known:
            ck.report("malformed-option-ignored", f"malformed or unknown option accepted: {toks}", {"tokens": toks})
        if rr[0] == "error":
            stats["exception_classes"][rr[1]] = stats["exception_classes"].get(rr[1], 0) + 1
    model.close()
    ck.samples = samples or [{"note": "no sample"}]
    ck.finish({"evaluations": stats["assignments_checked"] + stats["long_lines"] + stats["malformed_lines"] + 6 * stats["permutation_groups"],
               "distinct_nontrivial": len(cases),
               "traces_validated_against_impl": stats["assignments_checked"] + stats["long_lines"],
               "exhaustive": not quick,
               "rule": "assignments of the related flags x levels (thorough: all 3^n x 4); non-trivial = distinct assignment of at least one related flag",
               "stats": stats, "clusters": clusters})


if __name__ == "__main__":
    main()
