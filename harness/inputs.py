"""Input generation for compiled machines: byte classes and biased random walks."""
from nmfu_api import nmfu


def byte_classes(dfa):
    """Representatives of the partition of 0..255 induced by the machine's on-value sets."""
    sig = {}
    sets = []
    for st in dfa.states:
        for tr in st.transitions:
            s = frozenset(ord(v) for v in tr.on_values if isinstance(v, str))
            if s:
                sets.append(s)
    for b in range(256):
        key = tuple(b in s for s in sets)
        sig.setdefault(key, []).append(b)
    reps = []
    for key, bs in sig.items():
        reps.append(bs[0])
        if len(bs) > 1 and any(key):
            reps.append(bs[-1])
    return sorted(set(reps)), sig


def random_walk(dfa, rng, length, p_follow=0.85):
    """A byte string that mostly follows transitions of the machine (ignoring data)."""
    out = []
    st = dfa.starting_state
    alpha = sorted({ord(v) for s in dfa.states for t in s.transitions for v in t.on_values if isinstance(v, str)}) or [97]
    steps = 0
    while len(out) < length and steps < 6 * length + 20:
        steps += 1
        trs = [t for t in getattr(st, "transitions", []) if t.target is not None]
        if not trs:
            st = dfa.starting_state
            out.append(rng.choice(alpha))
            continue
        if rng.random() < p_follow:
            t = rng.choice(trs)
            bs = [ord(v) for v in t.on_values if isinstance(v, str)]
            if t.is_fallthrough or not bs:
                st = t.target if t.target in dfa.states else dfa.starting_state
                if not t.is_fallthrough:
                    out.append(rng.choice(alpha) if rng.random() < 0.7 else rng.randrange(256))
                continue
            # the ends of a range are where off-by-one errors live
            out.append(rng.choice([min(bs), max(bs)]) if rng.random() < 0.4 else rng.choice(bs))
            st = t.target if t.target in dfa.states else dfa.starting_state
        else:
            b = rng.choice(alpha) if rng.random() < 0.7 else rng.randrange(256)
            out.append(b)
            try:
                t = st[chr(b)] if not isinstance(st, nmfu.DFConditionPoint) else None
            except Exception:
                t = None
            st = t.target if t is not None and t.target in dfa.states else dfa.starting_state
    return bytes(out)


def chunkings(data, rng, k):
    """k random compositions of len(data) plus the canonical ones (whole, all-ones, each single cut)."""
    n = len(data)
    res = [[n]] if n else [[]]
    if n > 1:
        res.append([1] * n)
        for c in range(1, n):
            res.append([c, n - c])
    for _ in range(k):
        cuts = sorted(set(rng.randrange(1, n) for _ in range(rng.randint(1, max(1, n // 2))))) if n > 1 else []
        parts = []
        prev = 0
        for c in cuts + [n]:
            parts.append(c - prev)
            prev = c
        res.append([p for p in parts if p > 0])
    seen = set()
    out = []
    for r in res:
        t = tuple(r)
        if t not in seen:
            seen.add(t)
            out.append(r)
    return out


def extra(prog):
    """Directed inputs a program brings along (boundary programs: fill a buffer exactly, pass it)."""
    return [bytes.fromhex(x) if isinstance(x, str) else bytes(x) for x in prog.get("inputs", [])]
