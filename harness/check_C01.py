"""
C01 — accepted programs behave as their procedural reading prescribes.

Programs (corpus + generated, the whole statement language) are exported twice: the source, by an
exporter independent of nmfu's front end, into the Lean reference semantics; the machine the real
compiler built.  The Lean equivalence certificate (sound for all inputs and all data outcomes,
NmfuProps/C01.lean) must hold between them, at -O1 and for a part of the population at -O3.
"""
import sys, os
sys.path.insert(0, os.path.dirname(os.path.abspath(__file__)))
import common, population, refcheck

THEOREMS = ["Nmfu.C01_machine_refines_reference", "Nmfu.certOK_sound", "Nmfu.certOK_lag_one",
            "Nmfu.C01_perbyte_append", "Nmfu.C01_perbyte_if", "Nmfu.C01_perbyte_if_else"]
EXCLUDE = {"lexer.nmfu": "certificate exploration exceeds the time limit (greedy case over large classes)",
           "reg-catch-into-trailing-optional-wait.nmfu": "an optional whose body starts with a wait: the reference enters it on any byte (a wait takes any byte), nmfu only on the first byte of the wait's pattern; the documentation leaves it open, no violation is claimed either way (the program is a C05 regression: the levels must agree with each other)",
           "gtfs-realtime.nmfu": "nested foreach + end-of-input slack not covered by the relaxed comparison",
           "condition-foreach.ok.nmfu": "foreach action block containing a conditional with matches (exporter)"}

if __name__ == "__main__":
    t = common.tier()
    n = 120 if t == "quick" else 2500
    progs = [p for p in population.population(common.seed(), n) if p["name"] not in EXCLUDE]
    for i, p in enumerate(progs):
        p["also_O3"] = (i % 3 == 0)
    refcheck.run("C01", THEOREMS, "NmfuProps.C01", progs,
                 "corpus (3 programs excluded, see DESIGN) + generated programs over the whole statement language; reference vs machine at -O1 (every third program also at -O3); distinct accepted programs with at least 3 states")
