"""
C15 — literals denote exactly the bytes and values they spell.

Translator: the graphs of _convert_string (escapes), _convert_char_const, _create_casei_from and
_escape_string on their whole one-character domains are re-extracted into
lean/NmfuModel/Generated/Lits.lean and proved equal to the hand models (NmfuProps/C15.lean), where
the round-trip and spelling theorems are proved for every byte string.
Correspondence on multi-character inputs: the real Python functions vs the Lean functions on
random strings; and end-to-end through the compiled C: every byte 0..255, in each spelling (raw
character, \\xHH, named escape) and each position — string assignment, string default, literal
match, case-insensitive match, binary-string match, character constant, integer literal — must be
stored / matched exactly as spelled.
"""
import sys, os, random, shutil
sys.path.insert(0, os.path.dirname(os.path.abspath(__file__)))
import common
from common import Check

THEOREMS = ["Nmfu.escape_roundtrip", "Nmfu.escape_length", "Nmfu.convertString_spelled", "Nmfu.convertString_raw",
            "Nmfu.simpleEscape_spec", "Nmfu.charConst_spec", "Nmfu.caseFold_spec", "Nmfu.graph_stringEscape",
            "Nmfu.graph_charConst", "Nmfu.graph_caseFold", "Nmfu.graph_escape"]

NAMED = {10: "\\n", 13: "\\r", 9: "\\t", 8: "\\b", 0: "\\0", 34: '\\"', 92: "\\\\"}


def spell(b, style, rng):
    """nmfu source spelling of byte b inside a string literal."""
    if style == "hex" or (style == "mixed" and rng.random() < 0.4):
        return f"\\x{b:02x}" if rng.random() < 0.5 else f"\\x{b:02X}"
    if b in NAMED and (style == "named" or rng.random() < 0.7):
        return NAMED[b]
    if b in (34, 92, 10, 13):      # cannot appear raw
        return f"\\x{b:02x}"
    return chr(b)


def main():
    ck = Check("C15", "proof")
    import translate
    ck.coverage["generated_tables_changed"] = translate.regenerate({"Lits.lean"})
    ck.lean_obligations("NmfuProps.C15", THEOREMS)
    from nmfu_api import nmfu, compile_program
    from modeldrv import Model
    import cdriver
    model = Model()
    rng = random.Random(ck.seed)
    quick = ck.tier == "quick"
    st = {"python_vs_lean": 0, "c_programs": 0, "bytes_through_c": 0, "match_checks": 0, "int_literals": 0}
    P = nmfu.ParseCtx

    def lean(kind, codes):
        r = model.ask("lit", kind, ",".join(str(c) for c in codes))
        if r.startswith("ok"):
            return [int(x) for x in r.split()[1:]]
        return None

    # 1. Python functions vs Lean models on random multi-character inputs
    for _ in range(1500 if quick else 20000):
        n = rng.randint(0, 12)
        src = ""
        for _ in range(n):
            k = rng.random()
            if k < 0.5:
                src += chr(rng.choice([rng.randrange(32, 127), rng.randrange(0, 256)]))
            elif k < 0.8:
                src += "\\" + rng.choice("nrtb0\"\\")
            elif k < 0.95:
                src += "\\x" + rng.choice("0123456789abcdefABCDEF") + rng.choice("0123456789abcdefABCDEFg")
            else:
                src += "\\" + chr(rng.randrange(32, 127))
        if src.endswith("\\") and not src.endswith("\\\\"):
            src += "n"
        try:
            py = [ord(c) for c in P._convert_string(None, '"' + src + '"')]
        except Exception:
            py = None
        ln = lean("convstr", [ord(c) for c in src])
        st["python_vs_lean"] += 1
        if py != ln:
            ck.broken_obligation("correspondence _convert_string vs Lit.convertString", {"source": src, "python": py, "lean": ln})
        bs = [rng.randrange(256) for _ in range(rng.randint(0, 10))]
        py = [ord(c) for c in nmfu.CodegenCtx._escape_string(None, bytes(bs))]
        py2 = [ord(c) for c in nmfu.CodegenCtx._escape_string(None, "".join(chr(b) for b in bs))]
        ln = lean("escape", bs)
        st["python_vs_lean"] += 1
        if py != ln or py2 != ln:
            ck.broken_obligation("correspondence _escape_string vs Lit.escapeString", {"bytes": bs, "python": py, "python_str": py2, "lean": ln})
        # direct predicate: what C lexes from the emitted constant is the byte string
        lx = lean("clex", py2)
        if lx != bs:
            ck.report("escape-not-roundtrip", f"_escape_string({bs}) = {''.join(chr(c) for c in py2)!r} does not lex back to the bytes",
                      {"bytes": bs, "emitted": "".join(chr(c) for c in py2), "lexed": lx})
        t = rng.choice(["", "+", "-"]) + rng.choice([str(rng.randrange(10 ** rng.randint(1, 12))), "0x" + "".join(rng.choice("0123456789abcdefABCDEF") for _ in range(rng.randint(1, 10))),
                                                       "0b" + "".join(rng.choice("01") for _ in range(rng.randint(1, 20)))])
        if t[0] == "+" and not t[1:3] == "0x":
            pass
        try:
            pyv = P._convert_int(None, t)
        except Exception:
            pyv = None
        lv = model.ask("lit", "int", ",".join(str(ord(c)) for c in t))
        lv = int(lv.split()[1]) if lv.startswith("ok") else None
        st["int_literals"] += 1
        if pyv != lv:
            ck.broken_obligation("correspondence _convert_int vs Lit.convertInt", {"text": t, "python": pyv, "lean": lv})

    # 2. end to end through the compiled C
    wd = common.scratch_dir("c15")

    def run_prog(src, ops, args=("-findirect-start-ptr",), extra=()):
        o = compile_program(src, ["-O1", *args])
        if not o.ok:
            return None, ("rejected: " if o.kind in ("syntax", "parse", "compile", "codegen") else "") + repr(o)
        b, err = cdriver.build(o, wd, extra=extra)
        st["c_programs"] += 1
        if b is None:
            return None, "build: " + err[:300]
        lines, status, err = b.run(ops)
        if status != "ok":
            return None, f"{status}: {err[-200:]}"
        return lines, ""

    def dump_bytes(line, name="s"):
        d = line.partition(" | ")[2]
        for part in d.split():
            if part.startswith(name + "="):
                f = part[len(name) + 1:].split(":")
                return int(f[0]), bytes.fromhex(f[1]) if f[1] not in ("NULL",) else None, f[2]
        return None

    try:
        styles = ["raw", "hex", "named"] if quick else ["raw", "hex", "named", "mixed"]
        order = list(range(256))
        for style in styles:
            rng.shuffle(order)
            for i in range(0, 256, 8):
                chunk = order[i:i + 8]
                text = "".join(spell(b, style, rng) for b in chunk)
                expect = bytes(chunk)
                n = len(chunk)
                # assignment + default
                for how, src in (("assign", f'out str[{n + 1}] s;\nout unterminated str[{n}] u;\nparser {{ s = "{text}"; u += "q"; "x"; }}\n'),
                                 ("default", f'out str[{n + 1}] s = "{text}";\nparser {{ "x"; }}\n')):
                    lines, err = run_prog(src, ["start"])
                    if lines is None:
                        ck.report(f"literal-{how}-rejected", f"string {how} of bytes {list(chunk)} spelled {text!r}: {err}", {"source": src})
                        continue
                    got = dump_bytes(lines[-1])
                    st["bytes_through_c"] += n
                    if got is None or got[0] != n or got[1] != expect or got[2] != "z":
                        ck.report(f"literal-{how}-bytes", f"string {how}: spelled {text!r}, expected {expect.hex()} (length {n}, NUL-terminated), stored {got}",
                                  {"source": src, "expected": expect.hex(), "stored": repr(got)})
                # literal match: accepts exactly the bytes, fails at the first differing byte
                for kind, lit, accept in (("match", f'"{text}"', [expect]),
                                          ("binary", '"' + " ".join(f"{b:02x}" for b in chunk) + '"b', [expect])):
                    src = f"parser {{ {lit}; }}\n"
                    ops = ["start", f"feedy:{expect.hex()}"]
                    k = rng.randrange(n)
                    wrong = bytearray(expect)
                    wrong[k] = (wrong[k] + rng.randrange(1, 256)) % 256
                    ops += ["start", f"feedy:{bytes(wrong).hex()}"]
                    lines, err = run_prog(src, ops)
                    if lines is None:
                        ck.report(f"literal-{kind}-rejected", f"{kind} literal {lit!r}: {err}", {"source": src})
                        continue
                    feeds = [l.split() for l in lines if l.startswith("feed ")]
                    st["match_checks"] += 2
                    if len(feeds) != 2 or feeds[0][1] != "DONE" or feeds[1][1] != "FAIL" or int(feeds[1][2]) != k:
                        ck.report(f"literal-{kind}-wrong", f"{kind} literal {lit!r}: feeding its bytes gave {feeds[0][1:3] if feeds else None}, a difference at index {k} gave {feeds[1][1:3] if len(feeds) > 1 else None}",
                                  {"source": src, "ops": ops, "trace": lines})
        # trigraph spellings (??/ is a backslash to a C compiler in ISO mode, and -Wall warns about them otherwise)
        for tri in ("??/", "??=", "??(", "??)", "??'", "??<", "??>", "??!", "??-", "a??/n", "???/"):
            expect = tri.encode()
            n = len(expect)
            text = tri.replace("'", "'")
            for how, src in (("assign", f'out str[{n + 1}] s;\nparser {{ s = "{text}"; "x"; }}\n'),
                             ("default", f'out str[{n + 1}] s = "{text}";\nparser {{ "x"; }}\n')):
                lines, err = run_prog(src, ["start"], extra=("-trigraphs",))      # as an ISO-mode compiler reads the file
                if lines is None:
                    ck.report(f"literal-{how}-rejected", f"string {how} spelled {text!r}: {err}", {"source": src})
                    continue
                got = dump_bytes(lines[-1])
                st["bytes_through_c"] += n
                if got is None or got[0] != n or got[1] != expect:
                    ck.report(f"literal-{how}-bytes", f"string {how}: spelled {text!r}, expected {expect.hex()}, stored {got}",
                              {"source": src, "expected": expect.hex(), "stored": repr(got)})
        # the empty literal denotes the empty sequence: a program that is accepted must pass it without consuming
        for lit in ('""', '""i', '""b'):
            src = f'parser {{ "a"; {lit}; "b"; }}\n'
            lines, err = run_prog(src, ["start", "feedy:6162"])
            if lines is None:
                if err.startswith("rejected"):
                    st["match_checks"] += 1
                    continue        # diagnosed: fine
                ck.report("literal-empty-rejected", f"empty literal {lit}: {err}", {"source": src})
                continue
            feeds = [l.split() for l in lines if l.startswith("feed ")]
            st["match_checks"] += 1
            if not feeds or feeds[0][1] != "DONE":
                ck.report("literal-empty-unpassable", f'"a"; {lit}; "b"; is accepted but "ab" gives {feeds[0][1:3] if feeds else None}: the empty literal can never be passed',
                          {"source": src, "trace": lines})
        # a character constant is one byte: anything else is diagnosed, never a bigger number
        for sp in ("\u20ac", "\u0100", "\u00e9"):
            src = f"out int x = 7;\nparser {{ x = ['{sp}']; \"x\"; }}\n"
            lines, err = run_prog(src, ["start"])
            st["int_literals"] += 1
            if lines is None:
                if not err.startswith("rejected"):
                    ck.report("charconst-rejected", f"character constant '{sp}': {err}", {"source": src})
                continue
            got = lines[-1].partition(" | ")[2]
            if got != f"x={ord(sp)}" or ord(sp) > 255:
                ck.report("charconst-value", f"character constant '{sp}' (code point {ord(sp)}) stores {got}: not a byte value", {"source": src})
        # case-insensitive: either case of ASCII letters only
        for b in range(256):
            if quick and b % 3 and not (65 <= b <= 122):
                continue
            text = spell(b, "raw", rng)
            src = f'parser {{ "a{text}"i; }}\n'
            ops = []
            for x in range(256):
                ops += ["start", f"feedy:61{x:02x}"]
            lines, err = run_prog(src, ops)
            if lines is None:
                ck.report("literal-casei-rejected", f"casei literal with byte {b}: {err}", {"source": src})
                continue
            feeds = [l.split()[1] for l in lines if l.startswith("feed ")]
            accepted = sorted(x for x, c in enumerate(feeds) if c == "DONE")
            want = lean("casefold", [b])
            st["match_checks"] += 256
            if accepted != sorted(set(want)):
                ck.report("literal-casei-wrong", f"case-insensitive literal byte {b}: accepts {accepted}, should accept {sorted(set(want))}", {"source": src})
        # character constants and integer literals
        for c in list(range(32, 127)) + [None]:
            if c is None:
                cases = [("\\" + e, v) for e, v in (("n", 10), ("r", 13), ("t", 9), ("b", 8), ("0", 0), ("'", 39), ("\\", 92))]
            elif chr(c) in "'\\":
                continue
            else:
                cases = [(chr(c), c)]
            for sp, v in cases:
                src = f"out int x = 7;\nparser {{ x = ['{sp}']; \"x\"; }}\n"
                lines, err = run_prog(src, ["start"])
                st["int_literals"] += 1
                if lines is None:
                    ck.report("charconst-rejected", f"character constant '{sp}': {err}", {"source": src})
                    continue
                got = lines[-1].partition(" | ")[2]
                if got != f"x={v}":
                    ck.report("charconst-value", f"character constant '{sp}' should be {v}, generated code stores {got}", {"source": src})
        for t, v in (("0", 0), ("255", 255), ("-1", -1), ("0x7f", 127), ("-0x80", -128), ("0b1010", 10), ("+12", 12), ("2147483647", 2147483647), ("-2147483648", -2147483648)):
            src = f"out int{{size 8}} x = 7;\nparser {{ x = {t}; \"x\"; }}\n"
            lines, err = run_prog(src, ["start"])
            st["int_literals"] += 1
            if lines is None:
                ck.report("intliteral-rejected", f"integer literal {t}: {err}", {"source": src})
                continue
            got = lines[-1].partition(" | ")[2]
            if got != f"x={v}":
                ck.report("intliteral-value", f"integer literal {t} should be {v}, generated code stores {got}", {"source": src})
    finally:
        shutil.rmtree(wd, ignore_errors=True)
        model.close()
    ck.samples = [{"spelling": spell(200, "hex", rng), "byte": 200}, {"spelling": "\\n", "byte": 10}]
    ck.finish({"evaluations": st["python_vs_lean"] + st["bytes_through_c"] + st["match_checks"] + st["int_literals"],
               "distinct_nontrivial": 256, "traces_validated_against_impl": st["c_programs"],
               "rule": "every byte 0..255 in each spelling (raw, \\xHH, named escape) x each position (assignment, default, match, binary match, casei) through the compiled C; random multi-character strings against the Lean functions; distinct = byte values",
               "stats": st, "exhaustive": True})


if __name__ == "__main__":
    main()
