"""
Source program -> token stream for the Lean reference semantics (NmfuModel/Src.lean).

The source text is parsed with nmfu's lark grammar (the grammar is the language definition), but
everything after that is done here, independently of ParseCtx: names are resolved, literals are
decoded, regular expressions are desugared (repeats unrolled, classes expanded to byte lists over
the documented dialect), `foreach` actions are attached to the matches they apply to, and blocks
are numbered.  Macros are expanded by substitution of the argument parse trees.

Token grammar: see NmfuModel/SrcParse.lean.
"""
import string
import lark
from nmfu_api import nmfu

END = 256


class IfToks(list):
    """token list of an exported `if` statement that remembers the block indices of its branches"""
    branch_blocks = ()


class Unsupported(Exception):
    pass


WORD = [ord(c) for c in string.ascii_letters + string.digits + "_"]
DIGIT = [ord(c) for c in string.digits]
SPACE = [ord(c) for c in " \t\n\r\x0b\x0c"]
ALLB = list(range(256))


def inv(bs):
    s = set(bs)
    return [b for b in ALLB if b not in s]


# ---------------------------------------------------------------- regular expressions (as nested tuples)
def rseq(items):
    items = list(items)
    if not items:
        return ("rz",)
    r = items[-1]
    for it in reversed(items[:-1]):
        r = ("rs", it, r)
    return r


def ralt(items):
    items = list(items)
    if not items:
        return ("re",)
    r = items[-1]
    for it in reversed(items[:-1]):
        r = ("ra", it, r)
    return r


def rcls(bs):
    return ("rc", sorted(set(bs)))


def ropt(r):
    return ("ra", r, ("rz",))


def rrep(r, lo, hi):
    """r{lo,hi}; hi None = unbounded"""
    parts = [r] * lo
    if hi is None:
        parts.append(("rk", r))
    else:
        for _ in range(hi - lo):
            parts.append(None)
        # r? r? ... nested so that the language is exactly lo..hi repetitions
        tail = ("rz",)
        for _ in range(hi - lo):
            tail = ropt(("rs", r, tail)) if tail != ("rz",) else ropt(r)
        parts = [r] * lo + ([tail] if hi > lo else [])
    return rseq(parts)


def rx_tokens(r):
    k = r[0]
    if k in ("re", "rz"):
        return [k]
    if k == "rc":
        return ["rc", str(len(r[1]))] + [str(b) for b in r[1]]
    if k in ("rs", "ra"):
        return [k] + rx_tokens(r[1]) + rx_tokens(r[2])
    if k == "rk":
        return ["rk"] + rx_tokens(r[1])
    raise AssertionError(k)


def lit_rx(bs, casei=False):
    def cls(b):
        if casei and (65 <= b <= 90 or 97 <= b <= 122):
            return rcls([b, b ^ 32])
        return rcls([b])
    return rseq(cls(b) for b in bs)


def conv_string(tok):
    """Decode a STRING token (with quotes) per the documented escapes."""
    s = tok[1:-1]
    out = []
    i = 0
    while i < len(s):
        c = s[i]
        if c != "\\":
            if ord(c) > 255:
                raise Unsupported("non-latin1 character")
            out.append(ord(c))
            i += 1
            continue
        e = s[i + 1]
        if e == "x":
            out.append(int(s[i + 2:i + 4], 16))
            i += 4
        else:
            table = {"n": 10, "r": 13, "t": 9, "b": 8, "0": 0, '"': 34, "\\": 92}
            if e not in table:
                raise Unsupported("unknown escape")
            out.append(table[e])
            i += 2
    return out


def conv_binary(tok):
    hexs = [c for c in tok[1:-1] if c in string.hexdigits]
    if len(hexs) % 2:
        raise Unsupported("odd binary literal")
    return [int(hexs[i] + hexs[i + 1], 16) for i in range(0, len(hexs), 2)]


def raw_char(tok):
    v = tok.value
    return ord(v[1]) if v[0] == "\\" else ord(v[0])


def charclass(letter):
    return {"n": [10], "t": [9], "r": [13], "w": WORD, "W": inv(WORD), "d": DIGIT, "D": inv(DIGIT),
            "s": SPACE, "S": inv(SPACE), " ": [32]}[letter]


def conv_regex(t):
    """lark regex subtree -> Rx"""
    if isinstance(t, lark.Token):
        if t.type in ("REGEX_UNIMPORTANT", "REGEX_CHARGROUP_ELEMENT_RAW"):
            return rcls([raw_char(t)])
        if t.type == "REGEX_BYTE":
            return rcls([int(t.value, 16)])
        raise Unsupported("regex token " + t.type)
    d = t.data
    if d in ("regex", "binary_regex"):
        return ralt(conv_regex(c) for c in t.children) if len(t.children) > 1 else conv_regex(t.children[0])
    if d in ("regex_alternation", "binary_regex_alternation"):
        return ralt(conv_regex(c) for c in t.children)
    if d in ("regex_group", "binary_regex_group"):
        return rseq(conv_regex(c) for c in t.children)
    if d == "regex_raw_match":
        return rseq(rcls([raw_char(c)]) for c in t.children)
    if d == "binary_regex_raw_match":
        return rseq(rcls([int(c.value, 16)]) for c in t.children)
    if d == "regex_char_class":
        return rcls(charclass(t.children[0].value[0]))
    if d in ("regex_any", "binary_regex_any"):
        return rcls(ALLB)
    if d in ("regex_set", "regex_inverted_set", "binary_regex_set", "binary_regex_inverted_set"):
        bs = []
        for c in t.children:
            if isinstance(c, lark.Token):
                bs.append(int(c.value, 16) if c.type == "REGEX_BYTE" else raw_char(c))
            elif c.data in ("regex_set_range", "binary_regex_set_range"):
                a, b = c.children
                lo = int(a.value, 16) if a.type == "REGEX_BYTE" else raw_char(a)
                hi = int(b.value, 16) if b.type == "REGEX_BYTE" else raw_char(b)
                bs += list(range(lo, hi + 1))
            elif c.data == "regex_char_class":
                bs += charclass(c.children[0].value[0])
            else:
                raise Unsupported("set element " + c.data)
        return rcls(inv(bs) if "inverted" in d else bs)
    if d in ("regex_operation", "binary_regex_operation"):
        r = conv_regex(t.children[0])
        op = t.children[1].value
        return {"?": ropt(r), "*": ("rk", r), "+": ("rs", r, ("rk", r))}[op]
    if d in ("regex_exact_repeat", "binary_regex_exact_repeat"):
        n = int(t.children[1].value)
        if n > 64:
            raise Unsupported("huge repeat")
        return rrep(conv_regex(t.children[0]), n, n)
    if d in ("regex_range_repeat", "binary_regex_range_repeat"):
        lo, hi = int(t.children[1].value), int(t.children[2].value)
        if hi > 64 or lo > hi:
            raise Unsupported("repeat range")
        return rrep(conv_regex(t.children[0]), lo, hi)
    if d in ("regex_at_least_repeat", "binary_regex_at_least_repeat"):
        lo = int(t.children[1].value)
        if lo > 64:
            raise Unsupported("huge repeat")
        return rrep(conv_regex(t.children[0]), lo, None)
    raise Unsupported("regex node " + d)


# ---------------------------------------------------------------- programs
class SrcExporter:
    def __init__(self, src):
        self.tree = nmfu.parser.parse(src, start="start")
        self.outs = []          # (name, kind, extra)
        self.hooks = []
        self.fcodes = []
        self.ycodes = []
        self.macros = {}
        self.blocks = []
        self.loops = {}          # name -> id stack
        self.loop_stack = []
        self.next_loop = 0
        self.parser_stmts = None
        for d in self.tree.children:
            if d.data == "out_decl":
                ty = d.children[0]
                name = d.children[1].value
                if ty.data == "enum_type":
                    self.outs.append((name, "enum", [c.value for c in ty.children]))
                elif ty.data in ("str_type", "unterm_str_type"):
                    self.outs.append((name, "str", None))
                elif ty.data == "raw_type":
                    self.outs.append((name, "raw", None))
                elif ty.data == "bool_type":
                    self.outs.append((name, "bool", None))
                else:
                    self.outs.append((name, "int", None))
            elif d.data == "hook_decl":
                self.hooks.append(d.children[0].value)
            elif d.data == "code_decl":
                kind = d.children[0].value
                for c in d.children[1:]:
                    (self.fcodes if kind == "finishcode" else self.ycodes).append(c.value)
            elif d.data == "macro_decl":
                self.macros[d.children[0].value] = d
            elif d.data == "parser_decl":
                self.parser_stmts = d.children

    def out_idx(self, name):
        for i, o in enumerate(self.outs):
            if o[0] == name:
                return i
        raise Unsupported("unknown output " + name)

    # ---- expressions -> IExpr tokens (mirror of the *documented* typing, not of nmfu's code)
    def expr(self, t, target=None, env=None):
        d = t.data
        if d in ("number_const", "math_num"):
            return ["lit", str(self.conv_int(t.children[0].value))]
        if d in ("char_const", "math_char_const"):
            v = t.children[0].value
            if len(v) == 3:
                c = ord(v[1])
            else:
                c = {"n": 10, "r": 13, "t": 9, "b": 8, "0": 0}.get(v[2], ord(v[2]))
            return ["lit", str(c)]
        if d == "bool_const":
            b = 1 if t.children[0].value == "true" else 0
            if target is not None and target[1] == "int":
                return ["lit", str(b)]
            return ["litb", str(b)]
        if d in ("identifier_const", "math_var"):
            name = t.children[0].value
            if env and name in env:
                return self.expr(env[name], target, None)
            if target is not None and target[1] == "enum" and name in target[2]:
                return ["lite", target[0].upper() + "_" + name.upper(), str(target[2].index(name))]
            return ["out", str(self.out_idx(name))]
        if d == "math_str_len":
            return ["len", str(self.out_idx(t.children[0].value))]
        if d == "math_str_index":
            return ["idx", str(self.out_idx(t.children[0].value))] + self.expr(t.children[1], None, env)
        if d == "builtin_math_var":
            if t.children[0].value != "last":
                raise Unsupported("builtin")
            if not getattr(self, "_in_do", 0):
                self.last_outside_foreach = True     # ($last of a per-byte action is the byte being read: no slack)
            return ["last"]
        if d == "not_expr":
            return ["bin", "eq", "0"] + self.expr(t.children[0], target, env) + ["litb", "0"]
        if d == "negate_expr":
            return ["bin", "sub", "0", "lit", "0"] + self.expr(t.children[0], target, env)
        if d in ("sum_expr", "mul_expr"):
            m = {"+": "add", "-": "sub", "*": "mul", "/": "div", "%": "mod"}
            acc = self.expr(t.children[0], target, env)
            for op, ch in zip(t.children[1::2], t.children[2::2]):
                acc = ["bin", m[op.value], "0"] + acc + self.expr(ch, target, env)
            return acc
        if d == "comp_expr":
            m = {"<": "lt", ">": "gt", "<=": "le", ">=": "ge", "==": "eq", "!=": "ne"}
            left = t.children[0]
            tgt = None
            if left.data in ("math_var", "identifier_const") and not (env and left.children[0].value in env):
                nm = left.children[0].value
                for o in self.outs:
                    if o[0] == nm:
                        tgt = o
            return ["bin", m[t.children[1].value], "0"] + self.expr(left, None, env) + self.expr(t.children[2], tgt, env)
        if d == "shift_expr":
            return ["bin", "shl" if t.children[1].value == "<<" else "shr", "0"] + self.expr(t.children[0], target, env) + self.expr(t.children[2], target, env)
        if d in ("bit_or_expr", "bit_xor_expr", "bit_and_expr", "conjunction_expr", "disjunction_expr"):
            op = {"bit_or_expr": "bor", "bit_xor_expr": "bxor", "bit_and_expr": "band", "conjunction_expr": "land", "disjunction_expr": "lor"}[d]
            acc = self.expr(t.children[0], target, env)
            for ch in t.children[1:]:
                acc = ["bin", op, "0"] + acc + self.expr(ch, target, env)
            return acc
        raise Unsupported("expression node " + d)

    @staticmethod
    def conv_int(text):
        sign = 1
        if text[0] in "+-":
            sign = -1 if text[0] == "-" else 1
            text = text[1:]
        if text[:2] == "0x":
            return sign * int(text[2:], 16)
        if text[:2] == "0b":
            return sign * int(text[2:], 2)
        return sign * int(text)

    def expr_is_bool(self, t, env=None):
        d = t.data
        if d in ("comp_expr", "not_expr", "conjunction_expr", "disjunction_expr"):
            return True
        if d == "bool_const":
            return True
        if d in ("identifier_const", "math_var"):
            name = t.children[0].value
            if env and name in env:
                return self.expr_is_bool(env[name])
            for o in self.outs:
                if o[0] == name:
                    return o[1] == "bool"
        return False

    def cond(self, t, env):
        e = self.expr(t, None, env)
        if not self.expr_is_bool(t, env):
            e = ["bin", "ne", "0"] + e + ["lit", "0"]
        return ["cexpr"] + e

    # ---- match expressions
    def match_rx(self, t, env):
        d = t.data
        if d == "string_const":
            return lit_rx(conv_string(t.children[0].value))
        if d == "string_case_const":
            return lit_rx(conv_string(t.children[0].value), casei=True)
        if d == "binary_string_const":
            return lit_rx(conv_binary(t.children[0].value))
        if d in ("regex", "binary_regex"):
            return conv_regex(t)
        if d == "end_expr":
            return ("rc", [END])
        if d == "concat_expr":
            return rseq(self.match_rx(c, env) for c in t.children)
        if d == "identifier_const":
            name = t.children[0].value
            if env and name in env:
                return self.match_rx(env[name], None)
            raise Unsupported("identifier in match position")
        raise Unsupported("match node " + d)

    # ---- statements
    def pc_tokens(self, pc_acts, appends):
        t = [str(len(pc_acts))]
        for a in pc_acts:
            t += a
        t += [str(len(appends))] + [str(a) for a in appends]
        return t

    def is_math(self, t):
        return t.data in nmfu.all_sum_expr_nodes

    def sact_assign(self, stmt, env):
        name = stmt.children[0].value
        if env and name in env and env[name].data == "identifier_const":
            name = env[name].children[0].value
        tgt = None
        for o in self.outs:
            if o[0] == name:
                tgt = o
        if tgt is None:
            raise Unsupported("unknown output " + name)
        rhs = stmt.children[1]
        if rhs.data == "identifier_const" and env and rhs.children[0].value in env:
            rhs = env[rhs.children[0].value]
        i = self.out_idx(name)
        if tgt[1] == "str":
            if rhs.data != "string_const":
                raise Unsupported("string assignment of non-constant")
            bs = conv_string(rhs.children[0].value)
            return ["setstr", str(i), str(len(bs))] + [str(b) for b in bs]
        if tgt[1] == "raw":
            raise Unsupported("raw assignment")
        return ["set", str(i)] + self.expr(rhs, tgt, env)

    def stmt(self, s, env, pc):
        """-> list of statements, each a token list"""
        d = s.data
        pa, pp = pc
        if d == "match_stmt":
            return [["m"] + rx_tokens(self.match_rx(s.children[0], env)) + self.pc_tokens(pa, pp)]
        if d == "wait_stmt":
            return [["w"] + rx_tokens(self.match_rx(s.children[0], env)) + self.pc_tokens(pa, pp)]
        if d == "assign_stmt":
            return [["a"] + self.sact_assign(s, env)]
        if d == "append_stmt":
            name = s.children[0].value
            if env and name in env and env[name].data == "identifier_const":
                name = env[name].children[0].value
            i = self.out_idx(name)
            rhs = s.children[1]
            if rhs.data == "identifier_const" and env and rhs.children[0].value in env:
                rhs = env[rhs.children[0].value]
            if self.is_math(rhs):
                return [["a", "appendc", str(i)] + self.expr(rhs, None, env)]
            return [["m"] + rx_tokens(self.match_rx(rhs, env)) + self.pc_tokens(pa, pp + [i])]
        if d == "delete_stmt":
            name = s.children[0].value
            if env and name in env and env[name].data == "identifier_const":
                name = env[name].children[0].value
            return [["a", "delete", str(self.out_idx(name))]]
        if d == "finish_stmt":
            return [["a", "finish"]]
        if d == "custom_finish_stmt":
            c = s.children[0].value
            if env and c in env:
                c = env[c].children[0].value
            return [["a", "finishc", c]]
        if d == "custom_yield_stmt":
            c = s.children[0].value
            if env and c in env:
                c = env[c].children[0].value
            return [["a", "yield", c]]
        if d == "break_stmt":
            if s.children:
                nm = s.children[0].value
                if env and nm in env:
                    nm = env[nm].children[0].value
                if nm not in self.loops or not self.loops[nm]:
                    raise Unsupported("break target")
                lid = self.loops[nm][-1]
            else:
                if not self.loop_stack:
                    raise Unsupported("break outside loop")
                lid = self.loop_stack[-1]
            return [["a", "break", str(lid)]]
        if d == "call_stmt":
            name = s.children[0].value
            if env and name in env and env[name].data == "identifier_const":
                name = env[name].children[0].value
            if name in self.macros:
                return self.expand_macro(name, s.children[1:], env, pc)
            if name in self.hooks:
                return [["a", "hook", name]]
            raise Unsupported("unknown call " + name)
        if d in ("case_stmt", "greedy_case_stmt"):
            greedy = d == "greedy_case_stmt"
            clauses = []
            for ch in s.children:
                if ch.data == "case_clause":
                    clauses.append((0, ch))
                else:
                    prio = int(ch.children[0].value)
                    for c2 in ch.children[1:]:
                        clauses.append((prio, c2))
            toks = []
            els = -1
            ncl = 0
            for prio, cl in clauses:
                pats, body, has_else = [], [], False
                for c in cl.children:
                    if c.data == "else_predicate":
                        has_else = True
                    elif c.data == "expr_predicate":
                        pats.append(self.match_rx(c.children[0], env))
                    else:
                        body.append(c)
                b = self.block(body, env, pc)
                if has_else:
                    els = b
                if pats:
                    ncl += 1
                    toks += [str(len(pats))]
                    for p in pats:
                        toks += rx_tokens(p) + [str(prio)]
                    toks += [str(b)]
            return [["case", "1" if greedy else "0"] + self.pc_tokens(pa, pp) + [str(ncl)] + toks + [str(els)]]
        if d == "optional_stmt":
            return [["opt", str(self.block(s.children, env, pc))]]
        if d == "loop_stmt":
            stmts = s.children[:]
            name = None
            if stmts and isinstance(stmts[0], lark.Token):
                name = stmts[0].value
                stmts = stmts[1:]
            lid = self.next_loop
            self.next_loop += 1
            self.loops.setdefault(name, []).append(lid)
            self.loop_stack.append(lid)
            b = self.block(stmts, env, pc)
            self.loop_stack.pop()
            self.loops[name].pop()
            return [["loop", str(lid), str(b)]]
        if d == "try_stmt":
            catch = s.children[-1]
            body = s.children[:-1]
            cstm = catch.children[:]
            nm = oos = True
            if cstm and not isinstance(cstm[0], lark.Token) and cstm[0].data == "catch_options":
                opts = [o.value for o in cstm[0].children]
                nm, oos = "nomatch" in opts, "outofspace" in opts
                cstm = cstm[1:]
            b = self.block(body, env, pc)
            h = self.block(cstm, env, pc)
            return [["try", str(b), "1" if nm else "0", "1" if oos else "0", str(h)]]
        if d == "foreach_stmt":
            body = [c for c in s.children if not (not isinstance(c, lark.Token) and c.data == "foreach_actions")]
            acts_t = [c for c in s.children if not isinstance(c, lark.Token) and c.data == "foreach_actions"][0]
            acts = []
            for a in acts_t.children:
                self._in_do = getattr(self, "_in_do", 0) + 1
                try:
                    sts = self.stmt(a, env, ([], []))
                finally:
                    self._in_do -= 1
                for st in sts:
                    if st[0] == "if" and self.actions_only_if(st):
                        # an `if` over actions is one (conditional) per-byte action; its branches are blocks
                        acts.append(["cond"] + st[1:])
                        continue
                    if st[0] != "a":
                        raise Unsupported("foreach action that matches")
                    acts.append(st[1:])
            out = []
            for c in body:
                out += self.stmt(c, env, (pa + acts, pp))   # an outer foreach's actions come first
            return out
        if d == "if_stmt":
            toks = []
            n = 0
            blks = []
            for c in s.children:
                if c.data == "if_condition":
                    blks.append(self.block(c.children[1:], env, pc))
                    toks += self.cond(c.children[0], env) + [str(blks[-1])]
                else:
                    blks.append(self.block(c.children, env, pc))
                    toks += ["celse", str(blks[-1])]
                n += 1
            st = IfToks(["if", str(n)] + toks)
            st.branch_blocks = blks
            return [st]
        raise Unsupported("statement " + d)

    def actions_only_if(self, st):
        """st: an exported `if` statement (an IfToks): do all its branch blocks consist of plain actions?"""
        for b in st.branch_blocks:
            for inner in self.blocks[b]:
                if inner[0] == "a":
                    if inner[1] in ("break", "finish", "finishc", "yield"):
                        return False
                    continue
                if inner[0] == "if" and self.actions_only_if(inner):
                    continue
                return False
        return True

    def new_block(self, stmts):
        # stmts: list of token lists
        if not hasattr(self, "_stmts"):
            self._stmts = []
        self._stmts.append(stmts)
        self.blocks.append(stmts)
        return len(self.blocks) - 1

    def block(self, stmts, env, pc):
        out = []
        for s in stmts:
            out += self.stmt(s, env, pc)
        return self.new_block(out)

    def expand_macro(self, name, args, env, pc, depth=0):
        decl = self.macros[name]
        margs = decl.children[1]
        formals = []
        if margs.data != "macro_arg_empty":
            for a in margs.children:
                formals.append(a.children[-1].value)
        if len(formals) != len(args):
            raise Unsupported("macro arity")
        new_env = {}
        for f, a in zip(formals, args):
            # resolve pass-through of the caller's own arguments
            if a.data == "identifier_const" and env and a.children[0].value in env:
                a = env[a.children[0].value]
            new_env[f] = a
        out = []
        if getattr(self, "_depth", 0) > 30:
            raise Unsupported("macro recursion")
        self._depth = getattr(self, "_depth", 0) + 1
        for st in decl.children[2:]:
            out += self.stmt(st, new_env, pc)
        self._depth -= 1
        return out

    def export(self):
        main = self.block(self.parser_stmts, None, ([], []))
        t = ["prog", str(len(self.blocks))]
        for b in self.blocks:
            t += ["block", str(len(b))]
            for st in b:
                t += st
        t += [str(main), "end"]
        return " ".join(t)


def export_source(src):
    return SrcExporter(src).export()


def export_source_info(src):
    """-> (tokens, reads $last outside the per-byte actions of a foreach)"""
    e = SrcExporter(src)
    t = e.export()
    return t, bool(getattr(e, "last_outside_foreach", False))
