"""
C08 — a case statement runs exactly the clause whose pattern matched.

Case statements — 1-4 clauses x 1-3 patterns (literals, case-insensitive literals, regexes), else
alone or combined, empty bodies, greedy form with priorities, inside loops — whose clause bodies
call distinct marker hooks, compiled by the real nmfu and compared with the reference semantics
(clause patterns as parallel derivatives; a clause is entered when its pattern is complete and
nothing can continue, or at the first symbol no pattern continues; else / no-match exactly when no
pattern can continue, with the offending byte unconsumed; greedy: highest priority among the
complete ones) by the Lean equivalence certificate, over all inputs.  Sets the compiler rejects
as ambiguous are counted.
"""
import sys, os, random
sys.path.insert(0, os.path.dirname(os.path.abspath(__file__)))
import common, refcheck

THEOREMS = ["Nmfu.C01_machine_refines_reference", "Nmfu.C07_language_exact", "Nmfu.C08_step_is_casePick", "Nmfu.C08_pick_sound",
            "Nmfu.C08_else_only_when_nothing_matches", "Nmfu.C08_complete_means_word", "Nmfu.C08_dead_means_no_extension"]


def pattern(rng, first):
    k = rng.random()
    tail = "".join(rng.choice("abc01") for _ in range(rng.randint(0, 2)))
    if k < 0.5:
        return f'"{first}{tail}"'
    if k < 0.6:
        return f'"{first}{tail}"i'
    if k < 0.85:
        return "/" + first + rng.choice(["b+", "[ab]c", "a?c", "(bc)*d", "\\d{2}", "x{1,2}y", "", "([^b]c)?", "[^1]*0|" + first, "([^ab]|c)*;"]) + "/"
    return f'("{first}" /' + rng.choice(["b+c", "[01]", "c?d"]) + "/)"


if __name__ == "__main__":
    t = common.tier()
    rng = random.Random(common.seed())
    progs = []
    n = 260 if t == "quick" else 3500
    for i in range(n):
        greedy = rng.random() < 0.3
        ncl = rng.randint(1, 4)
        firsts = rng.sample("abcdxy01", 8)
        if rng.random() < 0.25:
            firsts = [rng.choice("ab") for _ in range(8)]      # overlapping clauses: mostly rejected, some accepted
        hooks = [f"h{j}" for j in range(ncl + 1)]
        lines = []
        fi = 0
        for j in range(ncl):
            pats = []
            for _ in range(rng.choice([1, 1, 2, 3])):
                pats.append(pattern(rng, firsts[fi % 8]))
                fi += 1
            if rng.random() < 0.15 and j == ncl - 1:
                pats.append("else")
            prio = f"prio {rng.randint(1, 3)} " if greedy and rng.random() < 0.6 else ""
            if greedy:
                # greedy clauses are marked by yield codes as well as hooks (a hook-only body whose
                # finish state can still continue is a diagnosed scheduling error since the repair
                # recorded in known_findings.json)
                body = rng.choice([f"yield Y{j};", f"{hooks[j]}();", f'{hooks[j]}(); "k";', "", f'"m"; {hooks[j]}();'])
            else:
                body = rng.choice([f"{hooks[j]}();", f'{hooks[j]}(); "k";', "", f'"m"; {hooks[j]}();'])
            lines.append(f"    {prio}{', '.join(pats)} -> {{ {body} }}")
        if rng.random() < 0.4 and not any("else" in l for l in lines):
            lines.append(f"    else -> {{ {hooks[ncl]}(); {rng.choice(['', chr(34) + 'e' + chr(34) + ';'])} }}")
        case = ("greedy case {\n" if greedy else "case {\n") + "\n".join(lines) + "\n  }"
        shape = rng.randrange(4)
        if shape == 0:
            body = case + '\n  ";";'
        elif shape == 1:
            body = '"<";\n  ' + case + "\n  hz();"
        elif shape == 2:
            body = "loop {\n  " + case + '\n  case { "!" -> { break; } " " -> { } }\n  }'
        else:
            # the no-match error of a case without else: the handler starts at the offending byte
            body = "try {\n  " + case + '\n  } catch (nomatch) {\n    /[a-z0-9]/; "!"; hz();\n  }\n  ";";'
        src = "".join(f"hook {h};\n" for h in hooks) + "hook hz;\nparser {\n  " + body + "\n}\n"
        args = ["-feof-support"]
        if "yield " in src:
            src = "yieldcode " + ", ".join(f"Y{j}" for j in range(ncl)) + ";\n" + src
            args = ["-feof-support", "-fyield-support"]
        progs.append({"name": f"case-{i}", "src": src, "args": args, "feats": {}, "also_O3": i % 3 == 0})
    for i, (kw, body1, body2) in enumerate([("if", "kind = 1;", 'kind = 2; "!";'), ("if", "yield Y0;", "yield Y1;"),
                                            ("do", "h0();", 'h1(); "!";'), ("a1", "kind = 1;", "kind = 2;")]):
        ys = "yield" in body1
        src = ("yieldcode Y0, Y1;\n" if ys else "") + "out int kind = 0;\nhook h0;\nhook h1;\nparser {\n  greedy case {\n" + \
            f'    prio 2 "{kw}" -> {{ {body1} }}\n    prio 1 /[a-z][a-z0-9]*/ -> {{ {body2} }}\n    prio 3 "zz9" -> {{ }}\n  }}\n  " ";\n}}\n'
        progs.append({"name": f"kw-{i}", "src": src, "args": ["-feof-support"] + (["-fyield-support"] if ys else []), "feats": {}, "also_O3": True})
    progs.append({"name": "two-else", "args": ["-feof-support"], "feats": {}, "also_O3": False, "must_reject": "two else clauses",
                  "src": 'out int kind = 0;\nparser {\n  case {\n    "a" -> { kind = 1; }\n    else -> { kind = 2; "x"; }\n    else -> { kind = 3; "y"; }\n  }\n  ";";\n}\n'})
    progs.append({"name": "two-else-greedy", "args": ["-feof-support"], "feats": {}, "also_O3": False, "must_reject": "two else clauses",
                  "src": 'out int kind = 0;\nparser {\n  greedy case {\n    "a" -> { kind = 1; }\n    else -> { kind = 2; "x"; }\n    else -> { kind = 3; "y"; }\n  }\n  ";";\n}\n'})
    # a clause that can never be selected (its literal is subsumed by a pattern of higher priority): its body runs nowhere
    progs.append({"name": "dead-clause-greedy", "args": ["-feof-support"], "feats": {}, "also_O3": True,
                  "src": 'out int k = 0;\nout int id = 0;\nparser {\n  greedy case {\n    "if" -> { "X"; k = 1; }\n    prio 1 {\n      /[a-z]+/ -> { "!"; id = 1; }\n    }\n  }\n}\n'})
    progs.append({"name": "dead-clause-greedy-2", "args": ["-feof-support"], "feats": {}, "also_O3": False,
                  "src": 'out int k = 0;\nhook h0;\nparser {\n  loop {\n    greedy case {\n      prio 2 { /[a-z0-9]+/ -> { ";"; k = [k + 1]; } }\n      "end", "if" -> { "?"; h0(); }\n      "." -> { break; }\n    }\n  }\n}\n'})
    progs.append({"name": "known-greedy-prefix-hook", "args": ["-feof-support"], "feats": {}, "also_O3": False,
                  "known_key": "greedy-prefix-clause-hook-runs-early",
                  "known_what": "in a greedy case a clause body of nothing but hook calls runs as soon as its pattern is complete, although a longer pattern of another clause goes on to match (both clauses' hooks run on 'abc')",
                  "src": 'hook h0;\nhook h1;\nparser {\n  greedy case {\n    prio 1 "b", "a" -> { h0(); }\n    prio 1 "abc" -> { h1(); }\n  }\n  ";";\n}\n'})
    refcheck.run("C08", THEOREMS, "NmfuProps", progs,
                 "generated case statements (1-4 clauses x 1-3 patterns; literals, casei, regexes, concatenations; else; greedy with priorities; three surrounding shapes) with marker hooks per clause; distinct accepted programs with at least 3 states")
