"""
C11 — every accepted program compiles cleanly in every option combination.

What a model carries (Lean, NmfuProps/C11.lean): the label discipline of the emitted feed/end
functions — every goto the templates emit for a machine targets a label that the same function
emits (`labels_closed`), for every machine and option set — tied to the real text by scraping the
labels and gotos of the generated source and comparing them with the model's sets.
What it cannot carry is the verdict of a C / C++ compiler on the text; that part is explored:
programs x a covering array of option combinations (all pairs quick, all triples thorough),
compiled with gcc -std=c99 -Wall -Werror -Wno-unused-label, the header included twice in a C and
a C++ translation unit, and the declared API scraped from the header and compared with the
documented rule (start, feed always; end iff EOF support; free iff dynamic memory; hooks as
prototypes or members; one enumerator per finish / yield code).
"""
import sys, os, random, shutil, re, itertools, subprocess, multiprocessing as mp
sys.path.insert(0, os.path.dirname(os.path.abspath(__file__)))
import common
from common import Check
import population

THEOREMS = ["Nmfu.C11_feed_labels_closed", "Nmfu.C11_end_labels_closed"]

# (name, values) — each value is a list of command-line tokens
AXES = [
    ("O", [["-O0"], ["-O1"], ["-O2"], ["-O3"]]),
    ("storage", [[], ["-fallocate-str-space-dynamic"], ["-fallocate-str-space-dynamic-on-demand"]]),
    ("delfree", [[], ["-fdelete-string-free-memory"]]),
    ("collapse", [[], ["-fcollapse-transition-ranges", "--collapsed-range-length", "1"], ["-fcollapse-transition-ranges", "--collapsed-range-length", "300"]]),
    ("userptr", [[], ["-finclude-user-ptr"]]),
    ("strict", [[], ["-fstrict-done-token-generation"]]),
    ("eof", [[], ["-feof-support"]]),
    ("indirect", [[], ["-findirect-start-ptr"]]),
    ("yield", [[], ["-fyield-support"]]),
    ("zerolen", [[], ["-fzero-len-input-support"]]),
    ("unsafe", [[], ["-funsafe-string-indexing"]]),
    ("u8", [[], ["-fstrings-as-u8"]]),
    ("hooks", [[], ["-fhook-per-state"]]),
    ("pragma", [[], ["-fuse-pragma-once"]]),
    ("cppguard", [[], ["-fno-use-cplusplus-guard"]]),
    ("packed", [[], ["-fuse-packed-enums"]]),
]


def legal(cfg):
    d = dict(cfg)
    if d["delfree"] == 1 and d["storage"] == 0:
        return False  # delete-string-free-memory is exclusive with in-struct storage
    return True


def covering_array(rng, strength):
    """Greedy random covering array over AXES of the given strength."""
    names = [a[0] for a in AXES]
    sizes = [len(a[1]) for a in AXES]
    need = set()
    for idxs in itertools.combinations(range(len(AXES)), strength):
        for vals in itertools.product(*[range(sizes[i]) for i in idxs]):
            cfg = {names[i]: v for i, v in zip(idxs, vals)}
            full = dict.fromkeys(names, 0)
            full.update(cfg)
            if all(legal_partial(cfg)):
                need.add((idxs, vals))
    rows = []
    while need:
        best, best_cov = None, -1
        for _ in range(40):
            row = [rng.randrange(s) for s in sizes]
            if not legal(list(zip(names, row))):
                continue
            cov = sum(1 for (idxs, vals) in need if all(row[i] == v for i, v in zip(idxs, vals))) if len(need) < 4000 else \
                sum(1 for (idxs, vals) in rng.sample(sorted(need), 400) if all(row[i] == v for i, v in zip(idxs, vals)))
            if cov > best_cov:
                best, best_cov = row, cov
        if best is None or best_cov == 0:
            # force one uncovered tuple
            idxs, vals = next(iter(need))
            best = [rng.randrange(s) for s in sizes]
            for i, v in zip(idxs, vals):
                best[i] = v
            if not legal(list(zip(names, best))):
                need.discard((idxs, vals))
                continue
        rows.append(best)
        need = {(idxs, vals) for (idxs, vals) in need if not all(best[i] == v for i, v in zip(idxs, vals))}
    return [list(zip(names, r)) for r in rows]


def legal_partial(cfg):
    yield not (cfg.get("delfree") == 1 and cfg.get("storage") == 0)


def cfg_args(cfg):
    out = []
    for (name, vals), (_, v) in zip(AXES, cfg):
        out += vals[v]
    return out


def scrape(source):
    """labels and gotos per generated function."""
    funcs = {}
    cur = None
    for line in source.splitlines():
        m = re.match(r"^\w+ p_(start|feed|end|free)\(", line)
        if m:
            cur = m.group(1)
            funcs[cur] = {"labels": [], "gotos": []}
            continue
        if cur is None:
            continue
        t = line.strip()
        m = re.match(r"^(\w+):$", t)
        if m and not t.startswith("default"):
            funcs[cur]["labels"].append(m.group(1))
        for g in re.findall(r"\bgoto (\w+);", t):
            funcs[cur]["gotos"].append(g)
    return funcs


def api_problems(o, header, flags):
    probs = []
    def has(p):
        return re.search(p, header) is not None
    if not has(r"\bp_start\(") or not has(r"\bp_feed\("):
        probs.append("start/feed not declared")
    if has(r"\bp_end\(") != flags["EOF_SUPPORT"]:
        probs.append(f"end declared={has(r'p_end[(]')} but eof-support={flags['EOF_SUPPORT']}")
    if has(r"\bp_free\(") != flags["DYNAMIC_MEMORY"]:
        probs.append(f"free declared={has(r'p_free[(]')} but dynamic-memory={flags['DYNAMIC_MEMORY']}")
    for h in o.cctx.hooks:
        proto = has(rf"\bvoid p_{h}_hook\(")
        member = has(rf"\bp_hook_t {h}_hook;")
        if proto != flags["HOOK_GLOBAL"] or member != flags["HOOK_PER_STATE"]:
            probs.append(f"hook {h}: prototype={proto} member={member} global={flags['HOOK_GLOBAL']} per-state={flags['HOOK_PER_STATE']}")
    for c in o.cctx.finish_codes:
        if len(re.findall(rf"\bP_FINISH_{c}\b", header)) != 1:
            probs.append(f"finish code {c} not declared exactly once")
    for c in o.cctx.yield_codes:
        if len(re.findall(rf"\bP_YIELD_{c}\b", header)) != 1:
            probs.append(f"yield code {c} not declared exactly once")
    return probs


def work(job):
    from nmfu_api import compile_program, nmfu
    from export import export_machine, Unsupported
    import cdriver
    prog, cfgs, wd_root = job
    res = {"name": prog["name"], "status": "ok", "compiles": 0, "viol": [], "corr": [], "states": 0, "verdicts": {}}
    wd = os.path.join(wd_root, str(os.getpid()))
    base = compile_program(prog["src"], ["-O1"] + prog["args"])
    if not base.ok:
        res["status"] = "rejected:" + base.kind
        return res
    res["states"] = len(base.dctx.dfa.states)
    for cfg in cfgs:
        args = prog["args"] + cfg_args(cfg)
        o = compile_program(prog["src"], args)
        label = " ".join(cfg_args(cfg)) or "(defaults)"
        if not o.ok:
            res["verdicts"][o.kind] = res["verdicts"].get(o.kind, 0) + 1
            if o.kind == "internal":
                res["viol"].append({"kind": "internal-exception", "cfg": label, "args": args, "detail": o.msg[:300]})
            continue
        flags = {f.name: bool(nmfu.ProgramData.do(f)) for f in nmfu.ProgramFlag}
        opts = cdriver.rt_opts_string()
        shutil.rmtree(wd, ignore_errors=True)
        os.makedirs(wd)
        open(os.path.join(wd, "p.h"), "w").write(o.header)
        open(os.path.join(wd, "p.c"), "w").write(o.source)
        open(os.path.join(wd, "twice.c"), "w").write('#include "p.h"\n#include "p.h"\nint main(void) { return 0; }\n')
        open(os.path.join(wd, "twice.cpp"), "w").write('#include "p.h"\n#include "p.h"\nint main() { p_state_t s; (void)s; return 0; }\n')
        for what, cmd in (("source -Wall -Werror", ["gcc", "-std=c99", "-Wall", "-Werror", "-Wno-unused-label", "-c", "p.c", "-o", "p.o"]),
                          ("header twice (C)", ["gcc", "-std=c99", "-Wall", "-Werror", "-fsyntax-only", "twice.c"]),
                          ("header twice (C++)", ["g++", "-Wall", "-Werror", "-fsyntax-only", "twice.cpp"])):
            p = subprocess.run(cmd, cwd=wd, capture_output=True, text=True)
            res["compiles"] += 1
            if p.returncode != 0:
                msg = next((l for l in (p.stdout + p.stderr).splitlines() if "error" in l), (p.stdout + p.stderr)[:200])
                res["viol"].append({"kind": "compiler-rejects", "what": what, "cfg": label, "args": args, "detail": msg[:300]})
                break
        for pr in api_problems(o, o.header, flags):
            res["viol"].append({"kind": "api", "cfg": label, "args": args, "detail": pr})
        # tie of the Lean label model to the real text
        try:
            import rtdiff
            mt = export_machine(o.dctx)
            r = rtdiff.model().ask("labels", opts, mt)
            sc = scrape(o.source)
            want = {}
            for part in r.split(" ;; "):
                k, _, v = part.partition("=")
                want[k] = sorted(set(v.split())) if v else []
            got = {"feed.labels": sorted(set(l for l in sc.get("feed", {}).get("labels", []) if not l.startswith("skipaction_"))),
                   "feed.gotos": sorted(set(g for g in sc.get("feed", {}).get("gotos", []) if not g.startswith("skipaction_")))}
            if flags["EOF_SUPPORT"]:
                got["end.labels"] = sorted(set(l for l in sc.get("end", {}).get("labels", []) if not l.startswith("skipaction_")))
                got["end.gotos"] = sorted(set(g for g in sc.get("end", {}).get("gotos", []) if not g.startswith("skipaction_")))
            for k, v in got.items():
                if want.get(k) != v:
                    res["corr"].append({"kind": "labels-model-vs-text", "cfg": label, "args": args, "which": k,
                                        "model": want.get(k), "text": v})
                    break
            # direct predicate on the text itself
            for fn, d in sc.items():
                missing = sorted(set(d["gotos"]) - set(d["labels"]))
                if missing:
                    res["viol"].append({"kind": "goto-without-label", "cfg": label, "args": args, "function": fn, "labels": missing})
        except Unsupported:
            pass
        if len(res["viol"]) > 4:
            break
    shutil.rmtree(wd, ignore_errors=True)
    return res


def main():
    ck = Check("C11", "proof")
    ck.lean_obligations("NmfuProps.C11", THEOREMS)
    rng = random.Random(ck.seed)
    cfgs = covering_array(rng, 2 if ck.tier == "quick" else 3)
    n_gen = 30 if ck.tier == "quick" else 150
    progs = list(population.population(ck.seed, n_gen, raw=True))
    if ck.tier == "quick":
        corp = [p for p in progs if p["origin"] == "corpus"]
        gen = [p for p in progs if p["origin"] != "corpus"]
        rng.shuffle(corp)
        corp.sort(key=lambda p: 0 if p["name"].startswith("reg-") else 1)
        nreg = sum(1 for p in corp if p["name"].startswith("reg-"))
        progs = corp[:max(30, nreg + 6)] + gen
    # valid but silly constant subexpressions: what gcc's -Wall says about them is part of "compiles without warnings"
    decl = "out int x;\nout int{unsigned} u;\nout bool b;\n"
    for k, stmt in enumerate(['x = [1 << 40];', 'x = [x >> 64];', 'x = [2147483647 + 1];', 'x = [2147483647 * 2];', 'if b == 2 { "q"; }',
                              'if b > 1 { "q"; }', 'if x == x { "q"; }', 'x = [x / 0];', 'x = [5 % 0];', 'x = [1 << (0 - 1)];', 'x = [1 / (2 - 2)];',
                              'if u < 0 { "q"; }', 'if 3 { "q"; }', 'x = [(x == 1) + (x == 2)];', 'if x << 1 { "q"; }', 'x = [0 - 2147483648];',
                              'u = [0 - 1];', 'x = [x * 0];', 'if x / 1 == x { "q"; }', 'x = [1 - -1];']):
        progs.append({"name": f"const-corner-{k}", "src": decl + 'parser { "a"; ' + stmt + ' "z"; }\n', "args": [], "feats": {}, "origin": "const-corner"})
    # every binary operator as the left and as the right operand of every other one, over variables: the emitted text has to
    # keep the grouping explicit enough for -Wparentheses / -Wshift-op-parentheses (and mean the same, which C14 checks)
    ops = ["+", "-", "*", "/", "%", "<<", ">>", "&", "|", "^"]
    for k, outer in enumerate(ops):
        stmts = " ".join(f"x = [y {outer} (z {inner} w)]; x = [(y {inner} z) {outer} w];" for inner in ops)
        conds = " ".join(f'if (y {outer} z) {cmp} (z {outer} w) {{ x = 1; }}' for cmp in ("==", "<", ">=", "!="))
        progs.append({"name": f"op-nesting-{k}", "src": "out int x;\nout int y;\nout int z;\nout int w;\nparser { \"a\"; " + stmts + " " + conds + ' "z"; }\n',
                      "args": [], "feats": {}, "origin": "op-nesting"})
    # names that meet in the generated header: enumerators are <PROGRAM>_<OUTPUT>_<VALUE>, result codes <PROGRAM>_FINISH_<code> /
    # <PROGRAM>_YIELD_<code>, outputs are struct members under their own names (accepted programs have to compile, as C and as C++)
    for k, (src, args) in enumerate([
            ('out enum{b_c,q} a;\nout enum{c,r} a_b;\nparser { "a"; a = q; a_b = r; "b"; }\n', []),
            ('out enum{x,y} FINISH;\nfinishcode X;\nparser { "a"; FINISH = y; "b"; finish X; }\n', []),
            ('out enum{x,y} yield;\nyieldcode X;\nparser { "a"; yield = y; "b"; yield X; "c"; }\n', ["-fyield-support"]),
            ('out enum{x,y} Yield;\nyieldcode x;\nparser { "a"; Yield = y; "b"; yield x; "c"; }\n', ["-fyield-support"]),
            ('out enum{b,c} a;\nout enum{b,c} a_;\nparser { "a"; a = b; a_ = c; "b"; }\n', []),
            ('out int class;\nparser { "a"; class = 3; "b"; }\n', []),
            ('out int int = 0;\nparser { /\\d/; int = 3; "x"; }\n', []),
            ('out bool new;\nout str[4] while;\nparser { "a"; new = true; while += "b"; }\n', []),
            ('out int klass;\nout enum{a,b} e;\nfinishcode E_A;\nparser { "a"; klass = 3; e = b; "b"; finish E_A; }\n', [])]):
        progs.append({"name": f"header-names-{k}", "src": src, "args": args, "feats": {}, "origin": "header-names"})
    # start-up actions (nothing has been read yet): what is accepted there has to compile as part of start()
    for k, body in enumerate(['if $last == 65 { x = 1; } "a";', 'x = [$last]; "a";', 'if x == 0 { u = 2; } else { u = 3; } "a";',
                              'optional { "q"; } if $last == 1 { x = 1; } "a";', 's += [$last]; "a";', 's = "ab"; if s[0] == 97 { x = 1; } "a";',
                              'if s.len == 0 { s += [65]; } "a";']):
        progs.append({"name": f"start-actions-{k}", "src": decl + "out str[4] s;\nparser { " + body + " }\n", "args": ["-feof-support"], "feats": {}, "origin": "start-actions"})
    wd = common.scratch_dir("c11")
    try:
        with mp.Pool(min(15, os.cpu_count() or 4)) as pool:
            results = pool.map(work, [(p, cfgs, wd) for p in progs], chunksize=1)
    finally:
        shutil.rmtree(wd, ignore_errors=True)
    byname = {p["name"]: p for p in progs}
    st = {"programs": 0, "option_combinations": len(cfgs), "compiler_runs": 0, "rejected": 0, "verdicts_under_options": {}}
    distinct = set()
    for r in results:
        if r["status"] != "ok":
            st["rejected"] += 1
            continue
        st["programs"] += 1
        st["compiler_runs"] += r["compiles"]
        for k, v in r["verdicts"].items():
            st["verdicts_under_options"][k] = st["verdicts_under_options"].get(k, 0) + v
        prog = byname[r["name"]]
        if r["states"] >= 3:
            distinct.add(population.src_hash(prog["src"]))
        for v in r["viol"]:
            sig = re.sub(r"\d+", "N", v["detail"] if "detail" in v else str(v.get("labels")))[:80]
            m = re.search(r"\[-Werror=([a-z-]+)\]", v.get("detail", ""))
            if v["kind"] == "compiler-rejects" and m and (prog.get("origin") == "const-corner" or
                                                         m.group(1) in ("shift-count-overflow", "overflow", "bool-compare", "tautological-compare")):
                sig = None
                ck.report(f"gcc-warning-on-constant-expression/{m.group(1)}", f"{r['name']} [{v['cfg']}]: accepted, and the generated C does not compile under -Wall -Werror: {v['detail']}",
                          {"program": prog["src"], **v})
                continue
            ck.report(f"{v['kind']}/{sig}", f"{r['name']} [{v['cfg']}]: {v['kind']}: {v.get('detail', v.get('labels'))}",
                      {"program": prog["src"], **v})
        for v in r["corr"]:
            ck.broken_obligation(f"label model vs generated text for {r['name']} [{v['cfg']}]", v)
        if len(ck.samples) < 4:
            ck.samples.append({"program": r["name"], "compiler_runs": r["compiles"]})
    ck.samples.append({"example_option_combination": " ".join(cfg_args(cfgs[0]))})
    ck.finish({"evaluations": st["compiler_runs"], "distinct_nontrivial": len(distinct),
               "rule": f"programs x covering array of strength {2 if ck.tier == 'quick' else 3} over {len(AXES)} option axes ({len(cfgs)} combinations); three compiler runs each; distinct programs with at least 3 states",
               "stats": st, "exhaustive": False,
               "explanation": "compiler verdicts are explored (not proved); label closure is proved on the model and tied to the text by scraping"})


if __name__ == "__main__":
    main()
