"""Line-protocol client for the compiled Lean model driver (lean/.lake/build/bin/nmfumodel)."""
import os, subprocess

VERIF = os.path.dirname(os.path.dirname(os.path.abspath(__file__)))
EXE = os.path.join(VERIF, "lean", ".lake", "build", "bin", "nmfumodel")


class Model:
    def __init__(self):
        self.p = subprocess.Popen([EXE], stdin=subprocess.PIPE, stdout=subprocess.PIPE, text=True, bufsize=1)

    def ask(self, *fields):
        line = "|".join(str(f) for f in fields)
        assert "\n" not in line
        self.p.stdin.write(line + "\n")
        self.p.stdin.flush()
        out = self.p.stdout.readline()
        if not out:
            raise RuntimeError("model driver died on: " + line[:200])
        return out.rstrip("\n")

    def close(self):
        try:
            self.p.stdin.close()
            self.p.wait(timeout=5)
        except Exception:
            self.p.kill()
