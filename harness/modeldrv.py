"""Line-protocol client for the compiled Lean model driver (lean/.lake/build/bin/nmfumodel)."""
import os, subprocess, select

VERIF = os.path.dirname(os.path.dirname(os.path.abspath(__file__)))
EXE = os.path.join(VERIF, "lean", ".lake", "build", "bin", "nmfumodel")


class Model:
    def __init__(self):
        self._start()

    def _start(self):
        self.p = subprocess.Popen([EXE], stdin=subprocess.PIPE, stdout=subprocess.PIPE, bufsize=0)

    def ask(self, *fields, timeout=None):
        line = "|".join(str(f) for f in fields)
        assert "\n" not in line
        self.p.stdin.write((line + "\n").encode())
        self.p.stdin.flush()
        buf = b""
        while not buf.endswith(b"\n"):
            if timeout is not None:
                r, _, _ = select.select([self.p.stdout], [], [], timeout)
                if not r:
                    self.p.kill()
                    self.p.wait()
                    self._start()
                    return "timeout"
            chunk = os.read(self.p.stdout.fileno(), 65536)
            if not chunk:
                raise RuntimeError("model driver died on: " + line[:200])
            buf += chunk
        return buf.decode().rstrip("\n")

    def close(self):
        try:
            self.p.stdin.close()
            self.p.wait(timeout=5)
        except Exception:
            self.p.kill()
