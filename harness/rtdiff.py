"""
Runtime differential: the real generated C (compiled, driven through cdriver) against the Lean
runtime model (command `rt` of the model driver), on the same operation sequences.
"""
import os, shutil
from nmfu_api import compile_program, nmfu
from export import export_machine, Unsupported
import cdriver, inputs

_model = None


def model():
    global _model
    if _model is None:
        from modeldrv import Model
        _model = Model()
    return _model


def machine_known_spin(opts, mt):
    wf = model().ask("wf", opts, mt, timeout=60)
    if "noSpin=true" in wf or wf == "timeout":
        return False
    paths = model().ask("spin", opts, mt, timeout=60)
    return "ask:full:" in paths and "=true" in paths


class Case:
    """One program compiled by the real nmfu under one option set, its exported machine, its binary."""

    def __init__(self, prog, args, workdir, sanitize=False, build=True, exclude_known_spin=True):
        self.prog = prog
        self.args = list(args)
        self.ok = False
        self.why = ""
        self.bin = None
        o = compile_program(prog["src"], self.args)
        self.outcome = o
        if not o.ok:
            self.why = "rejected:" + o.kind
            return
        self.flags = {f.name: bool(nmfu.ProgramData.do(f)) for f in nmfu.ProgramFlag}
        self.opts = cdriver.rt_opts_string()
        try:
            self.mt = export_machine(o.dctx)
        except Unsupported as e:
            self.why = "unsupported:" + str(e)
            return
        if exclude_known_spin and machine_known_spin(self.opts, self.mt):
            # feed may not return on this program: the finding recorded under C04, whose check keeps it
            self.why = "excluded:spin-through-outofspace-redirect (C04 finding)"
            return
        self.dfa = o.dctx.dfa
        self.nstates = len(self.dfa.states)
        self.outs = list(o.cctx.state_object_spec)
        if build:
            b, err = cdriver.build(o, workdir, sanitize=sanitize)
            if b is None:
                self.why = "build:" + err
                return
            self.bin = b
        self.ok = True

    def run_c(self, ops, timeout=20):
        return self.bin.run(ops, timeout=timeout)

    def run_model(self, ops, timeout=120):
        r = model().ask("rt", self.opts, self.mt, ";".join(ops), timeout=timeout)
        if r == "timeout":
            return ["model-timeout"]
        return r.split(" ## ") if r else []

    def known_spin(self):
        """The exported machine fails the Lean spin check through an out-of-space redirect: the
        finding recorded under C04 (feed may not return on this program)."""
        return machine_known_spin(self.opts, self.mt)

    def indirect(self):
        return self.flags["INDIRECT_START_PTR"]

    def eof(self):
        return self.flags["EOF_SUPPORT"]


def compare(clines, mlines):
    """First difference between the binary's and the model's traces, ignoring everything after
    the model met undefined behaviour in an expression (C semantics undefined: nothing to compare).
    Returns None or (index, c_line, m_line)."""
    for i in range(max(len(clines), len(mlines))):
        m = mlines[i] if i < len(mlines) else "<nothing>"
        if m.startswith("fault undefined behaviour"):
            return None
        c = clines[i] if i < len(clines) else "<nothing>"
        if m.startswith("fault "):
            # a memory fault in the model has no line in the binary's output
            return ("model-fault", i, c, m)
        if c != m and not _wild_eq(c, m):
            return ("diff", i, c, m)
    return None


def _wild_eq(c, m):
    """The model prints `?` where a byte is indeterminate (fresh malloc, never-written memory)."""
    if "?" not in m:
        return False
    import re
    pat = "".join("." if ch == "?" else re.escape(ch) for ch in m)
    return re.fullmatch(pat, c) is not None


def model_ub(mlines):
    return any(l.startswith("fault undefined behaviour") for l in mlines)


def feed_ops(case, data, chunks=None, end=True, free=False):
    """start; feed the data (chunked); end; free.  Uses re-invocation on yields in indirect mode."""
    ops = ["start"]
    verb = "feedy" if case.indirect() else "feed"
    if chunks is None:
        chunks = [len(data)] if data else []
    p = 0
    for c in chunks:
        if c == 0:
            continue    # feed(start == end) is only defined with -fzero-len-input-support (C10 builds those itself)
        ops.append(f"{verb}:{data[p:p + c].hex()}")
        p += c
    if end and case.eof():
        ops.append("end")
    if free:
        ops.append("free")
    return ops


def segments(lines):
    """Split a trace at the `begin` marker printed before every start()."""
    segs = []
    for l in lines:
        if l == "begin" or not segs:
            segs.append([])
        segs[-1].append(l)
    return segs


def walk_diffs(prog, args, workdir, rng, nwalks=8, long_walks=1):
    """Build the real generated C for `prog` and compare the binary with the Lean runtime model
    on walks that follow the machine (plus long ones that reach buffer capacities).
    -> (status, diffs): status ok | rejected:… | unsupported:… | build:…"""
    import inputs, shutil
    c = Case(prog, args, workdir)
    if not c.ok:
        return c.why, []
    diffs = []
    try:
        biggest = max([o.str_size for o in c.outs if getattr(o, "str_size", None)] or [0])
        ops = []
        seg_ops = []
        extra = inputs.extra(prog)
        for wi in range(nwalks + long_walks + len(extra)):
            if wi >= nwalks + long_walks:
                data = extra[wi - nwalks - long_walks]
            elif wi < nwalks:
                data = inputs.random_walk(c.dfa, rng, rng.randint(1, 24), p_follow=0.9)
            else:
                data = inputs.random_walk(c.dfa, rng, min(biggest, 300) + rng.randint(2, 10), p_follow=0.985)
            chunks = inputs.chunkings(data, rng, 1)[-1] if len(data) > 1 and rng.random() < 0.5 else None
            o = feed_ops(c, data, chunks)
            seg_ops.append(o)
            ops += o
        cl, status, err = c.run_c(ops, timeout=30)
        if status != "ok":
            return "ok", [{"kind": "binary-" + status, "args": c.args, "detail": err[-300:], "tail": cl[-3:]}]
        ml = c.run_model(ops)
        cs, ms = segments(cl), segments(ml)
        if len(cs) != len(ms):
            return "ok", [{"kind": "segments", "args": c.args, "detail": f"{len(cs)} vs {len(ms)}"}]
        for k, (a, b) in enumerate(zip(cs, ms)):
            d = compare(a, b)
            if d is not None:
                diffs.append({"kind": d[0], "args": c.args, "ops": seg_ops[k], "binary": a[-6:], "model": b[-6:], "first": [d[2], d[3]]})
                if len(diffs) >= 2:
                    break
    finally:
        shutil.rmtree(workdir, ignore_errors=True)
    return "ok", diffs


def decl_width_problems(outcome):
    """Static part of 'the emitted C executes the machine': the declared integer types of the state
    variable and of every buffer counter can hold every value the code stores in them."""
    import re
    probs = []
    h = outcome.header or ""
    m = re.search(r"\b(u?)int(\d+)_t\s+state;", h)
    nstates = len(outcome.dctx.dfa.states)
    if m:
        bits = int(m.group(2)) - (0 if m.group(1) else 1)
        if nstates - 1 >= 2 ** bits:
            probs.append(f"state is {m.group(0).split()[0]} but {nstates} state indices are emitted")
        # every constant the emitted code stores into or compares with the state variable (end() stores the
        # index past the table as its final-FAIL marker when the fail state has been removed)
        consts = [int(x) for x in re.findall(r"state->state\s*=\s*(\d+)\s*;", outcome.source or "")]
        consts += [int(x) for x in re.findall(r"state->state\s*==\s*(\d+)\b", outcome.source or "")]
        if consts and max(consts) >= 2 ** bits:
            probs.append(f"state is {m.group(0).split()[0]} but the emitted code stores / tests the value {max(consts)}")
    T = nmfu.OutputStorageType
    for o in outcome.cctx.state_object_spec.values() if hasattr(outcome.cctx.state_object_spec, "values") else outcome.cctx.state_object_spec:
        if o.type == T.STR:
            cap = o.str_size - 1 if o.str_null else o.str_size
            m = re.search(r"\b(u?)int(\d+)_t\s+" + re.escape(o.name) + r"_counter;", h)
            if m:
                bits = int(m.group(2)) - (0 if m.group(1) else 1)
                if cap >= 2 ** bits:
                    probs.append(f"{o.name}_counter is {m.group(0).split()[0]} but must count to {cap}")
    return probs
