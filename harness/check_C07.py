"""
C07 — a compiled regular expression accepts exactly its language.

General part (Lean, for every expression and every word over the 257 symbols): derivative
acceptance is membership in the denoted language, a dead derivative means no member extends the
input (NmfuProps/RxSound.lean).  Per regex: `parser { /re/; }` (text and binary form) is compiled
by the real nmfu; the regex is desugared here (repeats unrolled, classes expanded over all 256
bytes; independent of nmfu's _interpret_parse_tree) into the reference semantics, and the
equivalence certificate must hold: exact language, mismatch at the first dead byte, wildcard and
inverted sets never matching end-of-input.  Regexes: every AST up to a size bound over a small
alphabet with ? * + {n} {n,m} {n,}, plus random larger ones with classes, ranges and high bytes.
"""
import sys, os, random, itertools
sys.path.insert(0, os.path.dirname(os.path.abspath(__file__)))
import common, refcheck

THEOREMS = ["Nmfu.C07_language_exact", "Nmfu.Rx.accepts_iff", "Nmfu.Rx.dead_iff_no_extension", "Nmfu.Rx.alive_iff",
            "Nmfu.C01_machine_refines_reference", "Nmfu.C07_match_consumes", "Nmfu.C07_match_lookahead_end", "Nmfu.C07_match_mismatch"]

ATOMS = ["a", "b", "[ab]", "[^a]", ".", "\\d", "c"]
SUFF = ["", "?", "*", "+", "{2}", "{1,2}", "{2,}", "{2,2}", "{0,1}", "{1,1}"]


def small_regexes(max_atoms):
    out = []
    pieces = [a + s for a in ATOMS for s in SUFF]
    for n in range(1, max_atoms + 1):
        for combo in itertools.product(pieces, repeat=n):
            out.append("".join(combo))
    return out


def nested_regexes():
    """A quantifier applied to a group whose body is itself quantified, nullable or an alternation."""
    out = []
    for a in ["a", "[ab]", "[^a]"]:
        for s1 in SUFF:
            for s2 in SUFF[1:]:
                out.append(f"x({a}{s1}){s2}y")
    for body in ["a|b", "a|b?", "a*|b", "ab?", "a?b?", "a*b*", "(a?)*", "[ab]c*"]:
        for s2 in SUFF[1:]:
            out.append(f"x({body}){s2}y")
            out.append(f"({body}){s2}")
    return out


def random_regex(rng, depth=0):
    def atom(d):
        k = rng.random()
        if k < 0.3:
            return rng.choice("abcxyz01 ")
        if k < 0.45:
            return "[" + "".join(rng.sample("abcdx019", rng.randint(1, 3))) + "]"
        if k < 0.55:
            return "[^" + "".join(rng.sample("abcd01", rng.randint(1, 2))) + "]"
        if k < 0.62:
            return rng.choice(["[a-d]", "[^0-9a-f]", "[\\W\\D]", "[^\\W\\D]", "[\\D\\S]", "[\\Wa]", "[\\d\\s]", "[^\\s\\d_]"])
        if k < 0.72:
            return rng.choice(["\\w", "\\W", "\\d", "\\D", "\\s", "\\S", "\\n", "\\t"])
        if k < 0.78:
            return "."
        if d < 1:
            return "(" + alt(d + 1) + ")"
        return rng.choice("ab")

    def piece(d):
        a = atom(d)
        return a + rng.choice(["", "", "", "?", "*", "+", "{2}", "{1,3}", "{2,}", "{2,2}", "{0,2}", "{3,3}"])

    def seq(d):
        return "".join(piece(d) for _ in range(rng.randint(1, 3 - d)))

    def alt(d):
        return "|".join(seq(d) for _ in range(rng.choice([1, 1, 2, 3] if d == 0 else [1, 2])))
    return alt(depth)


def random_binary_regex(rng):
    def atom(d):
        k = rng.random()
        if k < 0.4:
            return f"{rng.choice([0, 1, 0x41, 0x7f, 0x80, 0xfe, 0xff]):02x}"
        if k < 0.6:
            lo = rng.randrange(0, 250)
            return f"[{lo:02x}-{rng.randrange(lo, 256):02x}]"
        if k < 0.75:
            lo = rng.randrange(0, 250)
            return f"[^{lo:02x}-{rng.randrange(lo, 256):02x}]"
        if k < 0.8:
            return "."
        if d < 1:
            return "(" + "|".join(seq(d + 1) for _ in range(rng.randint(1, 2))) + ")"
        return "00"

    def seq(d):
        return "".join(atom(d) + rng.choice(["", "", "?", "*", "+", "{2}", "{2,2}", "{1,2}"]) for _ in range(rng.randint(1, 3)))
    return "|".join(seq(0) for _ in range(rng.choice([1, 1, 2])))


if __name__ == "__main__":
    t = common.tier()
    rng = random.Random(common.seed())
    res = small_regexes(2)
    if t == "quick":
        res = [r for r in res if len(r) <= 3] + rng.sample(res, 250)
    else:
        # every AST up to two atoms, and a sample of the 117 649 three-atom ones
        res = res + rng.sample(small_regexes(3)[len(res):], 6000)
    nest = nested_regexes()
    if t == "quick":
        nest = rng.sample(nest, 120)
    progs = []
    for i, r in enumerate(res):
        progs.append({"name": f"re-{i}", "src": f"parser {{\n  /{r}/;\n}}\n", "args": ["-feof-support"], "feats": {}, "must_accept": True})
    for i, r in enumerate(nest):
        progs.append({"name": f"rn-{i}", "src": f"parser {{\n  /{r}/;\n}}\n", "args": ["-feof-support"], "feats": {}, "must_accept": True})
    for i in range(250 if t == "quick" else 4000):
        progs.append({"name": f"rr-{i}", "src": f"parser {{\n  /{random_regex(rng)}/;\n}}\n", "args": ["-feof-support"], "feats": {}})
    for i in range(80 if t == "quick" else 1000):
        progs.append({"name": f"rb-{i}", "src": f"parser {{\n  b/{random_binary_regex(rng)}/;\n}}\n", "args": ["-feof-support"], "feats": {}})
    # regexes that failed once (fixed defects): always in the population
    for i, (form, r) in enumerate([("b", "ff([6f-92]+[^00-72][^2e-fe]{2,2})+"), ("b", "[^00-72][^2e-fe]|[^2e-fe]00"),
                                   ("", "x[^a-z]*[^\\x00-`{-\\xff]y"),
                                   # escaped backslashes and slashes, alone and inside a set
                                   ("", "C:\\\\[a-z]+"), ("", "x[\\\\\\/]y"), ("", "a\\\\\\\\b"), ("", "[^\\\\]+\\\\"), ("", "\\/\\\\\\/")]):
        progs.insert(i, {"name": f"fixed-{i}", "src": f"parser {{\n  {form}/{r}/;\n}}\n", "args": ["-feof-support"], "feats": {}})
    for i, p in enumerate(progs):
        p["also_O3"] = (i % 4 == 0)
    refcheck.run("C07", THEOREMS, "NmfuProps", progs,
                 "quantified groups with quantified / nullable / alternation bodies (quick: a sample); every regex AST up to 2 atoms (quick: a sample; thorough: plus 6000 of the three-atom ones) over {a,b,c,[ab],[^a],.,\\d} x {?,*,+,{2},{1,2},{2,}} (quick: a sample), random larger text regexes with classes / inverted sets / ranges, random binary regexes with high bytes; one-statement programs with EOF support; distinct accepted programs with at least 3 states")
