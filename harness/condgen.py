"""
Tie between `condChecks` (NmfuModel/CondGen.lean) and the real `CodegenCtx._generate_condition_for_transition`:
generated value sets (runs of length L-1 .. L+2 around the collapsed-range length, single values, the ends of the byte
range, End present or not) under the flag on / off and several lengths; the emitted C text is parsed back into range
and equality tests and compared, as a multiset, with what the mirror emits; independently of the mirror the emitted
test is evaluated on all 256 bytes against membership in the value list (the search for a failing input).
"""
import re, random, io, contextlib
from nmfu_api import nmfu

LENGTHS = (1, 2, 3, 4, 8, 300)


def gen_values(rng, L):
    vals = set()
    pos = rng.choice((0, 0, 1, rng.randint(0, 40)))
    while pos < 256 and rng.random() < 0.93:
        run = rng.choice((1, 1, 2, max(1, L - 1), L, L + 1, L + 2, rng.randint(1, 12)))
        for v in range(pos, min(256, pos + run)):
            vals.add(v)
        pos += run + rng.choice((1, 1, 2, rng.randint(1, 30)))
    if rng.random() < 0.3:
        vals.add(255)
    vals = list(vals)
    if rng.random() < 0.5:
        rng.shuffle(vals)
    return vals


def real_checks(vals, has_end, enabled, L):
    col = nmfu.ProgramFlag(9).name.lower().replace("_", "-")
    with contextlib.redirect_stdout(io.StringIO()), contextlib.redirect_stderr(io.StringIO()):
        nmfu.ProgramData.load_commandline_flags([("-f" if enabled else "-fno-") + col, "--collapsed-range-length", str(L), "x.nmfu"])
    ons = [chr(v) for v in vals]
    if has_end:
        ons.insert(len(ons) // 2, nmfu.DFTransition.End)
    t = nmfu.DFTransition(on_values=ons)
    text = nmfu.CodegenCtx._generate_condition_for_transition(object.__new__(nmfu.CodegenCtx), t)
    bare = re.sub(r"/\*.*?\*/", "", text, flags=re.S)
    checks = []
    for part in bare.split("||"):
        part = part.strip()
        if not part:
            continue
        m = re.fullmatch(r"\(\s*(\d+)\s*<=\s*inval\s*&&\s*inval\s*<=\s*(\d+)\s*\)", part)
        if m:
            checks.append(("r", int(m.group(1)), int(m.group(2))))
            continue
        m = re.fullmatch(r"inval\s*==\s*(\d+)", part)
        if m:
            checks.append(("e", int(m.group(1))))
            continue
        return None, text
    return checks, text


def holds(checks, x):
    return any((c[1] <= x <= c[2]) if c[0] == "r" else x == c[1] for c in checks)


def run(model, seed, n):
    """-> (stats, mirror_breaks, failing)"""
    rng = random.Random(f"{seed}/condgen")
    st = {"cases": 0, "with_ranges": 0, "range_tests": 0, "equality_tests": 0, "mirror_agrees": 0, "bytes_evaluated": 0}
    breaks, failing = [], []
    for k in range(n):
        L = LENGTHS[k % len(LENGTHS)]
        enabled = (k // len(LENGTHS)) % 4 != 3
        has_end = rng.random() < 0.3
        vals = gen_values(rng, L)
        if not vals:
            continue
        real, text = real_checks(vals, has_end, enabled, L)
        case = {"values": vals, "has_end": has_end, "collapse": enabled, "length": L, "emitted": text[:600]}
        st["cases"] += 1
        if real is None:
            breaks.append({**case, "why": "emitted text not understood"})
            continue
        st["range_tests"] += sum(1 for c in real if c[0] == "r")
        st["equality_tests"] += sum(1 for c in real if c[0] == "e")
        st["with_ranges"] += 1 if any(c[0] == "r" for c in real) else 0
        r = model.ask("condgen", 1 if enabled else 0, L, 1 if has_end else 0, " ".join(map(str, vals)))
        mirror = sorted(tuple([t.split(":")[0]] + [int(v) for v in t.split(":")[1:]]) for t in r.split() if ":" in t)
        if mirror == sorted(real):
            st["mirror_agrees"] += 1
        else:
            breaks.append({**case, "mirror": r[:400]})
        # the search for a failing input does not go through the mirror
        s = set(vals)
        for x in range(256):
            st["bytes_evaluated"] += 1
            if holds(real, x) != (x in s):
                failing.append({**case, "byte": x, "emitted_test_holds": holds(real, x), "listed": x in s})
                break
    nmfu.ProgramData.load_commandline_flags(["x.nmfu"])
    return st, breaks, failing
