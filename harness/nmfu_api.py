"""
Drive the real nmfu (imported from /repo/nmfu.py, whatever it says now) in-process.

compile_program(src, args) runs the same pipeline as nmfu.main():
  load_commandline_flags -> lark parse -> ParseCtx.parse -> DfaCompileCtx.compile -> CodegenCtx
and classifies the outcome.  The post-`convert` machine is snapshotted by wrapping
DfaCompileCtx._optimize_remove_inaccessible (the first thing compile() calls after convert), so
the pre- and post-optimisation machines of one compilation are both available with the real
compile() in control.  No change to /repo is needed.
"""
import os, sys, io, contextlib, traceback

REPO = os.environ.get("NMFU_REPO", "/repo")
if REPO not in sys.path:
    sys.path.insert(0, REPO)
sys.setrecursionlimit(10000)
import nmfu  # noqa: E402
import lark  # noqa: E402


class Outcome:
    """kind: ok | cli | syntax | parse | compile | codegen | internal"""
    def __init__(self, kind, **kw):
        self.kind = kind
        self.msg = kw.get("msg", "")
        self.exc = kw.get("exc")
        self.pctx = kw.get("pctx")
        self.dctx = kw.get("dctx")
        self.cctx = kw.get("cctx")
        self.header = kw.get("header")
        self.source = kw.get("source")
        self.pre = kw.get("pre")       # exported text of the post-convert machine
        self.name = kw.get("name")

    @property
    def ok(self):
        return self.kind == "ok"

    def __repr__(self):
        return f"<Outcome {self.kind} {self.msg[:80]!r}>"


def compile_program(src, args=(), name="p", want_pre=None, codegen=True):
    """Compile `src` with command-line `args` (no input file name in args)."""
    try:
        with contextlib.redirect_stdout(io.StringIO()), contextlib.redirect_stderr(io.StringIO()):
            nmfu.ProgramData.load_commandline_flags([*args, name + ".nmfu"])
    except RuntimeError as e:
        return Outcome("cli", msg=str(e), exc=e)
    except SystemExit as e:
        return Outcome("cli", msg="exit", exc=e)
    except Exception as e:  # KeyError for -O4, ValueError for -Ox ...
        return Outcome("cli", msg=f"{type(e).__name__}: {e}", exc=e)
    nmfu.ProgramData.load_source(src)
    try:
        pt = nmfu.parser.parse(src, start="start")
    except lark.LarkError as e:
        return Outcome("syntax", msg=str(e)[:300], exc=e)
    pre = {}
    orig = nmfu.DfaCompileCtx._optimize_remove_inaccessible
    try:
        try:
            pctx = nmfu.ParseCtx(pt)
            pctx.parse()
        except nmfu.NMFUError as e:
            return Outcome("parse", msg=_render(e), exc=e)
        dctx = nmfu.DfaCompileCtx(pctx)
        if want_pre is not None:
            state = {"done": False}

            def wrapped(self):
                if not state["done"]:
                    state["done"] = True
                    try:
                        pre["text"] = want_pre(self)
                    except Exception as e:  # snapshot failure must not change compilation
                        pre["error"] = repr(e)
                return orig(self)
            nmfu.DfaCompileCtx._optimize_remove_inaccessible = wrapped
        try:
            dctx.compile()
        except nmfu.NMFUError as e:
            return Outcome("compile", msg=_render(e), exc=e, pctx=pctx)
        finally:
            nmfu.DfaCompileCtx._optimize_remove_inaccessible = orig
        if not codegen:
            return Outcome("ok", pctx=pctx, dctx=dctx, pre=pre.get("text"), name=name)
        cctx = nmfu.CodegenCtx(dctx, name)
        try:
            header = cctx.generate_header()
            source = cctx.generate_source()
        except nmfu.NMFUError as e:
            return Outcome("codegen", msg=_render(e), exc=e, pctx=pctx, dctx=dctx)
        return Outcome("ok", pctx=pctx, dctx=dctx, cctx=cctx, header=header, source=source,
                       pre=pre.get("text"), name=name)
    except RecursionError as e:
        # nmfu's main() turns this into a compile error (the repair recorded in known_findings.json);
        # a tree without that handler lets the exception escape
        if hasattr(nmfu, "_main"):
            return Outcome("compile", msg="recursion limit reached (diagnosed by main())", exc=e)
        return Outcome("internal", msg="RecursionError", exc=e)
    except Exception as e:
        tb = traceback.extract_tb(e.__traceback__)
        where = f"{tb[-1].name}:{tb[-1].lineno}" if tb else "?"
        return Outcome("internal", msg=f"{type(e).__name__}: {e} @ {where}", exc=e)
    finally:
        nmfu.DfaCompileCtx._optimize_remove_inaccessible = orig


def _render(e):
    try:
        return str(e)
    except Exception as e2:  # message cannot be rendered
        return f"<<unrenderable: {type(e2).__name__}: {e2}>>"


def flags_now():
    return {f.name: bool(nmfu.ProgramData.do(f)) for f in nmfu.ProgramFlag}
