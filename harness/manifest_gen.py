"""Regenerate MANIFEST.json from the table below (kept in one place so it stays valid)."""
import json, os
VERIF = os.path.dirname(os.path.dirname(os.path.abspath(__file__)))
props = [json.loads(l)["id"] for l in open(os.path.join(VERIF, "properties.jsonl"))]

CHECKS = {
 "C05": dict(cat="translation_validation",
   text="Per program, the machines the real compiler builds at -O0 and at every other optimisation setting are compared by a lag-tolerant trace-equivalence certificate whose soundness is a Lean theorem for all machines, all inputs (bytes and end-of-input, unbounded length) and all outcomes of data tests (certOK_sound, certOK_lag_one); programs are enumerated (corpus + generated). The codegen-only flag is compared on binaries.",
   note="Trusted: Lean kernel; Lean runtime executing explore/certOK; export.py; the machine step semantics Mach.lean as a description of the emitted C (validated against the binary by C06); programs are sampled, inputs are not.",
   technique="Lean-proved equivalence certificate checker run on exported machines",
   design="5/C05"),
 "C06": dict(cat="proof",
   text="Lean theorems state that the runtime model's step is the abstract machine step (same arm, same events, same leaf) for every machine, state, symbol and store; the model is tied to the real generated C by exhaustive forced single steps (every state x byte class x end x data contexts) and random walks on the compiled binary under several option sets.",
   note="Trusted: Lean kernel; gcc as executor; cdriver.py; export.py. The correspondence samples programs; within a program the single-step space is covered by byte-class representatives.",
   technique="Lean refinement theorem + model/binary correspondence",
   design="5/C06"),
 "C02": dict(cat="proof",
   text="Lean theorem C02_chunk_independent: for every machine, store and list of chunks (any number and sizes, empty chunks included, yields re-invoked from the reported cursor) the chunked session equals the session on the concatenated input - same state struct, hook log with visible outputs, codes at the same absolute offsets; feedFrom_eq_feedL shows the cursor-level feed loop is that fold for machines passing the decidable check leavesOK, evaluated on every exported machine. The binary is run under all 2^(n-1) chunkings of short inputs and compared with itself and with the model.",
   note="Trusted: Lean kernel; the runtime model Rt.lean as a description of the emitted C, tied by C06/C02 correspondence runs on the compiled binary; gcc; cdriver.py; export.py.",
   technique="Lean theorem on the runtime model + model/binary correspondence under chunkings",
   design="5/C02"),
 "C10": dict(cat="proof",
   text="Lean theorems on the runtime model for every machine: OK implies the whole chunk was consumed, the cursor stays within the chunk, FAIL is absorbing in the failure state, resumption after yields is exact. The call-history predicates of the protocol (codes after terminal results, cursor after FAIL/DONE against the one-byte-per-call run, strict-done only postponing DONE) are evaluated on the compiled binary and the binary is compared with the model on every history.",
   note="Trusted: as C02. Which call reports DONE/FAIL is decided by correspondence with the model plus the direct predicates on the binary, not by a theorem.",
   technique="Lean protocol theorems on the runtime model + direct evaluation on binary call histories",
   design="5/C10"),
 "C17": dict(cat="proof",
   text="Lean theorems for every machine: once the program has reached its end end() returns DONE and changes nothing; an arm listing only end-of-input is never taken on a byte; end() only takes an arm listing end-of-input or the else arm; a consuming action-free else arm taken on end-of-input performs nothing. Per exported machine the decidable check endArmsOK (no data-pattern arm is taken on end-of-input) is evaluated; end() is called after every prefix of sampled inputs on the compiled binary (default and strict-done) and compared with the model.",
   note="Trusted: as C02; which states are accepting and which else arms exist is the compiler's output, validated per instance.",
   technique="Lean theorems on the machine model + per-machine decidable check + end() after every prefix on the binary",
   design="5/C17"),
 "C12": dict(cat="proof",
   text="Options without any parameter in the runtime model (hook placement, user pointer, packed enums, guard style, range collapse) are independent by identity once every binary is shown equal to the one model run; Lean theorems show the cursor mode and zero-length flag are not inputs of the semantics (whole chunked session equal) and that hook calls/result codes do not depend on storage options (partial: the simulation through buffer events is not proved). Binaries built under 9 representation sets are run on the same inputs and compared with each other and with the model.",
   note="Partial proof: storage-option independence through buffer events is established by the differential runs only. Trusted: as C02.",
   technique="Lean independence theorems (partial) + differential runs of binaries across representation options",
   design="5/C12"),
 "C03": dict(cat="proof",
   text="Lean theorems on the runtime model: for every machine passing the decidable check safeCheck (each append is the not-full branch of its own out-of-space test, constants and defaults fit, sizes leave room for the terminator), from any store satisfying the invariant, on every input under every chunking and in every storage mode, no write goes through NULL/freed memory or outside a buffer, nothing is freed twice, and every counter stays within capacity (C03_no_memory_fault, C03_counters_within_capacity, C03_end_safe). safeCheck is evaluated on every exported machine. ASan+UBSan+LeakSanitizer builds of the real C run the sampled sessions; dumps are checked for counter<=capacity, bytes=counter, NUL at the counter; model traces must equal the binary's.",
   note="Modelled, not verified: the C semantics of the templates (memcpy lengths, malloc never fails); start() establishing the invariant is checked by the sanitizer runs, not yet by a theorem; UB of the user's own arithmetic is excluded. Trusted: clang sanitizers, as C02.",
   technique="Lean invariant proof on the runtime model + per-machine decidable check + sanitizer runs of the binary",
   design="5/C03"),
 "C04": dict(cat="proof",
   text="Lean theorems: pruning call trees by a one-bit-per-buffer fullness abstraction changes no concrete run (prune_runTree), and for every machine passing noSpinCheck no store and no symbol can drive a feed/end dispatch into its move budget (C04_dispatch_returns, C04_feed_returns): each call returns within stepFuel non-consuming moves per byte. noSpinCheck and yieldProgressCheck are evaluated on every accepted program's exported machine (generic population + shapes around loops/try-catch(outofspace)/optional/if); candidates are confirmed by a model-guided search and by running the binary under an alarm; all binaries run random walks under the alarm.",
   note="One recorded finding (known_findings.json): out-of-space redirect into a non-consuming handler. Trusted: as C02; the alarm-based confirmation.",
   technique="Lean-proved spin checker with abstraction refinement on exported machines + binary runs under alarm",
   design="5/C04"),
 "C11": dict(cat="proof",
   text="Partial by nature: Lean theorems prove, for every machine with in-range targets and every option set, that every goto the feed/end templates emit has its label (C11_feed_labels_closed, C11_end_labels_closed); the label model is compared with the labels and gotos scraped from the real generated text for every program x option combination. The compilers' verdicts are explored, not proved: programs x a covering array over 16 option axes (pairs quick, triples thorough) compiled with gcc -std=c99 -Wall -Werror -Wno-unused-label, the header included twice as C and as C++, and the declared API scraped from the header and compared with the documented rule.",
   note="Not modelled: the C type system and warning set (compiler verdicts are exploration). Trusted: gcc/g++, the scraper.",
   technique="Lean label-closure theorem tied to scraped text + covering-array compilation",
   design="5/C11"),
 "C19": dict(cat="proof",
   text="The flag table, level table and clusters of related flags are regenerated from nmfu.py into Lean on every run. Lean theorems for every option sequence (any length, order, repetitions): the override dict holds the last value per flag (lastVal_normalize); a flag outside every implies/exclusive list - every optimisation flag, decided on the generated table - ends as its last explicit value or else 'default or listed by a level <= the requested one' (resolve_get_unrelated), hence override-beats-level and levels-cumulative; for the related flags the kernel decides, over every assignment of every cluster, that implied flags are on, exclusive flags never both on, explicit exclusive pairs are errors (and only those), and reversed/rotated option orders agree with the sorted order. The mirror of load_commandline_flags is compared with the real function on every assignment of the related flags x levels (thorough: all 3^11 x 4), permutations, long random lines, malformed options.",
   note="Order independence for all orders and 'full table = product of clusters' are checked exhaustively on the implementation/model by the harness, not proved. Trusted: translate.py, Lean kernel.",
   technique="translator-generated tables + Lean theorems (general + kernel-decided) + exhaustive correspondence with the real resolver",
   design="5/C19"),
 "C15": dict(cat="proof",
   text="The graphs of _convert_string (escapes), _convert_char_const, _create_casei_from and _escape_string on their whole one-character domains are regenerated from nmfu.py and proved equal to the hand models by the kernel; Lean theorems for every byte string: the emitted C string constant lexes back to exactly the bytes (escape_roundtrip, escape_length, with a C string-literal lexer as the definition of 'what C reads'), every byte string has a spelling that reads back as itself, raw characters denote themselves at any position, the escape table is exactly the documented one, '\\0' is NUL, case folding accepts either case of ASCII letters only. Every byte 0..255 in each spelling and each position is pushed through the compiled C; multi-character strings are compared between the Python functions and the Lean functions.",
   note="The literal *match* part (accepts exactly the sequence, fails at the first differing byte) is decided per literal on the binary here and by the regex acceptance check under C07. Trusted: translate.py, cLex as the reading of the C standard's string-literal lexing, gcc.",
   technique="translator-generated graphs + Lean codec theorems + exhaustive byte sweep through the compiled C",
   design="5/C15"),
 "C14": dict(cat="proof",
   text="The operator chain of the grammar is regenerated from nmfu.grammar; the kernel decides that its levels are C's precedence levels in C's order with the non-chaining comparison/shift levels and unary-on-atoms as restrictions (grammar_levels_agree_with_C). Lean theorems about the C-arithmetic evaluator eval (explicit undefined behaviour): out-of-range index reads 0 for every index expression, assignment stores the value converted to the declared type, conditions are true iff non-zero, all use contexts evaluate the same function, flattening of n-ary nodes is value-preserving. Tie: random well-typed trees printed with minimal parentheses are compiled by the real nmfu and evaluated by the compiled C on random and boundary values, against eval on the generator's own tree (a reference machine not derived from nmfu's parse).",
   note="Partial: the step from the level table to 'every accepted token string is grouped as C groups it' is the textbook argument, not formalised; C's own parse of the rendered text is exercised, not modelled. Trusted: gcc as the definition of C evaluation, translate.py.",
   technique="translator-generated grammar table + Lean evaluator theorems + differential evaluation through the compiled C against an independent tree",
   design="5/C14"),
}

def main():
    checks = []
    for pid in props:
        if pid in CHECKS:
            c = CHECKS[pid]
            checks.append({"property_id": pid, "quick_cmd": f"./check {pid} --tier quick",
                           "thorough_cmd": f"./check {pid} --tier thorough",
                           "evidence_file": f"evidence/{pid}.json",
                           "replay_cmd_template": f"./check {pid} --replay {{path}}",
                           "engine": "lean4+harness",
                           "level_claimed": {"category": c["cat"], "text": c["text"], "design_ref": c["design"]},
                           "level_note": c["note"], "technique": c["technique"]})
    m = {"version": 1,
         "setup_cmd": "cd /verif/lean && lake build",
         "hooks": {"guard": "NMFU_VERIF",
                   "enable": "no source hooks are needed: the harness imports /repo/nmfu.py in-process and wraps DfaCompileCtx._optimize_remove_inaccessible from outside to snapshot the pre-optimisation machine",
                   "baseline_off_cmd": "cd /repo && /venv/bin/python -m pytest -ra -q -p no:cacheprovider --timeout=900 --continue-on-collection-errors",
                   "source_commits": [], "add_only": True},
         "engines": [{"name": "lean4+harness", "path": "lean/ , harness/", "serves_properties": sorted(CHECKS),
                      "kind_free_text": "Lean 4 models and theorems (lean/NmfuModel, lean/NmfuProps), compiled model driver, Python harness driving the real nmfu in-process and the compiled generated C"}],
         "checks": checks,
         "not_applicable": [{"property_id": p, "reason": "check not built yet (work in progress; DESIGN.md section 5 gives the plan)"} for p in props if p not in CHECKS],
         "notes": "All checks rebuild from /repo's working tree: nmfu.py is imported fresh by every check process, Generated Lean tables are re-extracted, and lake build re-checks the theorems."}
    json.dump(m, open(os.path.join(VERIF, "MANIFEST.json"), "w"), indent=1)

if __name__ == "__main__":
    main()
