"""
Common body of the checks that compare compiled machines with the Lean reference semantics
(C01, C07, C08, C16).  Each property supplies its program population.
"""
import sys, os, random, shutil, json, multiprocessing as mp
import common
from common import Check
import population

LOOSE_KEY = "loose-action-scheduling"
ENDFOREACH_KEY = "foreach-actions-at-end-inside-wait"
SPIN_KEY = "spin-through-outofspace-redirect"


def work(job):
    import refine
    prog, prop = job[0], job[1]
    wdroot = job[2] if len(job) > 2 else os.path.join(common.VERIF, "scratch", f"cstage-{prop.lower()}")
    args = ["-O1"] + prog["args"]
    r = refine.refine(prog["src"], args, timeout=25)
    out = {"name": prog["name"], "status": r["status"], "detail": r.get("detail", ""), "word": r.get("word"),
           "nstates": r.get("nstates", 0), "loose": None, "O3": None, "endforeach": None, "spins": r.get("machine_spins", False)}
    if r["status"] == "mismatch":
        r2 = refine.refine(prog["src"], args, timeout=40, strict_done="0L")
        out["loose"] = r2["status"]
        if r2["status"] == "mismatch":
            # assignments / deletes after a skipped construct up to the end of its block are lost
            for mode in ("0S", "0LS"):
                r6 = refine.refine(prog["src"], args, timeout=40, strict_done=mode)
                if r6["status"] in ("closed", "closed-relaxed"):
                    out["loose"] = r6["status"]
                    break
        if out["loose"] == "mismatch" and "foreach" in prog["src"] and "wait" in prog["src"]:
            for mode in ("0E", "0LE", "0SE"):
                r5 = refine.refine(prog["src"], args, timeout=40, strict_done=mode)
                out["endforeach"] = r5["status"]
                if r5["status"] in ("closed", "closed-relaxed"):
                    break
    elif r["status"] in ("closed", "closed-relaxed") and prog.get("also_O3"):
        r3 = refine.refine(prog["src"], ["-O3"] + prog["args"], timeout=40)
        out["O3"] = r3["status"]
        if r3["status"] == "mismatch":
            r4 = refine.refine(prog["src"], ["-O3"] + prog["args"], timeout=40, strict_done="0L")
            for mode in ("0S", "0LS"):
                if r4["status"] in ("closed", "closed-relaxed"):
                    break
                r4 = refine.refine(prog["src"], ["-O3"] + prog["args"], timeout=40, strict_done=mode)
            if r4["status"] in ("closed", "closed-relaxed"):
                out["status"] = "mismatch"
                out["detail"] = "(-O3) " + r3["detail"]
                out["word"] = r3.get("word")
                out["loose"] = r4["status"]
                out["spins"] = r3.get("machine_spins", False)
            else:
                out["spins"] = r3.get("machine_spins", False)
                out["status"] = "mismatch"
                out["detail"] = "(-O3) " + r3["detail"]
                out["word"] = r3.get("word")
                out["loose"] = r4["status"]
    if prog.get("c_stage") and out["status"] in ("closed", "closed-relaxed"):
        # end to end: the real generated C against the runtime model of the same machine
        import rtdiff, random
        wd = os.path.join(wdroot, str(os.getpid()))
        cargs = args + (["-findirect-start-ptr"] if "-fyield-support" not in args else [])
        try:
            st, diffs = rtdiff.walk_diffs(prog, cargs, wd, random.Random(prog["name"]))
            out["c_stage"] = {"status": st, "diffs": diffs}
        except Exception as e:
            out["c_stage"] = {"status": "error:" + repr(e)[:200], "diffs": []}
    return out


def replay_on_binary(prog, word, wd):
    """Run the witness word on the real generated C (for the replay file)."""
    try:
        import rtdiff
        case = rtdiff.Case(prog, ["-O1"] + prog["args"] + (["-findirect-start-ptr"] if "-fyield-support" not in prog["args"] else []), wd)
        if not case.ok:
            return {"binary": case.why[:200]}
        data = bytes(x for x in (word or []) if x < 256)
        ops = ["start"] + ([f"feedy:{data.hex()}"] if data else []) + (["end"] if (word and 256 in word and case.eof()) else [])
        lines, status, err = case.run_c(ops)
        return {"ops": ops, "trace": lines[-8:], "status": status}
    except Exception as e:
        return {"binary": repr(e)[:200]}


def collect(pid, progs):
    """reference comparison of every program (in a pool) -> results"""
    # every k-th program also goes through the compiled C (binary vs runtime model of its machine)
    k = max(1, len(progs) // (60 if common.tier() == "quick" else 400))
    for i, p in enumerate(progs):
        p.setdefault("c_stage", i % k == 0)
    wdroot = os.path.join(common.VERIF, "scratch", f"cstage-{pid.lower()}-{os.getpid()}")   # (unique per run)
    try:
        with mp.Pool(min(14, os.cpu_count() or 4)) as pool:
            results = pool.map(work, [(p, pid, wdroot) for p in progs], chunksize=2)
    finally:
        shutil.rmtree(wdroot, ignore_errors=True)
    return results


def judge(ck, pid, progs, results):
    """report the results through `ck`; -> (stats, distinct)"""
    byname = {p["name"]: p for p in progs}
    st = {"programs": len(progs), "accepted": 0, "closed": 0, "closed_relaxed": 0, "rejected": 0, "unsupported": 0,
          "inconclusive": 0, "mismatch": 0, "unsupported_reasons": {}}
    distinct = set()
    wd = common.scratch_dir(pid.lower())
    try:
        for r in results:
            prog = byname[r["name"]]
            s = r["status"]
            if s == "rejected":
                st["rejected"] += 1
                if prog.get("must_accept"):
                    # a program of a family that is valid by construction (and accepted by the unchanged compiler)
                    ck.report(f"rejected/{population.src_hash(prog['src'])}",
                              f"{r['name']}: a valid program is rejected: {r['detail'][:160]}",
                              {"program": prog["src"], "prog_args": prog["args"], "verdict": r["detail"]})
                continue
            if prog.get("must_reject"):
                # a program the property says must be diagnosed (e.g. two else clauses) was accepted
                ck.report(f"accepted/{population.src_hash(prog['src'])}",
                          f"{r['name']}: a program that has to be rejected is accepted ({prog['must_reject']})",
                          {"program": prog["src"], "prog_args": prog["args"], "status": s})
                continue
            if s == "unsupported":
                st["unsupported"] += 1
                k = r["detail"][:50]
                st["unsupported_reasons"][k] = st["unsupported_reasons"].get(k, 0) + 1
                continue
            st["accepted"] += 1
            ck.obligations += 1
            if r["nstates"] >= 3:
                distinct.add(population.src_hash(prog["src"]))
            if s == "closed":
                st["closed"] += 1
                ck.discharged += 1
            elif s == "closed-relaxed":
                st["closed_relaxed"] += 1
                ck.discharged += 1
            elif s == "mismatch":
                st["mismatch"] += 1
                if prog.get("known_key"):
                    key = prog["known_key"]
                    what = f"{r['name']}: {prog.get('known_what', 'listed finding')}; witness word {r['word']}"
                elif r.get("spins"):
                    key = SPIN_KEY
                    what = (f"{r['name']}: the machine's dispatch does not return (an out-of-space redirect re-enters the same append: "
                            f"the finding recorded under C04); witness word {r['word']}")
                elif r.get("endforeach") in ("closed", "closed-relaxed"):
                    key = ENDFOREACH_KEY
                    what = (f"{r['name']}: end-of-input met inside a wait runs the per-byte actions of the enclosing "
                            f"foreach; witness word {r['word']}")
                elif r["loose"] in ("closed", "closed-relaxed"):
                    key = LOOSE_KEY
                    what = (f"{r['name']}: differs from the reference only in the scheduling of loose actions "
                            f"(assignments / deletes after a construct that can match nothing); witness word {r['word']}")
                else:
                    key = f"{population.src_hash(prog['src'])}/mismatch"
                    what = f"{r['name']}: compiled machine and reference semantics disagree on word {r['word']}"
                if not ck.report(key, what, {"program": prog["src"], "args": prog["args"], "witness_word": r["word"],
                                             "checker": r["detail"], "without_loose_actions": r["loose"],
                                             "c_replay": replay_on_binary(prog, r["word"], wd)}):
                    # an instance of a recorded finding (printed as KNOWN-FINDING): not an obligation of this run
                    ck.obligations -= 1
                    st["known_finding_instances"] = st.get("known_finding_instances", 0) + 1
            elif s in ("timeout", "fuel"):
                # the model's exploration budget ran out: nothing decided for this program (a tool
                # limit, reported in the evidence; too many of them fails the run as a tool error)
                st["budget_exceeded"] = st.get("budget_exceeded", 0) + 1
                ck.obligations -= 1
                st["accepted"] -= 1
            else:
                st["inconclusive"] += 1
                ck.broken_obligation(f"certificate inconclusive ({s}) for {r['name']}", {"program": prog["src"], "detail": r["detail"][:300]})
            cs = r.get("c_stage")
            if cs:
                if cs["status"] == "ok":
                    st["c_stage_programs"] = st.get("c_stage_programs", 0) + 1
                    for d in cs["diffs"]:
                        ck.report(f"{population.src_hash(prog['src'])}/binary-vs-model",
                                  f"{r['name']}: the compiled C and the runtime model of the same machine disagree ({d['kind']})",
                                  dict(d, program=prog["src"]))
                        break
                elif cs["status"].startswith("build:"):
                    ck.report(f"{population.src_hash(prog['src'])}/build", f"{r['name']}: generated C does not build",
                              {"program": prog["src"], "args": prog["args"], "detail": cs["status"][:500]})
            if len(ck.samples) < 4 and s in ("closed", "closed-relaxed"):
                ck.samples.append({"program": r["name"], "result": r["detail"][:100]})
    finally:
        shutil.rmtree(wd, ignore_errors=True)
    return st, distinct


def run(pid, theorems, module, progs, rule, known_corpus=()):
    ck = Check(pid, {"C07": "proof", "C16": "proof"}.get(pid, "translation_validation"))   # as claimed in MANIFEST.json
    ck.lean_obligations(module, theorems)
    results = collect(pid, progs)
    st, distinct = judge(ck, pid, progs, results)
    if st.get("budget_exceeded", 0) * 20 > max(1, st["accepted"]):
        print(f"TOOL-ERROR: {st['budget_exceeded']} of {st['accepted']} programs exceeded the exploration budget")
        sys.exit(2)
    ck.finish({"programs": st["accepted"], "disagreements_checked": st["accepted"],
               "evaluations": st["accepted"], "distinct_nontrivial": len(distinct), "rule": rule, "stats": st})
