"""
C02 — the parsing result is independent of how the input is chunked.

Lean: NmfuProps/C02.lean — for every machine, store and list of chunks the chunked session equals
the session on the concatenated input (C02_chunk_independent), and the cursor-level feed loop is
that fold (feedFrom_eq_feedL) for machines passing the decidable check `leavesOK`.
Tie and direct evaluation: for each accepted program the compiled binary is run under all
2^(n-1) chunkings of short inputs and canonical + random chunkings of longer ones; (a) every
chunking must give the same observable outcome as the one-chunk run, on the binary itself;
(b) the binary's trace must equal the Lean runtime model's under every chunking; (c) `leavesOK`
must hold of the exported machine.
"""
import sys, os, random, shutil, itertools, multiprocessing as mp
sys.path.insert(0, os.path.dirname(os.path.abspath(__file__)))
import common
from common import Check
import population

THEOREMS = ["Nmfu.C02_chunk_independent", "Nmfu.runAll_append", "Nmfu.feedL_append",
            "Nmfu.feedFrom_eq_feedL", "Nmfu.stepsOK_of_leavesOK"]
TERMINAL = lambda code: code not in ("OK",) and not code.startswith("YIELD_")


def all_compositions(n):
    for mask in range(1 << (n - 1)):
        parts, run = [], 1
        for i in range(n - 1):
            if mask >> i & 1:
                parts.append(run)
                run = 1
            else:
                run += 1
        parts.append(run)
        yield parts


def observe(lines, chunks, indirect):
    """Canonical observable of one session: hooks, yields@abs, terminal@abs, final dump, end code."""
    hooks, yields, terminal, final, endcode = [], [], None, "", None
    base = 0
    ci = 0
    for l in lines:
        if l == "begin" or l.startswith("start "):
            continue
        head, _, dump = l.partition(" | ")
        w = head.split()
        if w[0] == "hook":
            if terminal is None:
                hooks.append(l)
        elif w[0] == "feed":
            if terminal is not None:
                continue
            code = w[1]
            absoff = base + int(w[2]) if indirect and w[2] != "-" else None
            final = dump
            if code.startswith("YIELD_"):
                yields.append((code, absoff))
            else:
                if TERMINAL(code):
                    terminal = (code, absoff)
                if ci < len(chunks):
                    base += chunks[ci]
                    ci += 1
        elif w[0] == "end":
            if terminal is None:
                endcode = w[1]
                final = dump
    return {"hooks": hooks, "yields": yields, "terminal": terminal, "final": final, "end": endcode}


def work(job):
    import rtdiff, inputs
    prog, seed, wd_root, tier = job
    rng = random.Random(f"{seed}/{prog['name']}/c02")
    res = {"name": prog["name"], "status": "ok", "sessions": 0, "inputs": 0, "viol": [], "corr": [], "wf": None, "yield_sessions": 0}
    optsets = [("direct", []), ("indirect", ["-findirect-start-ptr"])]
    if prog["feats"].get("yields"):
        optsets = [("indirect", [])]
    if tier == "thorough" or prog["feats"].get("yields"):
        # (yields land on consuming transitions at -O3: the early-advance template is live there)
        optsets.append(("indirect+O3", ["-O3", "-findirect-start-ptr"]))
    if tier == "thorough" or len(prog["src"]) > 2300:
        # (-O0 keeps unreachable states: the big programs get state indices beyond one byte)
        optsets.append(("indirect+O0", ["-O0", "-findirect-start-ptr"]))
    for oname, oargs in optsets:
        wd = os.path.join(wd_root, str(os.getpid()))
        shutil.rmtree(wd, ignore_errors=True)
        case = rtdiff.Case(prog, ["-O1"] + prog["args"] + oargs, wd)
        if not case.ok:
            if case.why.startswith("rejected") and oname == optsets[0][0]:
                res["status"] = case.why
                break
            continue
        res["states"] = case.nstates
        # the state saved between calls must be able to hold every state index (the model's state is unbounded)
        for prob in rtdiff.decl_width_problems(case.outcome):
            res["viol"].append({"kind": "declared-width", "opt": oname, "detail": prob, "args": case.args})
        wf = rtdiff.model().ask("wf", case.opts, case.mt)
        res["wf"] = wf
        if "leavesOK=true" not in wf:
            res["corr"].append({"kind": "leavesOK", "opt": oname, "detail": wf})
        datas = []
        n_short = 6 if tier == "quick" else 14
        for _ in range(n_short):
            datas.append(inputs.random_walk(case.dfa, rng, rng.randint(2, 7 if tier == "quick" else 9)))
        for _ in range(3 if tier == "quick" else 8):
            datas.append(inputs.random_walk(case.dfa, rng, rng.randint(10, 40)))
        datas += inputs.extra(prog)
        for data in datas:
            n = len(data)
            if n == 0:
                continue
            if n <= 9:
                chunkings = list(all_compositions(n))
            else:
                chunkings = inputs.chunkings(data, rng, 12)
            ops = []
            for ch in chunkings:
                ops += rtdiff.feed_ops(case, data, ch)
            clines, status, err = case.run_c(ops, timeout=60)
            if status != "ok":
                res["viol"].append({"kind": "binary-" + status, "opt": oname, "input": data.hex(), "detail": err[-300:]})
                continue
            mlines = case.run_model(ops)
            segs = rtdiff.segments(clines)
            msegs = rtdiff.segments(mlines)
            res["inputs"] += 1
            ref = None
            for k, (ch, seg) in enumerate(zip(chunkings, segs)):
                res["sessions"] += 1
                ob = observe(seg, ch, case.indirect())
                if ob["yields"]:
                    res["yield_sessions"] += 1
                if ref is None:
                    ref = (ch, ob, seg)
                elif ob != ref[1]:
                    res["viol"].append({"kind": "chunk-dependent", "opt": oname, "args": case.args, "input": data.hex(),
                                        "chunking_a": ref[0], "chunking_b": ch, "observed_a": ref[1], "observed_b": ob,
                                        "trace_a": ref[2][-6:], "trace_b": seg[-6:]})
                    break
                if k < len(msegs):
                    d = rtdiff.compare(seg, msegs[k])
                    if d is not None:
                        res["corr"].append({"kind": "model-vs-binary", "opt": oname, "args": case.args, "input": data.hex(),
                                            "chunking": ch, "first": [d[2], d[3]]})
                        break
            if len(res["viol"]) + len(res["corr"]) > 3:
                break
        shutil.rmtree(wd, ignore_errors=True)
    return res


def main():
    ck = Check("C02", "proof")
    ck.lean_obligations("NmfuProps.C02", THEOREMS)
    n_gen = 60 if ck.tier == "quick" else 800
    progs = list(population.population(ck.seed, n_gen))
    wd = common.scratch_dir("c02")
    try:
        with mp.Pool(min(14, os.cpu_count() or 4)) as pool:
            results = pool.map(work, [(p, ck.seed, wd, ck.tier) for p in progs], chunksize=1)
    finally:
        shutil.rmtree(wd, ignore_errors=True)
    byname = {p["name"]: p for p in progs}
    st = {"programs": 0, "sessions": 0, "inputs": 0, "yield_sessions": 0, "rejected": 0, "leavesOK": 0}
    distinct = set()
    for r in results:
        if r["status"] != "ok":
            st["rejected"] += 1
            continue
        st["programs"] += 1
        st["sessions"] += r["sessions"]
        st["inputs"] += r["inputs"]
        st["yield_sessions"] += r["yield_sessions"]
        if r["wf"] and "leavesOK=true" in r["wf"]:
            st["leavesOK"] += 1
        prog = byname[r["name"]]
        if r.get("states", 0) >= 3:
            distinct.add(population.src_hash(prog["src"]))
        for v in r["viol"]:
            ck.report(f"{population.src_hash(prog['src'])}/{v['opt']}/{v['kind']}",
                      f"{r['name']} ({v['opt']}): outcome depends on chunking of input {v.get('input')}: {v.get('chunking_a')} vs {v.get('chunking_b')}",
                      {"program": prog["src"], **v})
        for v in r["corr"]:
            # correspondence broken: search already done by the direct evaluation above
            ck.broken_obligation(f"correspondence model/binary for {r['name']} ({v['opt']}): {v['kind']}", v)
        if len(ck.samples) < 4 and r["sessions"]:
            ck.samples.append({"program": r["name"], "inputs": r["inputs"], "sessions": r["sessions"]})
    ck.finish({"evaluations": st["sessions"], "distinct_nontrivial": len(distinct),
               "traces_validated_against_impl": st["sessions"],
               "rule": "per accepted program: random walks of length 2..9 under all 2^(n-1) chunkings, longer walks under whole / all-ones / every single cut / random chunkings; direct and indirect cursor; programs distinct by source hash with at least 3 states",
               "stats": st})


if __name__ == "__main__":
    main()
