"""
Export a compiled nmfu machine (DfaCompileCtx) as a token stream for the Lean model
(NmfuModel/Parse.lean).  States in `dfa.states` order (= C state indices), transitions in list
order (= if / else-if order), actions by content.

Token grammar (whitespace separated):
  machine := "machine" nouts out* nstates start state* acts nhooks name* nfin name* nyield name* "end"
  out     := "out" name ty def
  ty      := "bool" | "int" signed bits | "enum" n | "str" size null cbits | "raw" sizeof cbits
  def     := "nodef" | "defi" INT | "defs" n byte*
  state   := "state" kind accepting narms arm*
  arm     := "arm" cond target fall err non on* acts
  cond    := "celse" | "cconst" 0/1 | "cexpr" expr
  acts    := "acts" n act*
  act     := "finish" | "finishc" name | "yield" name | "hook" name | "append" oos out
           | "appendc" oos out each expr | "set" out expr | "setstr" out n byte* | "delete" out
           | "break" end acts | "cond" nb (cond acts)*
  expr    := "lit" INT | "litb" 0/1 | "lite" NAME idx | "out" i | "len" i | "idx" i expr | "last"
           | "bin" op flat expr expr
on-values: 0..255 byte, 256 End, 257 Else.
"""
from nmfu_api import nmfu

END, ELSE = 256, 257
RAW_SIZEOF = {"int8_t": 1, "uint8_t": 1, "char": 1, "int16_t": 2, "uint16_t": 2, "int32_t": 4,
              "uint32_t": 4, "int": 4, "float": 4, "int64_t": 8, "uint64_t": 8, "double": 8,
              "long": 8, "size_t": 8}
CTYPE_BITS = {"int8_t": (1, 8), "int16_t": (1, 16), "int32_t": (1, 32), "intmax_t": (1, 64),
              "uint8_t": (0, 8), "uint16_t": (0, 16), "uint32_t": (0, 32), "uintmax_t": (0, 64)}


class Unsupported(Exception):
    pass


def _ctype(**kw):
    name = nmfu.CodegenCtx._integer_containing(None, **kw)
    if name not in CTYPE_BITS:
        raise Unsupported(f"integer type {name}")
    return CTYPE_BITS[name]


class Exporter:
    def __init__(self, dctx, dfa=None):
        self.dctx = dctx
        self.dfa = dfa if dfa is not None else dctx.dfa
        self.outs = list(dctx.state_object_spec.values())
        self.out_idx = {id(o): i for i, o in enumerate(self.outs)}
        self.t = []

    def w(self, *toks):
        self.t.extend(str(x) for x in toks)

    def sidx(self, st):
        if st is None:
            return -1
        for i, s in enumerate(self.dfa.states):
            if s is st:
                return i
        return -1

    def oidx(self, o):
        if id(o) not in self.out_idx:
            raise Unsupported("unknown output " + repr(o))
        return self.out_idx[id(o)]

    # ---- expressions
    def expr(self, e):
        E = nmfu
        if isinstance(e, E.LiteralIntegerExpr):
            t = e.result_type()
            if t == E.OutputStorageType.ENUM:
                self.w("lite", e.model_ref.name.upper() + "_" + str(e.value).upper(),
                       e.model_ref.enum_values.index(e.value))
            elif t == E.OutputStorageType.BOOL:
                self.w("litb", 1 if e.value else 0)
            elif t == E.OutputStorageType.INT:
                self.w("lit", int(e.value))
            else:
                raise Unsupported("literal type " + str(t))
        elif isinstance(e, E.OutIntegerExpr):
            self.w("out", self.oidx(e.ref))
        elif isinstance(e, E.StringLengthIntegerExpr):
            self.w("len", self.oidx(e.ref))
        elif isinstance(e, E.StringRefIntegerExpr):
            self.w("idx", self.oidx(e.ref))
            self.expr(e.index)
        elif isinstance(e, E.LastCharIntegerExpr):
            self.w("last")
        elif isinstance(e, E.SumIntegerExpr):
            self.nary(e.children, ["sub" if n else "add" for n in e.negate[1:]])
        elif isinstance(e, E.MulIntegerExpr):
            m = {"*": "mul", "/": "div", "%": "mod"}
            self.nary(e.children, [m[o.value] for o in e.divide[1:]])
        elif isinstance(e, E.CompareIntegerExpr):
            m = {"<": "lt", ">": "gt", "<=": "le", ">=": "ge", "==": "eq", "!=": "ne"}
            self.w("bin", m[e.op.value], 0)
            self.expr(e.left)
            self.expr(e.right)
        elif isinstance(e, E.BitShiftIntegerExpr):
            self.w("bin", "shl" if e.towards_left else "shr", 0)
            self.expr(e.left)
            self.expr(e.right)
        elif isinstance(e, E.BitwiseIntegerExpr):
            m = {"|": "bor", "^": "bxor", "&": "band"}
            self.nary(e.children, [m[e.op.value]] * (len(e.children) - 1))
        elif isinstance(e, E.DisjunctionIntegerExpr):
            self.nary(e.children, ["lor"] * (len(e.children) - 1))
        elif isinstance(e, E.ConjunctionIntegerExpr):
            self.nary(e.children, ["land"] * (len(e.children) - 1))
        else:
            raise Unsupported("expr " + type(e).__name__)

    def nary(self, children, ops):
        # c0 op1 c1 op2 c2 ...  ==> bin op_n 1? (...(bin op1 0 c0 c1)...) c_n ; the outermost
        # nodes have flat=1 on their *left* operand being the same n-ary node
        n = len(ops)
        if n == 0:
            raise Unsupported('one-child n-ary expression')
        for k in range(n, 0, -1):
            self.w("bin", ops[k - 1], 1 if k > 1 else 0)
        self.expr(children[0])
        for k in range(1, n + 1):
            self.expr(children[k])

    # ---- conditions / actions
    def cond(self, c):
        if isinstance(c, nmfu.ElseCondition):
            self.w("celse")
        elif isinstance(c, nmfu.ConstantCondition):
            self.w("cconst", 1 if c.value else 0)
        elif isinstance(c, nmfu.IntegerCondition):
            self.w("cexpr")
            self.expr(c.expr)
        else:
            raise Unsupported("condition " + type(c).__name__)

    def acts(self, actions):
        self.w("acts", len(actions))
        for a in actions:
            self.act(a)

    def act(self, a):
        E = nmfu
        if isinstance(a, E.CustomFinishAction):
            self.w("finishc", a.result_code)
        elif isinstance(a, E.FinishAction):
            self.w("finish")
        elif isinstance(a, E.CustomYieldAction):
            self.w("yield", a.result_code)
        elif isinstance(a, E.CallHook):
            self.w("hook", a.name)
        elif isinstance(a, E.AppendTo):
            self.w("append", self.sidx(a.end_target), self.oidx(a.into_storage))
        elif isinstance(a, E.AppendCharTo):
            self.w("appendc", self.sidx(a.end_target), self.oidx(a.into_storage),
                   1 if getattr(a, "runs_for_each_character", False) else 0)
            self.expr(a.append_value)
        elif isinstance(a, E.SetTo):
            self.w("set", self.oidx(a.into_storage))
            self.expr(a.value_expr)
        elif isinstance(a, E.SetToStr):
            v = a.value_expr
            bs = list(v) if isinstance(v, (bytes, bytearray)) else [ord(ch) for ch in v]
            if any(b > 255 for b in bs):
                raise Unsupported("non-latin1 string")
            self.w("setstr", self.oidx(a.into_storage), len(bs), *bs)
        elif isinstance(a, E.DeleteBuf):
            self.w("delete", self.oidx(a.into_storage))
        elif isinstance(a, E.BreakAction):
            self.w("break", self.sidx(a.refers_to.end_state))
            self.acts(list(a.replacement_actions()))
        elif isinstance(a, E.ConditionalAction):
            self.w("cond", len(a.conditions))
            for c in a.conditions:
                self.cond(c)
                self.acts(list(a.sub_actions[c]))
        else:
            raise Unsupported("action " + type(a).__name__)

    # ---- outputs
    def out(self, o):
        T = nmfu.OutputStorageType
        self.w("out", o.name)
        if o.type == T.BOOL:
            self.w("bool")
        elif o.type == T.INT:
            s, b = _ctype(signed=o.int_signed, width=o.int_width)
            self.w("int", s, b)
        elif o.type == T.ENUM:
            self.w("enum", len(o.enum_values))
        elif o.type == T.STR:
            _, cb = _ctype(maxval=o.str_size, signed=False)
            self.w("str", o.str_size, 1 if o.str_null else 0, cb)
        elif o.type == T.RAW:
            if o.raw_underlying not in RAW_SIZEOF:
                raise Unsupported("raw type " + o.raw_underlying)
            hint = nmfu.CodegenCtx._get_maxval_hint_for_raw_type(None, o.raw_underlying)
            _, cb = _ctype(maxval=hint, signed=False)
            self.w("raw", RAW_SIZEOF[o.raw_underlying], cb)
        d = o.default_value
        if d is None:
            self.w("nodef")
        elif o.type == T.STR:
            bs = list(d) if isinstance(d, (bytes, bytearray)) else [ord(ch) for ch in d]
            if any(b > 255 for b in bs):
                raise Unsupported("non-latin1 default")
            self.w("defs", len(bs), *bs)
        else:
            if not d.is_literal():
                raise Unsupported("non-literal default")
            v = d.get_literal_result()
            if d.result_type() == T.ENUM:
                v = o.enum_values.index(v)
            if v is None:
                raise Unsupported("default without literal value")
            self.w("defi", int(v))

    def on_value(self, v):
        if v is nmfu.DFTransition.Else:
            return ELSE
        if v is nmfu.DFTransition.End:
            return END
        if isinstance(v, str) and len(v) == 1 and ord(v) < 256:
            return ord(v)
        if isinstance(v, int) and 0 <= v < 256:
            return v
        raise Unsupported("on value " + repr(v))

    def machine(self):
        dfa = self.dfa
        self.w("machine", len(self.outs))
        for o in self.outs:
            self.out(o)
        self.w(len(dfa.states), self.sidx(dfa.starting_state))
        fail = self.dctx.generic_fail_state
        for st in dfa.states:
            if st is fail:
                kind = "fail"
            elif isinstance(st, nmfu.DFConditionPoint):
                kind = "cond"
            else:
                kind = "normal"
            acc = 1 if any(st is a for a in dfa.accepting_states) else 0
            arms = [] if kind == "fail" else list(st.transitions)
            self.w("state", kind, acc, len(arms))
            for tr in arms:
                self.w("arm")
                if isinstance(tr, nmfu.DFConditionalTransition):
                    self.cond(tr.condition)
                else:
                    self.w("celse")
                self.w(self.sidx(tr.target), 1 if tr.is_fallthrough else 0,
                       1 if tr.error_handling else 0)
                ons = [self.on_value(v) for v in tr.on_values]
                self.w(len(ons), *ons)
                self.acts(list(tr.actions))
        self.acts(list(self.dctx.start_actions))
        hooks = list(self.dctx.hooks)
        self.w(len(hooks), *hooks)
        fc = list(self.dctx.finish_codes)
        self.w(len(fc), *fc)
        yc = list(self.dctx.yield_codes)
        self.w(len(yc), *yc)
        self.w("end")
        return " ".join(self.t)


def export_machine(dctx, dfa=None):
    return Exporter(dctx, dfa).machine()
