"""
Shared plumbing of the checks: Lean build + axiom audit, evidence, replays, known findings,
the VIOLATION / KNOWN-FINDING protocol.
"""
import os, sys, json, time, hashlib, subprocess, re, shutil

VERIF = os.path.dirname(os.path.dirname(os.path.abspath(__file__)))
LEAN = os.path.join(VERIF, "lean")
SCRATCH = os.environ.get("VERIF_SCRATCH", os.path.join(VERIF, "scratch"))
REPLAYS = os.environ.get("VERIF_REPLAYS") or os.path.join(VERIF, "replays")   # (seeded runs write theirs next to the seed)
EVIDENCE = os.path.join(VERIF, "evidence")
ALLOWED_AXIOMS = {"propext", "Classical.choice", "Quot.sound"}
FORBIDDEN = re.compile(r"\b(sorry|admit|native_decide|bv_decide|implemented_by|unsafe)\b|^\s*axiom\s|maxHeartbeats\s+0")

os.makedirs(SCRATCH, exist_ok=True)
os.makedirs(REPLAYS, exist_ok=True)
os.makedirs(EVIDENCE, exist_ok=True)


def seed():
    try:
        return int(os.environ.get("VERIF_SEED", "1"))
    except ValueError:
        return 1


def tier(argv=None):
    argv = argv if argv is not None else sys.argv
    if "--tier" in argv:
        return argv[argv.index("--tier") + 1]
    return os.environ.get("VERIF_TIER", "quick")


class ToolFailure(Exception):
    pass


def run(cmd, cwd=None, timeout=1800, env=None):
    e = dict(os.environ)
    if env:
        e.update(env)
    p = subprocess.run(cmd, cwd=cwd, capture_output=True, text=True, timeout=timeout, env=e)
    out = "\n".join(l for l in (p.stdout + p.stderr).splitlines() if "conda" not in l)
    return p.returncode, out


_built = False


def lake_build():
    """Build the whole Lean project (models, property theorems, driver). Tool failure if the
    toolchain itself breaks; a *proof* that no longer checks is reported by the caller."""
    global _built
    if _built:
        return True, ""
    rc, out = run(["lake", "build"], cwd=LEAN, timeout=3000)
    _built = rc == 0
    return rc == 0, out


def strip_comments(text):
    text = re.sub(r"/-.*?-/", "", text, flags=re.S)
    text = re.sub(r"--.*", "", text)
    return text


def grep_forbidden():
    """No sorry/admit/axiom/native_decide/... in any Lean source (comments discarded)."""
    hits = []
    for root, _, files in os.walk(LEAN):
        if ".lake" in root:
            continue
        for f in files:
            if f.endswith(".lean"):
                p = os.path.join(root, f)
                for i, line in enumerate(strip_comments(open(p).read()).splitlines()):
                    if FORBIDDEN.search(line):
                        hits.append(f"{os.path.relpath(p, VERIF)}:{i + 1}: {line.strip()[:100]}")
    return hits


def audit(module, theorems):
    """`#print axioms` for each theorem; returns {theorem: sorted axiom list} (None = missing)."""
    os.makedirs(SCRATCH, exist_ok=True)
    path = os.path.join(SCRATCH, f"Audit_{module.replace('.', '_')}_{os.getpid()}.lean")
    with open(path, "w") as f:
        f.write(f"import {module}\n")
        for t in theorems:
            f.write(f"#print axioms {t}\n")
    rc, out = run(["lake", "env", "lean", path], cwd=LEAN, timeout=900)
    os.unlink(path)
    res = {}
    # output: "'Nmfu.thm' depends on axioms: [propext, ...]" or "'x' does not depend on any axioms"
    flat = out.replace("\n", " ")
    for t in theorems:
        m = re.search(r"'" + re.escape(t) + r"' depends on axioms: \[([^\]]*)\]", flat)
        if m:
            res[t] = sorted(x.strip() for x in m.group(1).split(",") if x.strip())
        elif re.search(r"'" + re.escape(t) + r"' does not depend on any axioms", flat):
            res[t] = []
        else:
            res[t] = None
    return res, out


class Check:
    """One run of one property's check."""

    def __init__(self, pid, level, argv=None):
        self.pid = pid
        self.level = level
        self.tier = tier(argv)
        self.seed = seed()
        self.t0 = time.time()
        self.violations = []      # (key, replay path, no_input)
        self.known_hits = []
        self.coverage = {}
        self.assumptions = []
        self.samples = []
        self.obligations = 0
        self.discharged = 0
        self.notes = []
        kf = os.path.join(VERIF, "known_findings.json")
        self.known = json.load(open(kf)) if os.path.exists(kf) else []

    # -- lean side
    def lean_obligations(self, module, theorems):
        """Build, grep, audit.  Returns True when every theorem checks with allowed axioms."""
        ok, out = lake_build()
        hits = grep_forbidden()
        self.obligations += len(theorems)
        if not ok:
            self.broken_obligation(f"lake build failed", out[-3000:])
            return False
        if hits:
            self.broken_obligation("forbidden construct in Lean sources", "\n".join(hits))
            return False
        res, raw = audit(module, theorems)
        good = True
        for t, ax in res.items():
            if ax is None:
                good = False
                self.broken_obligation(f"theorem {t} not found", raw[-2000:])
            elif not set(ax) <= ALLOWED_AXIOMS:
                good = False
                self.broken_obligation(f"theorem {t} uses axioms {ax}", raw[-2000:])
            else:
                self.discharged += 1
        self.coverage.setdefault("theorems", {}).update({t: ax for t, ax in res.items()})
        if self.tier == "thorough" and good:
            # independent re-check of the compiled proof module by Lean's external checker
            rc, out = run(["lake", "env", "leanchecker", module], cwd=LEAN, timeout=3000)
            self.coverage["leanchecker"] = {"module": module, "exit": rc}
            if rc != 0:
                good = False
                self.broken_obligation(f"leanchecker rejects {module}", out[-2000:])
        return good

    def broken_obligation(self, what, detail):
        """A proof obligation or correspondence no longer checks and no failing input is known
        (yet): recorded; turned into a `no-failing-input-found` violation at finish() unless a
        concrete violation was found by the search."""
        self.notes.append({"broken": what, "detail": detail})

    # -- findings
    def key_of(self, obj):
        return hashlib.sha1(json.dumps(obj, sort_keys=True).encode()).hexdigest()[:12]

    def report(self, finding_key, what, replay_obj):
        """A concrete violation with its replay.  `finding_key` is matched against
        known_findings.json (kind=known suppresses, kind=fixed does not)."""
        for k in self.known:
            if k.get("property") == self.pid and k.get("kind") == "known" and k.get("key") == finding_key:
                if finding_key not in [h[0] for h in self.known_hits]:
                    self.known_hits.append((finding_key, k.get("what", what)))
                return False
        if any(v[0] == finding_key for v in self.violations):
            return True
        path = os.path.join(REPLAYS, f"{self.pid}-{self.key_of(replay_obj)}.json")
        with open(path, "w") as f:
            json.dump({"property": self.pid, "finding_key": finding_key, "what": what, **replay_obj}, f, indent=1)
        self.violations.append((finding_key, path, False, what))
        return True

    def finish(self, extra_cov=None):
        cov = dict(self.coverage)
        if extra_cov:
            cov.update(extra_cov)
        cov.setdefault("samples", self.samples[:8] or ["(none)"])
        cov["obligations"] = max(self.obligations, 0)
        cov["discharged"] = self.discharged
        cov.setdefault("checker_cmd", f"cd /verif/lean && lake build && lake env lean <#print axioms of {self.pid} theorems>")
        cov.setdefault("trusted_base", [
            "Lean 4.33 kernel; axioms subset of {propext, Classical.choice, Quot.sound}",
            "Lean compiler/runtime for executing the model driver and checkers",
            "harness/export.py, harness/translate.py (what they read from /repo/nmfu.py and how they print it)",
            "gcc/clang as executor of the generated C (x86-64 Linux data model)"])
        broken = [n for n in self.notes if "broken" in n]
        if broken and not self.violations:
            path = os.path.join(REPLAYS, f"{self.pid}-obligation-{self.key_of(broken)}.json")
            with open(path, "w") as f:
                json.dump({"property": self.pid, "no_failing_input_found": True, "broken": broken}, f, indent=1)
            self.violations.append(("obligation", path, True, broken[0]["broken"]))
        cov["notes"] = self.notes[:20]
        ev = {"property_id": self.pid, "tier": self.tier, "seed": self.seed, "level": self.level,
              "coverage": cov, "assumptions": self.assumptions, "wall_s": round(time.time() - self.t0, 2),
              "violations": len(self.violations),
              "known_findings_hit": [k for k, _ in self.known_hits]}
        with open(os.path.join(EVIDENCE, f"{self.pid}.json"), "w") as f:
            json.dump(ev, f, indent=1, default=str)
        for k, what in self.known_hits:
            print(f"KNOWN-FINDING: property={self.pid} {k}: {what}")
        for key, path, noinput, what in self.violations:
            print(f"# {self.pid}: {what}")
            print(f"VIOLATION property={self.pid} replay={path}" + (" no-failing-input-found" if noinput else ""))
        if self.violations:
            sys.exit(1)
        print(f"OK {self.pid} tier={self.tier} seed={self.seed} wall={ev['wall_s']}s")
        sys.exit(0)


def scratch_dir(name):
    d = os.path.join(SCRATCH, f"{name}_{os.getpid()}")
    shutil.rmtree(d, ignore_errors=True)
    os.makedirs(d)
    return d
