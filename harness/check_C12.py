"""
C12 — representation options never change what is parsed.

One program, one input, many representations: the binary is built under a covering set of
representation-option combinations and run on the same call sequences; result codes, output
contents and lengths, and the hook call sequence must be identical across all of them (cursor
positions are compared among the indirect-mode builds).  Every binary is also compared with the
Lean runtime model run with the same options, and the model is shown option-independent where a
theorem is available (NmfuProps/C12.lean).
"""
import sys, os, random, shutil, re, multiprocessing as mp
sys.path.insert(0, os.path.dirname(os.path.abspath(__file__)))
import common
from common import Check
import population

THEOREMS = ["Nmfu.C12_zero_len_flag_irrelevant_on_nonempty_chunks", "Nmfu.C12_cursor_and_zero_len_not_in_semantics",
            "Nmfu.C12_storage_independent_partial", "Nmfu.C12_session_refines", "Nmfu.C12_storage_independent",
            "Nmfu.runTree_abs"]

REPRS = [
    ("default", []),
    ("dynamic", ["-fallocate-str-space-dynamic"]),
    ("on-demand", ["-fallocate-str-space-dynamic-on-demand"]),
    ("on-demand+free", ["-fallocate-str-space-dynamic-on-demand", "-fdelete-string-free-memory"]),
    ("u8+perstate+userptr", ["-fstrings-as-u8", "-fhook-per-state", "-finclude-user-ptr"]),
    ("packed+pragma+noguard", ["-fuse-packed-enums", "-fuse-pragma-once", "-fno-use-cplusplus-guard"]),
    ("indirect+zerolen", ["-findirect-start-ptr", "-fzero-len-input-support"]),
    ("collapse2", ["-fcollapse-transition-ranges", "--collapsed-range-length", "2"]),
    ("collapse-default", ["-fcollapse-transition-ranges"]),
    ("dynamic+u8+indirect", ["-fallocate-str-space-dynamic", "-fstrings-as-u8", "-findirect-start-ptr"]),
    ("unsafe-index", ["-funsafe-string-indexing"]),
    ("unsafe-index+u8", ["-funsafe-string-indexing", "-fstrings-as-u8"]),
]


_pats = set()
for _bits in (8, 16, 32, 64):
    _u = int("AA" * (_bits // 8), 16)
    _pats.add(str(_u))
    _pats.add(str(_u - (1 << _bits)))
UNINIT = re.compile(r"=(?:" + "|".join(re.escape(p) for p in sorted(_pats, key=len, reverse=True)) + r")(?=\s|$)")


def canon(lines):
    """Trace with the cursor column removed (direct and indirect builds are compared)."""
    out = []
    for l in lines:
        head, sep, dump = l.partition(" | ")
        w = head.split()
        if w and w[0] == "feed":
            head = f"feed {w[1]}"
        # a NULL buffer of length 0 is the empty string
        dump = re.sub(r"=0::[zN?n-]", "=0::e", dump)
        # an output that was never written still holds the driver's 0xAA fill: indeterminate
        dump = UNINIT.sub("=U", dump)
        out.append(head + sep + dump)
    return out


def work(job):
    import rtdiff, inputs
    prog, seed, wd_root, tier = job
    rng = random.Random(f"{seed}/{prog['name']}/c12")
    res = {"name": prog["name"], "status": "ok", "runs": 0, "viol": [], "corr": [], "states": 0, "builds": 0, "thm": "other"}
    wd = os.path.join(wd_root, str(os.getpid()))
    shutil.rmtree(wd, ignore_errors=True)
    cases = []
    for rname, rargs in REPRS:
        c = rtdiff.Case(prog, ["-O1"] + prog["args"] + rargs, os.path.join(wd, rname))
        if not c.ok:
            if rname == "default":
                res["status"] = c.why
                shutil.rmtree(wd, ignore_errors=True)
                return res
            if c.why.startswith("build:"):
                res["viol"].append({"kind": "build-fails", "repr": rname, "detail": c.why[:500]})
            elif c.why.startswith("rejected"):
                res["viol"].append({"kind": "verdict-differs", "repr": rname, "detail": c.why + " " + repr(c.outcome)[:200]})
            continue
        cases.append((rname, c))
        res["builds"] += 1
    res["states"] = cases[0][1].nstates
    # hypotheses of C12_storage_independent, evaluated on the exported machine (default representation)
    wf = rtdiff.model().ask("wf", cases[0][1].opts, cases[0][1].mt, timeout=60)
    # (index expressions are bounds-checked in every representation set that C12 compares: IdxOK holds; with
    #  -funsafe-string-indexing only machines without index expressions are covered)
    res["thm"] = ("covered" if "idxFree=true" in wf else "indexed") if "safeCheck=true" in wf else "other"
    yields = bool(list(cases[0][1].outcome.cctx.yield_codes))
    if yields:
        cases = [(n, c) for n, c in cases if c.indirect()]
    dfa = cases[0][1].dfa
    for wi, data in enumerate([inputs.random_walk(dfa, rng, rng.randint(1, 24)) for _ in range(8 if tier == "quick" else 30)] + inputs.extra(prog)):
        if wi < (8 if tier == "quick" else 30) and rng.random() < 0.3:
            data = bytes(b | 0x80 if rng.random() < 0.3 else b for b in data)
        n = len(data)
        cut = rng.randint(0, n)
        chunks = [c for c in (cut, n - cut) if c]
        ref = None
        refs = {}     # unsafe indexing is not a representation option: such builds are compared among themselves
        for rname, c in cases:
            ops = rtdiff.feed_ops(c, data, chunks, free=True)
            if not c.indirect():
                ops = [o.replace("feedy:", "feed:") for o in ops]
            cl, status, err = c.run_c(ops)
            res["runs"] += 1
            if status != "ok":
                res["viol"].append({"kind": "binary-" + status, "repr": rname, "args": c.args, "input": data.hex(), "ops": ops,
                                    "detail": err[-400:], "tail": cl[-3:]})
                continue
            ml = c.run_model(ops)
            d = rtdiff.compare(cl, ml)
            if d is not None:
                res["corr"].append({"kind": "model-vs-binary", "repr": rname, "args": c.args, "input": data.hex(), "ops": ops, "first": [d[2], d[3]]})
            if rtdiff.model_ub(ml):
                continue
            cc = canon(cl)
            group = "unsafe-index" if "-funsafe-string-indexing" in c.args else "checked"
            ref = refs.get(group)
            if ref is None:
                ref = refs[group] = (rname, cc, c.args)
            elif cc != ref[1]:
                k = next((i for i in range(min(len(cc), len(ref[1]))) if cc[i] != ref[1][i]), min(len(cc), len(ref[1])))
                res["viol"].append({"kind": "repr-dependent", "repr": rname, "repr_ref": ref[0], "args": c.args, "args_ref": ref[2],
                                    "input": data.hex(), "chunks": chunks,
                                    "first_diff": [ref[1][k] if k < len(ref[1]) else None, cc[k] if k < len(cc) else None]})
        if len(res["viol"]) > 3:
            break
    shutil.rmtree(wd, ignore_errors=True)
    return res


def main():
    ck = Check("C12", "proof")
    ck.lean_obligations("NmfuProps.C12Storage", THEOREMS)
    n_gen = 50 if ck.tier == "quick" else 700
    progs = list(population.population(ck.seed, n_gen))
    wd = common.scratch_dir("c12")
    try:
        with mp.Pool(min(14, os.cpu_count() or 4)) as pool:
            results = pool.map(work, [(p, ck.seed, wd, ck.tier) for p in progs], chunksize=1)
    finally:
        shutil.rmtree(wd, ignore_errors=True)
    byname = {p["name"]: p for p in progs}
    st = {"programs": 0, "binary_runs": 0, "builds": 0, "rejected": 0,
          "storage_theorem_hypotheses_hold": 0, "storage_theorem_hypotheses_hold_with_checked_index_reads": 0, "storage_theorem_other": 0}
    distinct = set()
    for r in results:
        if r["status"] != "ok":
            st["rejected"] += 1
            continue
        st["programs"] += 1
        st["binary_runs"] += r["runs"]
        st["builds"] += r["builds"]
        st[{"covered": "storage_theorem_hypotheses_hold", "indexed": "storage_theorem_hypotheses_hold_with_checked_index_reads"}.get(r["thm"], "storage_theorem_other")] += 1
        prog = byname[r["name"]]
        if r["states"] >= 3:
            distinct.add(population.src_hash(prog["src"]))
        for v in r["viol"]:
            ck.report(f"{population.src_hash(prog['src'])}/{v.get('repr')}/{v['kind']}",
                      f"{r['name']}: {v['kind']} under {v.get('repr')} (vs {v.get('repr_ref', 'default')}): {v.get('first_diff', v.get('detail', ''))}",
                      {"program": prog["src"], "prog_args": prog["args"], **v})
        for v in r["corr"]:
            ck.broken_obligation(f"correspondence model/binary for {r['name']} under {v['repr']}", v)
        if len(ck.samples) < 4 and r["runs"]:
            ck.samples.append({"program": r["name"], "representations": r["builds"], "runs": r["runs"]})
    ck.finish({"evaluations": st["binary_runs"], "distinct_nontrivial": len(distinct),
               "traces_validated_against_impl": st["binary_runs"],
               "rule": f"per accepted program: {len(REPRS)} representation-option sets x random walks (some with high bytes) fed in two chunks, then end and free; distinct programs by source hash with at least 3 states",
               "stats": st, "representations": [r[0] for r in REPRS]})


if __name__ == "__main__":
    main()
