"""
C03 — generated parsers are memory-safe and respect output capacities.

Search / tie: ASan+UBSan(+LeakSanitizer) builds of the real generated C under every string-storage
option set, driven over sessions start; feed...; end; free on inputs biased to fill buffers; any
sanitizer report, crash or leak is a violation with the input as replay.  After every call the
driver dumps counters, bytes and terminators and the harness checks: counter <= capacity
(N-1 terminated, N unterminated, sizeof raw), bytes shown = counter, NUL at the counter for
terminated strings, and a full buffer takes the out-of-space path (the byte is not stored).
The same sessions run in the Lean runtime model, whose memory faults (write through NULL/freed,
out-of-range write, double free) are reported and whose traces must equal the binary's.
Lean: NmfuProps/C03.lean.
"""
import sys, os, random, shutil, re, multiprocessing as mp
sys.path.insert(0, os.path.dirname(os.path.abspath(__file__)))
import common
from common import Check
import population

THEOREMS = ["Nmfu.C03_no_memory_fault", "Nmfu.C03_counters_within_capacity", "Nmfu.C03_end_safe", "Nmfu.runTree_inv",
            "Nmfu.C03_start_establishes_inv", "Nmfu.C03_session_safe"]

STORAGE = [
    ("in-struct", []),
    ("in-struct+u8", ["-fstrings-as-u8"]),
    ("dynamic", ["-fallocate-str-space-dynamic"]),
    ("on-demand", ["-fallocate-str-space-dynamic-on-demand"]),
    ("on-demand+free", ["-fallocate-str-space-dynamic-on-demand", "-fdelete-string-free-memory"]),
    ("on-demand+free+u8", ["-fallocate-str-space-dynamic-on-demand", "-fdelete-string-free-memory", "-fstrings-as-u8"]),
    ("dynamic+free", ["-fallocate-str-space-dynamic", "-fdelete-string-free-memory"]),
]


def invariants(case, lines):
    """Capacity / counter / terminator invariants on every dump line."""
    from nmfu_api import nmfu
    T = nmfu.OutputStorageType
    caps = {}
    for o in case.outs:
        if o.type == T.STR:
            caps[o.name] = (o.str_size - 1 if o.str_null else o.str_size, o.str_null)
        elif o.type == T.RAW:
            caps[o.name] = (None, False)
    bad = []
    started = False
    for l in lines:
        if l.startswith("start "):
            started = True
        if " | " not in l:
            continue
        dump = l.partition(" | ")[2]
        for m in re.finditer(r"(\w+)=(\d+):([0-9a-fNUL?]*):([zn\-N?])", dump):
            name, cnt, hx, term = m.group(1), int(m.group(2)), m.group(3), m.group(4)
            if name not in caps:
                continue
            cap, nt = caps[name]
            if cap is not None and cnt > cap:
                bad.append(("counter-exceeds-capacity", name, cnt, cap, l))
            if hx not in ("NULL",) and len(hx) != 2 * cnt:
                bad.append(("bytes-differ-from-counter", name, cnt, len(hx) // 2, l))
            if nt and term == "n" and started:
                bad.append(("not-nul-terminated-at-counter", name, cnt, cap, l))
    return bad


def work(job):
    import rtdiff, inputs
    prog, seed, wd_root, tier = job
    rng = random.Random(f"{seed}/{prog['name']}/c03")
    res = {"name": prog["name"], "status": "ok", "sessions": 0, "viol": [], "corr": [], "states": 0, "builds": 0, "oos_seen": 0}
    wd = os.path.join(wd_root, str(os.getpid()))
    shutil.rmtree(wd, ignore_errors=True)
    storages = STORAGE if tier == "thorough" else [STORAGE[0], STORAGE[2], STORAGE[3], STORAGE[4], STORAGE[6]]
    first = True
    for sname, sargs in storages:
        c = rtdiff.Case(prog, ["-O1"] + prog["args"] + sargs, os.path.join(wd, sname), sanitize=True)
        if not c.ok:
            if first:
                res["status"] = c.why
                shutil.rmtree(wd, ignore_errors=True)
                return res
            if c.why.startswith("build:"):
                res["viol"].append({"kind": "build-fails", "storage": sname, "detail": c.why[:500]})
            continue
        first = False
        res["builds"] += 1
        wf = rtdiff.model().ask("wf", c.opts, c.mt)
        if "safeCheck=true" not in wf:
            res["viol"].append({"kind": "safeCheck-fails", "storage": sname, "args": c.args, "detail": wf,
                                "report": "the decidable hypothesis of C03_no_memory_fault does not hold of the exported machine"})
        res["states"] = c.nstates
        biggest = max([o.str_size for o in c.outs if getattr(o, "str_size", None)] or [0])
        nwalks = 6 if tier == "quick" else 20
        extra = inputs.extra(prog)
        for wi in range(nwalks + 2 + len(extra)):
            if wi >= nwalks + 2:
                data = extra[wi - nwalks - 2]
            elif wi < nwalks:
                data = inputs.random_walk(c.dfa, rng, rng.randint(1, 40), p_follow=0.92)
            else:
                # long walks that follow the machine closely: reach and pass the capacities
                data = inputs.random_walk(c.dfa, rng, min(biggest, 300) + rng.randint(2, 12), p_follow=0.985)
            chunks = inputs.chunkings(data, rng, 1)[-1] if len(data) > 1 else [len(data)]
            ops = rtdiff.feed_ops(c, data, chunks, free=True)
            if not c.indirect():
                ops = [o.replace("feedy:", "feed:") for o in ops]
            cl, status, err = c.run_c(ops, timeout=30)
            res["sessions"] += 1
            if status != "ok":
                kind = "sanitizer" if status == "sanitizer" else "binary-" + status
                m = re.search(r"(AddressSanitizer|LeakSanitizer|runtime error)[^\n]*", err)
                res["viol"].append({"kind": kind, "storage": sname, "args": c.args, "input": data.hex(), "ops": ops,
                                    "report": (m.group(0) if m else err[-300:])[:300], "tail": cl[-2:]})
                continue
            ml = c.run_model(ops)
            mf = [l for l in ml if l.startswith("fault ") and "undefined behaviour" not in l]
            if mf:
                res["viol"].append({"kind": "model-memory-fault", "storage": sname, "args": c.args, "input": data.hex(), "ops": ops, "report": mf[0]})
            d = rtdiff.compare(cl, ml)
            if d is not None and not mf:
                res["corr"].append({"kind": "model-vs-binary", "storage": sname, "args": c.args, "input": data.hex(), "ops": ops, "first": [d[2], d[3]]})
            for b in invariants(c, cl):
                res["viol"].append({"kind": b[0], "storage": sname, "args": c.args, "input": data.hex(), "ops": ops, "output": b[1], "counter": b[2], "capacity": b[3], "line": b[4]})
                break
        if len(res["viol"]) > 3:
            break
    shutil.rmtree(wd, ignore_errors=True)
    return res


def main():
    ck = Check("C03", "proof")
    ck.lean_obligations("NmfuProps.C03", THEOREMS)
    n_gen = 50 if ck.tier == "quick" else 600
    progs = list(population.population(ck.seed, n_gen, raw=True))
    wd = common.scratch_dir("c03")
    try:
        with mp.Pool(min(14, os.cpu_count() or 4)) as pool:
            results = pool.map(work, [(p, ck.seed, wd, ck.tier) for p in progs], chunksize=1)
    finally:
        shutil.rmtree(wd, ignore_errors=True)
    byname = {p["name"]: p for p in progs}
    st = {"programs": 0, "sessions": 0, "sanitized_builds": 0, "rejected": 0, "programs_with_buffers": 0}
    distinct = set()
    for r in results:
        if r["status"] != "ok":
            st["rejected"] += 1
            continue
        st["programs"] += 1
        st["sessions"] += r["sessions"]
        st["sanitized_builds"] += r["builds"]
        prog = byname[r["name"]]
        if re.search(r"\b(str|raw)\b", prog["src"]):
            st["programs_with_buffers"] += 1
            if r["states"] >= 3:
                distinct.add(population.src_hash(prog["src"]))
        for v in r["viol"]:
            ck.report(f"{v['kind']}/{v.get('storage')}/{population.src_hash(prog['src'])}",
                      f"{r['name']} ({v.get('storage')}): {v['kind']}: {v.get('report', v.get('line', v.get('detail', '')))}",
                      {"program": prog["src"], "prog_args": prog["args"], **v})
        for v in r["corr"]:
            ck.broken_obligation(f"correspondence model/binary for {r['name']} under {v['storage']}", v)
        if len(ck.samples) < 4 and r["sessions"]:
            ck.samples.append({"program": r["name"], "sanitized_builds": r["builds"], "sessions": r["sessions"]})
    ck.finish({"evaluations": st["sessions"], "distinct_nontrivial": len(distinct),
               "traces_validated_against_impl": st["sessions"],
               "rule": "per accepted program: ASan+UBSan+LSan builds under the storage option sets x random walks (biased to stay on matching paths so buffers fill) in random chunkings, then end and free; non-trivial = declares a str/raw output and has at least 3 states",
               "stats": st, "storage_sets": [s[0] for s in STORAGE]})


if __name__ == "__main__":
    main()
