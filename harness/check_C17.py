"""
C17 — end-of-input handling follows the EOF contract.

Lean: NmfuProps/C17.lean.  On the compiled binary (programs compiled with -feof-support,
generator biased towards `end` patterns in match, case and wait positions):
  E1  in a program without `finish` statements, end() called after feed has reported DONE (the
      program has reached its end) returns DONE — never FAIL;
  E2  the decidable check `Machine.endArmsOK` holds of the exported machine: the arm end() takes
      lists end-of-input, or is a fall-through, or is a `wait`-style consuming else arm without
      actions that does not reach the accepting state (C17_data_never_matches_end then says end()
      performs nothing there): data patterns, wildcards and inverted sets never match end-of-input;
  E3  end() after every prefix of the sampled inputs: code and outputs equal the Lean model's.
"""
import sys, os, random, shutil, re, multiprocessing as mp
sys.path.insert(0, os.path.dirname(os.path.abspath(__file__)))
import common
from common import Check
import population

THEOREMS = ["Nmfu.C17_finished_end_is_done", "Nmfu.C17_end_arm_never_on_byte", "Nmfu.C17_byte_arm_never_on_end",
            "Nmfu.C06_accepting_ignores_error_arms"]


def has_end_pattern(src):
    code = re.sub(r"//[^\n]*", "", src)
    code = re.sub(r'"(?:[^"\\]|\\.)*"', '""', code)
    code = re.sub(r"/(?:[^/\\\n]|\\.)+/", "//", code)
    return re.search(r"\bend\b", code) is not None


def work(job):
    import rtdiff, inputs
    prog, seed, wd_root, tier = job
    rng = random.Random(f"{seed}/{prog['name']}/c17")
    res = {"name": prog["name"], "status": "ok", "ends": 0, "viol": [], "corr": [], "states": 0, "done_ends": 0, "end_pattern": has_end_pattern(prog["src"]),
           "has_finish": re.search(r"\bfinish\b", prog["src"]) is not None, "endArmsOK": None}
    wd = os.path.join(wd_root, str(os.getpid()))
    for oname, oargs in (("default", []), ("strict", ["-fstrict-done-token-generation"])):
        shutil.rmtree(wd, ignore_errors=True)
        args = ["-O1"] + [a for a in prog["args"] if a != "-feof-support"] + ["-feof-support", "-findirect-start-ptr"] + oargs
        case = rtdiff.Case(prog, args, wd)
        if not case.ok:
            if oname == "default":
                res["status"] = case.why
                break
            continue
        res["states"] = case.nstates
        wf = rtdiff.model().ask("wf", case.opts, case.mt)
        res["endArmsOK"] = "endArmsOK=true" in wf
        if not res["endArmsOK"]:
            res["viol"].append({"kind": "E2-data-arm-taken-on-end", "opt": oname, "args": case.args, "detail": wf})
        for _ in range(8 if tier == "quick" else 30):
            data = inputs.random_walk(case.dfa, rng, rng.randint(0, 14))
            ops = []
            for k in range(len(data) + 1):
                ops += ["start"] + ([f"feedy:{data[:k].hex()}"] if k else []) + ["end"]
            cl, status, err = case.run_c(ops, timeout=60)
            if status != "ok":
                res["viol"].append({"kind": "binary-" + status, "opt": oname, "input": data.hex(), "detail": err[-300:]})
                continue
            ml = case.run_model(ops)
            for seg, mseg in zip(rtdiff.segments(cl), rtdiff.segments(ml)):
                res["ends"] += 1
                d = rtdiff.compare(seg, mseg)
                if d is not None:
                    res["corr"].append({"kind": "model-vs-binary", "opt": oname, "args": case.args, "input": data.hex(), "first": [d[2], d[3]]})
                    break
                feeds = [l for l in seg if l.startswith("feed ")]
                ends = [l for l in seg if l.startswith("end ")]
                if not ends:
                    continue
                ecode = ends[-1].split()[1]
                if ecode == "DONE":
                    res["done_ends"] += 1
                fin = [l.split()[1] for l in feeds if l.split()[1] == "DONE" or l.split()[1].startswith("FINISH_")]
                if fin and ecode == "FAIL" and not res["has_finish"]:
                    res["viol"].append({"kind": "E1-end-after-finished-returns-fail", "opt": oname, "args": case.args,
                                        "segment": seg})
            if len(res["viol"]) > 3:
                break
    shutil.rmtree(wd, ignore_errors=True)
    return res


def main():
    ck = Check("C17", "proof")
    ck.lean_obligations("NmfuProps.C17", THEOREMS)
    n_gen = 70 if ck.tier == "quick" else 900
    progs = list(population.population(ck.seed, n_gen, eof=True))
    wd = common.scratch_dir("c17")
    try:
        with mp.Pool(min(14, os.cpu_count() or 4)) as pool:
            results = pool.map(work, [(p, ck.seed, wd, ck.tier) for p in progs], chunksize=1)
    finally:
        shutil.rmtree(wd, ignore_errors=True)
    byname = {p["name"]: p for p in progs}
    st = {"programs": 0, "end_calls": 0, "rejected": 0, "with_end_pattern": 0, "end_returned_done": 0}
    distinct = set()
    for r in results:
        if r["status"] != "ok":
            st["rejected"] += 1
            continue
        st["programs"] += 1
        st["end_calls"] += r["ends"]
        st["end_returned_done"] += r["done_ends"]
        st["with_end_pattern"] += 1 if r["end_pattern"] else 0
        prog = byname[r["name"]]
        if r["states"] >= 3:
            distinct.add(population.src_hash(prog["src"]))
        for v in r["viol"]:
            ck.report(v["kind"].split("/")[0] if v["kind"].startswith("E") else f"{population.src_hash(prog['src'])}/{v['kind']}",
                      f"{r['name']} ({v.get('opt')}): {v['kind']}", {"program": prog["src"], **v})
        for v in r["corr"]:
            ck.broken_obligation(f"correspondence model/binary for {r['name']}: {v['kind']}", v)
        if len(ck.samples) < 4 and r["ends"]:
            ck.samples.append({"program": r["name"], "end_calls": r["ends"], "has_end_pattern": r["end_pattern"]})
    # end-of-input against the reference semantics (its `fin` step), at -O1 and -O3, for the programs
    # that have `end` patterns (corpus and generated)
    import refcheck
    endprogs = [dict(p, args=[a for a in p["args"] if a != "-feof-support"] + ["-feof-support"], also_O3=True, c_stage=False)
                for p in progs if has_end_pattern(p["src"])]
    rres = refcheck.collect("C17", endprogs)
    rst, _ = refcheck.judge(ck, "C17", endprogs, rres)
    st["reference_comparisons"] = {k: rst[k] for k in ("accepted", "closed", "closed_relaxed", "mismatch", "rejected", "unsupported")}
    ck.finish({"evaluations": st["end_calls"], "distinct_nontrivial": len(distinct),
               "traces_validated_against_impl": st["end_calls"],
               "rule": "programs compiled with EOF support (default and strict-done); end() after every prefix of random walks; distinct programs by source hash with at least 3 states",
               "stats": st})


if __name__ == "__main__":
    main()
