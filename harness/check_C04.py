"""
C04 — feed and end always return: no input makes a generated parser spin.

Lean: NmfuProps/C04.lean — pruning soundness and, for machines passing `noSpinCheck`, no store and
no symbol drives a dispatch into its move budget.  Per accepted program (generic population plus
shapes built around the constructs that can go round without consuming: loops, try/catch of the
out-of-space condition, optional, if, yields):
  * `noSpinCheck` and `yieldProgressCheck` are evaluated on the exported machine;
  * a surviving SPIN path is a candidate: the binary is run on inputs that follow the machine,
    under a wall-clock alarm; a run that does not return is the failing input;
  * independently, every program's binary is run on random walks under the alarm.
Programs that the compiler rejects are counted (the compile-time half of the property).
"""
import sys, os, random, shutil, re, multiprocessing as mp
sys.path.insert(0, os.path.dirname(os.path.abspath(__file__)))
import common
from common import Check
import population

THEOREMS = ["Nmfu.C04_dispatch_returns", "Nmfu.C04_feed_returns", "Nmfu.prune_runTree"]


def spin_shapes(rng, n):
    """Programs built around non-consuming control flow."""
    pats = ['"y"', '"ab"', '/a+/', '/[a-c]/', '"y"i']
    handlers = ["", "delete s;", 's = "a";', '"z";', "h();", "i = [i + 1];", "finish;", 'wait "q";']
    appends = ["s += [65];", "s += [$last];", "s += /b+/;", 's += "ab";']
    out = []
    for k in range(n):
        size = rng.choice([1, 2, 3, 4])
        unterm = "unterminated " if rng.random() < 0.3 else ""
        decl = f"out {unterm}str[{size}] s;\nout int i = 0;\nhook h;\n"
        ap = rng.choice(appends)
        pat = rng.choice(pats)
        hd = rng.choice(handlers)
        kind = (k - 3) % 21 if k >= 3 else rng.randrange(21)
        if kind == 0:
            body = f'"x"; loop {{ try {{ {ap} {pat}; }} catch (outofspace) {{ {hd} }} }}'
        elif kind == 1:
            body = f'loop {{ try {{ {pat}; {ap} }} catch (outofspace) {{ {hd} }} }}'
        elif kind == 2:
            body = f'try {{ loop {{ {ap} {pat}; }} }} catch (outofspace) {{ {hd} {pat}; }}'
        elif kind == 3:
            body = f'loop {{ if i == 0 {{ {pat}; }} else {{ {hd or "i = 0;"} }} }}'
        elif kind == 4:
            body = f'loop {{ optional {{ {pat}; }} {rng.choice(["", "h();", "i = 1;"])} }}'
        elif kind == 5:
            body = f'loop {{ case {{ {pat} -> {{ {rng.choice(["", "break;", "h();"])} }} else -> {{ {rng.choice(["", "h();", "i = 2;"])} }} }} }}'
        elif kind == 6:
            body = f'"x"; loop {{ try {{ {ap} {ap} {pat}; }} catch {{ {hd} }} }}'
        elif kind == 7:
            body = f'loop {{ try {{ {pat}; {ap} }} catch (outofspace) {{ try {{ {ap} {pat}; }} catch (outofspace) {{ {hd} }} }} }}'
        elif kind == 8:
            body = f'foreach {{ {pat}; }} do {{ s += [$last]; }} loop {{ try {{ {ap} "k"; }} catch (outofspace) {{ {hd} }} }}'
        # cycles of fall-throughs that the compiler's own loop check has to reject (or that are fine)
        elif kind == 9:
            body = f'loop {{ case {{ {pat} -> {{ i = 1; }} else -> {{ if i == 1 {{ break; }} }} }} }} "z";'
        elif kind == 10:
            body = f'loop outer {{ loop {{ case {{ {pat} -> {{ i = 1; }} else -> {{ break; }} }} }} i = 3; {rng.choice(["", chr(34) + "q" + chr(34) + ";"])} }}'
        elif kind == 11:
            body = f'optional {{ "#"; }} loop {{ case {{ {pat} -> {{ i = [i + 1]; }} else -> {{ i = 0; }} }} }}'
        elif kind == 12:
            body = f'try {{ "xy"; }} catch (nomatch) {{ }} loop {{ try {{ {pat}; }} catch (nomatch) {{ {rng.choice(["", "i = 1;"])} }} }}'
        elif kind in (17, 18):
            # an append inside the out-of-space handler itself: when it finds the output full there is no handler left for
            # it (FAIL), never its own catch block again
            ap2 = rng.choice(["s += [66];", "s += [$last];", 's += "c";'])
            if kind == 17:
                body = f'"x"; try {{ {ap} {ap} {pat}; }} catch (outofspace) {{ {ap2} {hd} }} "k";'
            else:
                body = f'loop {{ try {{ {pat}; {ap} }} catch (outofspace) {{ {ap2} {rng.choice(["", "h();", "i = 1;"])} }} }}'
        elif kind in (19, 20):
            # a loop body that may consume nothing but yields: the compiler's loop check has to see through the yield
            decl = decl + "yieldcode GOT;\nyieldcode ALSO;\n"
            if kind == 19:
                body = f'loop {{ optional {{ {pat}; }} yield GOT; {rng.choice(["", "h();", "i = 1;"])} }}'
            else:
                body = f'loop {{ case {{ {pat} -> {{ yield GOT; }} else -> {{ {rng.choice(["yield ALSO;", "h(); yield ALSO;"])} }} }} }}'
        elif kind >= 14:
            # yields next to matches that end by look-ahead or start the next iteration: at -O3 the yield is merged onto a
            # consuming transition; a yield that returns without advancing the cursor is returned for ever
            decl = decl + "yieldcode GOT;\nyieldcode ALSO;\n"
            pre = rng.choice(['/[^y]*/;', '/a*/;', 'optional { "b"; }', ""])
            post = rng.choice(["i = [i + 1];", "h();", "", "yield ALSO;", f"{ap}"])
            if kind == 14:
                body = f'loop {{ {pre} "y"; yield GOT; {post} }}'
            elif kind == 15:
                body = f'loop {{ {pre} {pat}; yield GOT; {post} }}'
            else:
                body = f'loop {{ try {{ {pre} "y"; {ap} yield GOT; }} catch (outofspace) {{ yield ALSO; wait "q"; }} }}'
        else:
            # a conditional break of the inner loop lands at the end of the outer loop's body: when nothing there
            # consumes, control is back at the same condition with the same data
            tail = rng.choice(["", "h();", '"q";', f"{pat};"])
            body = f'loop a {{ loop b {{ if i == 0 {{ break b; }} {pat}; }} {tail} }}'
        if k < 3:
            # loop names: a break written before a nested (or later) loop of the same name must not refer to that loop
            kind = 99
            body = ['loop l { case { "a" -> {} else -> { break l; } } loop l { case { "b" -> {} ";" -> { break; } } } }',
                    'loop outer { case { "c" -> {} "q" -> { break outer; } else -> { break inner; } } loop inner { "a"; } }',
                    'loop m { loop l { case { "a" -> { break l; } "c" -> { break m; } } } loop l { "b"; break; } } "x";'][k]
        src = decl + "parser {\n  " + body + "\n}\n"
        out.append({"name": f"spin-{k}", "src": src, "feats": {}, "args": ["-fyield-support"] if 14 <= kind < 99 and kind not in (17, 18) else [],
                    "origin": "spin-shape", "shape": kind,
                    "level": "-O0" if kind == 99 else ["-O3", "-O1", "-O3"][(k // 21) % 3] if 14 <= kind < 99 and kind not in (17, 18) else ["-O0", "-O1", "-O3"][(k // 21) % 3]})
    return out


def yield_stall(lines):
    """The driver re-invokes feed after a yield code at most 4n+8 times: a trace that ends in eight identical
    yield lines (same code, same cursor) is a parser that yields for ever without consuming."""
    feeds = [l.split(" | ")[0] for l in lines if l.startswith("feed ")]
    if len(feeds) >= 8 and feeds[-1].split()[1].startswith("YIELD_") and len(set(feeds[-8:])) == 1:
        return feeds[-1]
    return None


def work(job):
    import rtdiff, inputs
    prog, seed, wd_root, tier = job
    rng = random.Random(f"{seed}/{prog['name']}/c04")
    res = {"name": prog["name"], "status": "ok", "runs": 0, "viol": [], "candidate": None, "states": 0, "origin": prog["origin"]}
    wd = os.path.join(wd_root, str(os.getpid()))
    shutil.rmtree(wd, ignore_errors=True)
    os.environ["DRV_ALARM"] = "2"
    c = rtdiff.Case(prog, [prog.get("level", "-O1")] + prog["args"], wd, exclude_known_spin=False)
    if not c.ok:
        res["status"] = c.why
        shutil.rmtree(wd, ignore_errors=True)
        return res
    res["states"] = c.nstates
    wf = rtdiff.model().ask("wf", c.opts, c.mt, timeout=60)
    nospin = "noSpin=true" in wf
    yprog = "yieldProgress=true" in wf
    paths = ""
    if not nospin or not yprog:
        paths = rtdiff.model().ask("spin", c.opts, c.mt, timeout=60)
        redirect = "ask:full:" in paths and "=true" in paths
        first = re.findall(r"hook:\S+:\(some \d+\)|\S+", paths.split(" ;; ")[0].partition("path=")[2])
        conds = {e for e in first if e.startswith("ask:cond:")}
        only_conds = len(conds) == 1 and all(e.startswith("ask:cond:") or e.startswith("hook:") for e in first)
        res["candidate"] = {"noSpin": nospin, "yieldProgress": yprog, "paths": paths[:600], "through_outofspace_redirect": redirect,
                            "only_conditions": only_conds}
    n_runs = 6 if tier == "quick" else 20
    datas = [inputs.random_walk(c.dfa, rng, rng.randint(1, 30)) for _ in range(n_runs)]
    if res["candidate"]:
        # model-guided search: the model answers SPIN at once, so many inputs can be screened
        found = None
        for k in range(400 if tier == "quick" else 2000):
            d = inputs.random_walk(c.dfa, rng, rng.randint(2, 60), p_follow=0.97)
            ops = rtdiff.feed_ops(c, d)
            ml = c.run_model(ops, timeout=20)
            if ml == ["model-timeout"]:
                break
            if any(" SPIN " in l or l.startswith("feed SPIN") or l.startswith("end SPIN") for l in ml):
                found = d
                break
        res["candidate"]["model_spin_input"] = found.hex() if found is not None else None
        if found is not None:
            datas = [found] + datas
    for data in datas:
        ops = rtdiff.feed_ops(c, data)
        if not c.indirect():
            ops = [o.replace("feedy:", "feed:") for o in ops]
        cl, status, err = c.run_c(ops, timeout=8)
        res["runs"] += 1
        stall = yield_stall(cl)
        if status == "ok" and stall:
            res["viol"].append({"kind": "yields-for-ever", "input": data.hex(), "ops": ops, "args": c.args,
                                "binary_tail": cl[-3:], "stalled_at": stall, "through_outofspace_redirect": False})
            break
        if status == "timeout":
            ml = c.run_model(ops, timeout=20)
            res["viol"].append({"kind": "does-not-return", "input": data.hex(), "ops": ops, "args": c.args,
                                "binary_tail": cl[-2:], "model_tail": ml[-2:],
                                "through_outofspace_redirect": bool(res["candidate"] and res["candidate"]["through_outofspace_redirect"])})
            break
    shutil.rmtree(wd, ignore_errors=True)
    return res


def main():
    ck = Check("C04", "proof")
    ck.lean_obligations("NmfuProps.C04", THEOREMS)
    n_gen = 60 if ck.tier == "quick" else 800
    n_shape = 120 if ck.tier == "quick" else 1200
    rng = random.Random(ck.seed)
    progs = list(population.population(ck.seed, n_gen, yields=None)) + spin_shapes(rng, n_shape)
    # (yields land on consuming transitions at -O3: a yield that forgets to advance re-yields for ever)
    progs += [dict(p, name=p["name"] + "@O3", level="-O3") for p in progs if p.get("origin") == "corpus" and "yield " in p["src"]]
    for p in progs:
        if p["feats"].get("yields") is None:
            p["feats"].pop("yields", None)
    wd = common.scratch_dir("c04")
    try:
        with mp.Pool(min(14, os.cpu_count() or 4)) as pool:
            results = pool.map(work, [(p, ck.seed, wd, ck.tier) for p in progs], chunksize=2)
    finally:
        shutil.rmtree(wd, ignore_errors=True)
    byname = {p["name"]: p for p in progs}
    st = {"programs": 0, "rejected_at_compile_time": 0, "binary_runs": 0, "candidates": 0, "candidates_confirmed": 0,
          "spin_shapes_accepted": 0, "spin_shapes_rejected": 0, "reject_reasons": {}}
    distinct = set()
    for r in results:
        prog = byname[r["name"]]
        if r["status"] != "ok":
            st["rejected_at_compile_time"] += 1
            if r["origin"] == "spin-shape":
                st["spin_shapes_rejected"] += 1
            continue
        st["programs"] += 1
        st["binary_runs"] += r["runs"]
        if r["origin"] == "spin-shape":
            st["spin_shapes_accepted"] += 1
        if r["states"] >= 3:
            distinct.add(population.src_hash(prog["src"]))
        confirmed = False
        for v in r["viol"]:
            confirmed = True
            # the recorded finding is a *loop* around a try whose out-of-space handler comes back to the append without
            # consuming: a program without a loop statement cannot be that call site
            in_loop = re.search(r"\bloop\b", prog["src"]) is not None
            key = "spin-through-outofspace-redirect" if v["through_outofspace_redirect"] and in_loop else f"spin/{population.src_hash(prog['src'])}"
            if prog.get("shape") == 13 and r["candidate"] and r["candidate"].get("only_conditions"):
                # the recorded finding: every move of the cycle is the same data condition of a conditional break
                key = "spin-through-conditional-break"
            ck.report(key, f"{r['name']}: " + ("feed returns the same yield code for ever without consuming" if v["kind"] == "yields-for-ever"
                                               else "feed does not return") + f" on input {v['input']}",
                      {"program": prog["src"], "candidate": r["candidate"], **v})
        if r["candidate"]:
            st["candidates"] += 1
            if confirmed:
                st["candidates_confirmed"] += 1
            else:
                # the theorem's hypothesis is not met for this machine and no failing input was found
                if r["candidate"]["through_outofspace_redirect"] and re.search(r"\bloop\b", prog["src"]) and any(k.get("key") == "spin-through-outofspace-redirect" and k.get("kind") == "known" and k.get("property") == "C04" for k in ck.known):
                    # same call site as the recorded finding (redirect into a handler that re-enters the append)
                    ck.report("spin-through-outofspace-redirect", "candidate spin through an out-of-space redirect", {"program": prog["src"], "candidate": r["candidate"]})
                else:
                    ck.broken_obligation(f"noSpinCheck/yieldProgressCheck fails for accepted program {r['name']} and no spinning input was found",
                                         {"program": prog["src"], "candidate": r["candidate"]})
        if len(ck.samples) < 4 and r["runs"]:
            ck.samples.append({"program": r["name"], "runs": r["runs"], "candidate": bool(r["candidate"])})
    ck.finish({"evaluations": st["binary_runs"], "distinct_nontrivial": len(distinct),
               "traces_validated_against_impl": st["binary_runs"],
               "rule": "generic population + programs shaped around loops / try-catch(outofspace) / optional / if / case-else; per accepted program noSpinCheck + yieldProgressCheck on the exported machine and random walks on the binary under a 2 s alarm; distinct accepted programs with at least 3 states",
               "stats": st})


if __name__ == "__main__":
    main()
