"""
C13 — the macro argument lookup, called directly.

`ParseCtx._lookup_named_entity` of the real nmfu is called on constructed bound-argument stacks
(frames as Python dicts keyed by (kind, name)) and compared with the Lean mirror `lookStack`
(NmfuModel/MacroLookup.lean; theorems in NmfuProps/C13Lookup.lean).  Values are small integers, so
"the same value" is equality; a global hit is reported by name.
"""
import random
import lark
from nmfu_api import nmfu

K = nmfu.MacroArgumentKind
KINDS = [K.MACRO, K.OUT, K.MATCH, K.INTEXPR, K.HOOK, K.LOOP, K.FINISHCODE, K.YIELDCODE, K.EXPR]
SRC = """out int a; out int b;
hook h; hook g;
finishcode F; yieldcode Y;
macro m() { "m"; }
macro n(out x) { "n"; }
parser { loop L { m(); n(a); h(); "x"; break L; } }
"""
NAMES = ["a", "b", "h", "g", "F", "Y", "m", "n", "L", "x", "y", "zz"]


def make_ctx():
    nmfu.ProgramData.load_commandline_flags(["-fyield-support", "p.nmfu"])
    nmfu.ProgramData.load_source(SRC)
    ctx = nmfu.ParseCtx(nmfu.parser.parse(SRC, start="start"))
    ctx.parse()
    ctx.break_handlers = {"L": object()}          # (only membership matters to the lookup)
    g = [(K.OUT, n) for n in ctx.state_object_spec] + [(K.HOOK, n) for n in ctx.hooks] + \
        [(K.FINISHCODE, n) for n in ctx.finish_codes] + [(K.YIELDCODE, n) for n in ctx.yield_codes] + \
        [(K.MACRO, n) for n in ctx.macros] + [(K.LOOP, n) for n in ctx.break_handlers]
    return ctx, g


def real_lookup(ctx, stack, kind, name):
    ctx.bound_argument_stack = [dict(f) for f in stack]
    try:
        r = ctx._lookup_named_entity(kind, lark.Token("IDENTIFIER", name))
    except nmfu.UndefinedReferenceError:
        return "undefined"
    finally:
        ctx.bound_argument_stack = []
    if isinstance(r, int) and not isinstance(r, bool):
        return f"val {r}"
    return f"global {name}"


def run(model, rng, n):
    """-> (comparisons, list of disagreements)"""
    ctx, g = make_ctx()
    gs = ",".join(f"{k.value}:{nm}" for k, nm in g) or "-"
    bad = []
    hist = {"val": 0, "undefined": 0, "global": 0}
    for i in range(n):
        depth = rng.choice([0, 1, 1, 2, 2, 3, 4])
        stack = []
        v = 0
        for _ in range(depth):
            f = {}
            for _ in range(rng.randint(0, 4)):
                v += 1
                f[(rng.choice(KINDS), rng.choice(NAMES))] = v
            stack.append(f)
        entries = [key for f in stack for key in f]
        r = rng.random()
        if entries and r < 0.45:
            kind, name = rng.choice(entries)                 # a binding that exists somewhere in the stack
        elif entries and r < 0.6:
            kind, name = rng.choice(KINDS), rng.choice(entries)[1]   # its name under (perhaps) another kind
        elif r < 0.9 and g:
            kind, name = rng.choice(g)                       # something declared globally
        else:
            kind, name = rng.choice(KINDS), rng.choice(NAMES)
        real = real_lookup(ctx, stack, kind, name)
        st = ";".join(",".join(f"{k.value}:{nm}:{val}" for (k, nm), val in f.items()) for f in stack) if stack else "-"
        mod = model.ask("mlook", gs, st, kind.value, name)
        hist[real.split()[0]] += 1
        if real != mod:
            bad.append({"stack": [[(k.name, nm, val) for (k, nm), val in f.items()] for f in stack], "kind": kind.name, "name": name,
                        "implementation": real, "model": mod})
    return n, bad, hist
