"""
C18 — the compiler always terminates with code or a diagnosed error.

Exploration (the part no model can carry: lark, message rendering, append_after, the optimisation
loop): grammar-derived programs biased to semantic edge cases — undefined names, wrong kinds, odd
integer widths, unknown escapes, raw / enum / bool misuse, empty bodies, huge repeats, duplicate
declarations, action-only constructs, deep nesting — under random option sets, each compilation
under a wall-clock alarm.  Outcomes: generated code | diagnosed error (lark error, NMFUError whose
message renders, command-line RuntimeError) | INTERNAL EXCEPTION | UNRENDERABLE MESSAGE | TIMEOUT;
the last three are violations with the source as replay.
Lean (NmfuProps/C18.lean): totality with explicit error class of the modelled front-end
functions, and the generated graph of `_integer_containing`.
"""
import sys, os, random, re, signal, multiprocessing as mp
sys.path.insert(0, os.path.dirname(os.path.abspath(__file__)))
import common
from common import Check
import population

THEOREMS = ["Nmfu.C18_convertString_diagnoses", "Nmfu.C18_int_types_total", "Nmfu.C18_literals_total"]

OPTION_POOL = ["-O0", "-O1", "-O2", "-O3", "-feof-support", "-fyield-support", "-findirect-start-ptr",
               "-fallocate-str-space-dynamic", "-fallocate-str-space-dynamic-on-demand", "-fdelete-string-free-memory",
               "-fstrings-as-u8", "-fhook-per-state", "-fstrict-done-token-generation", "-fzero-len-input-support",
               "-funsafe-string-indexing", "-fuse-packed-enums", "-finclude-user-ptr", "-fcollapse-transition-ranges",
               "-fcodepoints-in-errors", ("--collapsed-range-length", "0"), ("--collapsed-range-length", "-3"),
               ("--collapsed-range-length", "1"), "-O\u0663", "-O\u00b2"]


def pick_options(rng, lo, hi):
    out = []
    for o in rng.sample(OPTION_POOL, rng.randint(lo, hi)):
        out += list(o) if isinstance(o, tuple) else [o]
    return out


NEEDS = {"i": "out int i;", "u": "out int{unsigned} u;", "b": "out bool b;", "e": "out enum{A,B} e;", "s": "out str[4] s;",
         "t": "out unterminated str[3] t;", "r": "out raw{uint32_t} r;", "h": "hook h;", "F": "finishcode F;", "Y": "yieldcode Y;"}


def edge_programs(rng, n):
    """Syntactically valid sources aimed at semantic edge cases."""
    decl_bits = ["out int i;", "out int{unsigned} u;", "out int{signed, size 1} i1;", "out int{unsigned, size 2} i2;",
                 "out int{size 4} i4;", "out int{size 8} i8;", "out int{size 16} big;", "out int{size 3} odd;", "out int{size 0} z;",
                 "out bool b;", "out bool b = true;", "out enum{A,B} e;", "out enum{A,B} e = A;", "out enum{A,B} e = C;",
                 "out str[4] s;", "out str[1] s;", "out str[0] s;", 'out str[4] s = "abcdefgh";', 'out str[4] s = "ab";', "out unterminated str[3] t;",
                 'out str[4] s = 5;', "out raw{uint32_t} r;", "out raw{struct foo} r;", "out raw{uint8_t} r = 5;", "out int i = 5;", 'out int i = "x";',
                 "out int i = [1 + 2];", "out int i = j;", "hook h;", "hook h;", "finishcode F;", "yieldcode Y;", "finishcode F, G;",
                 "macro m() { \"a\"; }", "macro m(out o) { o = 1; }", "macro m(expr e) { i = e; }", "macro r() { r(); }",
                 "macro m() {}", "macro m(hook k) { k(); }", "macro m(out o, expr v) { o = v; }", "macro m(match p) { p; (p \"!\"); }",
                 "macro r() { optional { loop { case { \"a\" -> { try { r(); } catch { } } \"b\" -> { break; } } } } }",
                 "macro r() { loop { case { \"a\" -> { optional { r(); } } } } }", "out str[-5] s;", "out unterminated str[0] t;",
                 'out str[6] s = "\u65e5\u672c";'.encode().decode("unicode_escape")]
    stmts = ['"a";', '"\\q";', '"\\x4";', '"\\u1234";', '"\\xzz";', '"";', '""i;', '"6"b;', '"zz"b;', '"61 62"b;', "/a+/;", "/a{1000}/;", "/a{2,1}/;", "/[z-a]/;", "/()/;",
             "/a**/;", "/(a|)/;", "/[^\\x00-\\xff]/;", "b/61/;", "b/6/;", "b/[00-ff]+ff/;", "end;", "wait end;", "wait \"\";",
             "i = 5;", "i = [i + 1];", "i = true;", "i = A;", "i = \"s\";", "i += 5;", "i += \"a\";", "b = 5;", "b = [1 < 2];", "b = true;", "e = A;", "e = Z;", "e = 1;",
             "s = \"abc\";", "s = \"abcdefgh\";", "s = 5;", "s = [1];", "s += [65];", "s += \"a\";", "s += /b+/;", "s += i;", "s += end;", "delete s;", "delete i;", "delete nothing;",
             "r = 5;", "r += [1];", "r += \"ab\";", "delete r;", "t += \"x\";", "h();", "nohook();", "m();", "m(i);", "m(5);", "r();", "finish;", "finish F;", "finish NOPE;", "yield Y;", "yield NOPE;", "break;", "break X;",
             "i = [s.len];", "i = [s[0]];", "i = [i.len];", "i = [s[\"a\"]];", "i = [$last];", "i = [$first];", "i = [1 / 0];", "i = [1 << 100];", "i = ['ab'];", "i = ['\\q'];",
             "i = [99999999999999999999999];", "i = [0x];", "i = [-(-1)];", "i = [!i];", "i = [!(i == 1)];", "i = [1 == 2 == 3];", "i = [b && i];", "i = [e == A];", "i = [e + 1];",
             "if i == 1 { \"a\"; }", "if i { \"a\"; }", "if s { \"a\"; }", "if $last == 1 { \"a\"; }", "if i == 1 { i = 2; } else { i = 3; }", "if i == 1 { } ", "if b { h(); }",
             "loop { \"a\"; }", "loop { }", "loop L { break L; }", "loop { i = 1; }", "loop L { loop L { \"a\"; break L; } }", "optional { \"a\"; }", "optional { i = 1; }", "optional { }",
             "try { \"a\"; } catch { }", "try { i = 1; } catch { }", "try { \"a\"; } catch (nomatch) { \"b\"; }", "try { s += \"a\"; } catch (outofspace) { }", "try { } catch { }",
             "case { \"a\" -> { } }", "case { \"a\" -> { } \"a\" -> { } }", "case { \"a\" -> { } \"ab\" -> { } }", "case { else -> { } }", "case { else -> { } else -> { } }", "case { \"a\", else -> { i = 1; } \"b\" -> { } }",
             "greedy case { \"a\" -> { } \"ab\" -> { } }", "greedy case { prio 1 /a+/ -> { } prio 1 /a+b?/ -> { } }", "greedy case { /a*/ -> { } }",
             "foreach { \"a\"; } do { i = 1; }", "foreach { \"a\"; } do { \"b\"; }", "foreach { i = 1; } do { i = 2; }", "foreach { /a+/; } do { s += [$last]; }", "foreach { } do { }",
             "(\"a\" \"b\");", "(\"a\" (\"b\" /c/));", "();", "[1];", "[i];",
             'm("ab");', "m(/x+/);", "m([i + 1]);", "m(h);", "m(i, [i + 1]);", 'm(i, "k");', "m(/a/);", "e = C;",
             'if 100 / 0 > 1 { "a"; }', 'if (1 << -1) == 0 { "a"; }', 'if 8 % (4 - 4) == 0 && 2 > 1 { "a"; }', "if 6 / 3 == 2 { i = 1; }",
             "optional { end; } end;", "case { end -> { } /a*/ -> { } }",
             's = "0a1"b;', 's = "0a 1b"b;', 's = "61"b;', 'greedy case { "a" -> { } ("a" end) -> { } "ax" -> { } } if i == 0 { case { end -> { } "x" -> { } } }',
             's = "\u65e5\u672c";'.encode().decode("unicode_escape"), '"\u65e5";'.encode().decode("unicode_escape"), "b = [1 / 0];", "b = [1 << (0 - 1)];",
             'case { "a" -> { i = 1; } else -> { i = 2; } else -> { i = 3; } }', '"a";\x0c', '\x0c"b" "c";', "i = [1 / (2 - 2)];", "i = [5 % 0];",
             'optional { if i == 0 { "a"; } else { "b"; } } "z";', "greedy case { else -> { i = 2; } }",
             'case { "a" -> { if i == 0 { i = 1; } } "b" -> { i = 2; } } i = 5; "=";',
             'greedy case { "a" -> { i = 1; } else -> { i = 2; } else -> { i = 3; } }']
    out = []
    # programs that crashed the compiler once: always in the population
    always = ['out int i = 0;\nparser { optional { if i == 0 { "a"; } else { "b"; } } "z"; }\n',
              'out int i;\nparser { greedy case { else -> { i = 2; } } }\n',
              'out int i;\nparser { greedy case { else -> { i = 2; } } "x"; }\n',
              'out int i;\nout int k;\nparser { case { "a" -> { if k == 0 { i = 1; } } "b" -> { i = 2; } } k = 5; "="; }\n',
              'out int i;\nparser { case { "a" -> { if i == 0 { i = 1; } } "b" -> {} } i = 2; "x"; }\n',
              'out int i = 0;\nparser { loop { optional { if i == 0 { "a"; } } "z"; } }\n',
              'out int i = 0;\nparser { try { if i == 0 { "a"; } else { "b"; } } catch { } "z"; }\n',
              'out int i = 0;\nparser { loop { case { "(" -> { i = [i + 1]; } ")" -> { i = [i - 1]; } /[a-z]/ -> {} } if i < 0 { finish; } elif i == 0 { break; } } ";"; }\n',
              'out int i = 0;\nfinishcode F;\nparser { loop { "a"; i = [i + 1]; if i == 3 { break; } elif i == 9 { finish F; } else { i = [i + 1]; } } "z"; }\n',
              'out int i = 0;\nparser { "a"; optional { optional { i = 1; } } "b"; }\n',
              # a handler reached only through the actions that follow a conditionally broken loop
              'out str[3] s; out int i = 0;\nparser { try { loop { "a"; i = [i+1]; if i == 2 { break; } } s += [33]; s += [33]; s += [33]; "z"; } catch (outofspace) { "c"; } }\n',
              'out int i = 0;\nparser { i = 0b; "a"; }\n', 'out int i = 0x;\nparser { "a"; }\n',
              'out enum{A,B} e;\nmacro m(expr q){ e = q; }\nparser{ "a"; m([zzz + 1]); "b"; }\n',
              'out int i = ' + '9' * 5000 + ';\nparser { "a"; }\n',
              # an append after a construct that cannot fail: its out-of-space target is the generic fail state
              'out int{size 1} i;\nout str[3] s;\nparser { try { wait "yd"; finish; } catch (nomatch) { " c"; } delete s; s += [(10)]; }\n',
              'out str[2] s;\nparser { loop { wait "ab"; s += [65]; } }\n']
    for k, src in enumerate(always):
        for lvl in ("-O0", "-O1", "-O3"):
            out.append({"name": f"always-{k}{lvl}", "src": src, "args": [lvl]})
    # parsers that cannot fail (the optimiser removes the fail state) under the options whose feed starts with the
    # empty-chunk test, which names that state
    for k, src in enumerate(['parser { wait "x"; }\n', 'out int n = 0;\nparser { loop { /./; n = [n + 1]; } }\n',
                             'yieldcode Y;\nparser { loop { /./; yield Y; } }\n', 'yieldcode Y;\nparser { wait "ab"; yield Y; wait "c"; }\n']):
        for args in (["-O1", "-fzero-len-input-support"], ["-O3", "-fzero-len-input-support", "-feof-support"], ["-O2", "-fyield-support"],
                     ["-O1", "-fyield-support", "-findirect-start-ptr", "-feof-support"]):
            if "yield" in src and "-fyield-support" not in args:
                continue
            out.append({"name": f"cannot-fail-{k}-{len(out)}", "src": src, "args": args})
    for k in range(n):
        nd = rng.randint(0, 5)
        decls = rng.sample(decl_bits, nd)
        ns = rng.randint(1, 5)
        body = [rng.choice(stmts) for _ in range(ns)]
        # nesting
        if rng.random() < 0.3:
            d = rng.randint(1, 12)
            body = ["optional { " * d + rng.choice(stmts) + " }" * d]
        # mostly declare what the statements use, so that they get past name resolution
        if rng.random() < 0.75:
            import re as _re
            used = set(_re.findall(r"\b([iubestrhFY])\b", " ".join(body)))
            declared = " ".join(decls)
            for v in sorted(used):
                if not _re.search(r"\b" + v + r"\b", declared):
                    decls.append(NEEDS[v])
        src = "\n".join(decls) + "\nparser {\n  " + "\n  ".join(body) + "\n}\n"
        args = pick_options(rng, 0, 4)
        out.append({"name": f"edge-{k}", "src": src, "args": args})
    return out


class Timeout(Exception):
    pass


def _alarm(signum, frame):
    raise Timeout()


def work(job):
    from nmfu_api import compile_program
    # the budget is CPU time of this worker (the machine may be busy): 90 s, where the slowest diagnosable
    # source of the population (/a{1000}/, quadratic subset construction, then the recursion limit) needs 19 s alone
    signal.signal(signal.SIGVTALRM, _alarm)
    signal.setitimer(signal.ITIMER_VIRTUAL, 90)
    try:
        o = compile_program(job["src"], job["args"])
        signal.setitimer(signal.ITIMER_VIRTUAL, 0)
        kind, msg = o.kind, o.msg
    except Timeout:
        kind, msg = "timeout", "compilation did not finish within 90 s of CPU time"
    except RecursionError:
        signal.setitimer(signal.ITIMER_VIRTUAL, 0)
        kind, msg = "internal", "RecursionError"
    finally:
        signal.setitimer(signal.ITIMER_VIRTUAL, 0)
    if "<<unrenderable" in msg:
        kind = "unrenderable"
    return {"name": job["name"], "kind": kind, "msg": msg[:300]}


def main():
    ck = Check("C18", "proof")
    import translate
    ck.coverage["generated_tables_changed"] = translate.regenerate({"IntTypes.lean", "Lits.lean"})
    ck.lean_obligations("NmfuProps.C18", THEOREMS)
    rng = random.Random(ck.seed)
    n_edge = 1500 if ck.tier == "quick" else 30000
    n_gen = 300 if ck.tier == "quick" else 4000
    jobs = edge_programs(rng, n_edge)
    for p in population.generated(ck.seed, n_gen):
        jobs.append({"name": p["name"], "src": p["src"], "args": p["args"] + pick_options(rng, 0, 3)})
    with mp.Pool(min(15, os.cpu_count() or 4), maxtasksperchild=200) as pool:
        results = pool.map(work, jobs, chunksize=8)
    byname = {j["name"]: j for j in jobs}
    kinds = {}
    msgs = {}
    for r in results:
        kinds[r["kind"]] = kinds.get(r["kind"], 0) + 1
        if r["kind"] in ("internal", "timeout", "unrenderable"):
            j = byname[r["name"]]
            # signature: exception class + raising function, so that one defect is one finding
            sig = re.sub(r"0x[0-9a-f]+|\d+", "N", r["msg"].split(" @ ")[0])[:70] + " @ " + (r["msg"].split(" @ ")[1].split(":")[0] if " @ " in r["msg"] else "")
            if (r["kind"] == "timeout" or "RecursionError" in r["msg"] or "Timeout" in r["msg"]) and re.search(r"\{\s*(\d{3,})", j["src"]):
                # deep recursion of the recursive conversion / lookup code on a very long state chain
                sig = "deep-recursion-on-huge-repeat"
            ck.report(sig if sig == "deep-recursion-on-huge-repeat" else f"{r['kind']}/{sig}", f"compiler outcome {r['kind']}: {r['msg'][:160]}", {"program": j["src"], "args": j["args"], "outcome": r})
        elif r["kind"] != "ok":
            m = r["msg"].split("\n")[0][:60]
            msgs[m] = msgs.get(m, 0) + 1
    top = sorted(msgs.items(), key=lambda kv: -kv[1])[:25]
    ck.samples = [{"program": jobs[0]["src"], "args": jobs[0]["args"], "outcome": results[0]["kind"]}]
    ck.finish({"evaluations": len(jobs), "distinct_nontrivial": len({j["src"] for j in jobs}),
               "rule": "edge-case programs assembled from declaration / statement fragments aimed at semantic corner cases (plus nesting) and the generic generator's programs, each under a random option set and a 90 s CPU-time limit; distinct sources",
               "stats": {"outcomes": kinds, "diagnosed_error_kinds_top": top},
               "explanation": "whole-compiler totality is explored; theorems cover the modelled functions only"})


if __name__ == "__main__":
    main()
